// Controlled scheduler: cooperative fibers on one OS thread, every interleaving decided by a seeded
// strategy or by a recorded choice list (DESIGN 2.2). Also: simulated clock, happens-before check.
#ifndef VERIF_SCHED_H
#define VERIF_SCHED_H

#include "rng.h"

#include <ucontext.h>
#include <sys/mman.h>
#include <cstdio>
#include <cstdlib>
#include <cstring>
#include <functional>
#include <string>
#include <vector>
#include <algorithm>

#if defined(__has_feature)
#  if __has_feature(address_sanitizer)
#    define SIM_ASAN 1
#  endif
#endif
#if defined(__SANITIZE_ADDRESS__) && !defined(SIM_ASAN)
#  define SIM_ASAN 1
#endif
#ifdef SIM_ASAN
#  include <sanitizer/asan_interface.h>
#  include <sanitizer/common_interface_defs.h>
#endif

namespace sim {

enum { MAXT = 8 };

struct VC
{
	uint32_t c[MAXT];
	void clear() { std::memset(c, 0, sizeof(c)); }
	void join(const VC & o) { for(int i = 0; i < MAXT; ++i) if(o.c[i] > c[i]) c[i] = o.c[i]; }
};

enum TaskState { T_UNUSED, T_READY, T_MUTEX, T_CV, T_DONE };

enum Strategy { STRAT_RANDOM = 0, STRAT_PCT = 1, STRAT_PREEMPT = 2, STRAT_REPLAY = 3, STRAT_SERIAL = 4 };

struct RunCfg
{
	int strategy;
	int depth;          // PCT: number of priority change points; PREEMPT: number of preemptions
	int expectedLen;    // run length estimate (scheduling points) for placing change points
	int64_t quantumNs;  // simulated time added per scheduling point
	bool spurious;      // allow spurious condition-variable wake-ups
	uint64_t schedSeed;
	const std::vector<int> * replay; // STRAT_REPLAY: recorded choices
	int stepCap;
	RunCfg() : strategy(STRAT_RANDOM), depth(0), expectedLen(100), quantumNs(0), spurious(false), schedSeed(1), replay(nullptr), stepCap(20000) {}
};

struct Task
{
	ucontext_t ctx;
	char * stack;
	TaskState st;
	const void * waitObj;
	const void * cvRegistered;
	bool notified;
	bool timedOut;
	bool hasTimer;
	int64_t deadline;
	bool spinWait;
	int priority;
	int inOp;          // harness marks: >0 while inside a library operation
	VC vc;
	std::function<void()> body;
	const void * asanFake;
};

struct AccessRec
{
	const void * obj;
	int wTid; uint32_t wClk;
	uint32_t rClk[MAXT];
};

struct SyncRec
{
	const void * obj;
	VC vc;
};

class Sched
{
public:
	enum { STACK_SIZE = 512 * 1024 };

	Sched()
		: now(0), steps(0), failed(false), phaseChecked(true), hbEnabled(true), rng(1),
		  cur(-1), nTasks(0), replayPos(0), stacksReady(false), mainFake(nullptr)
	{
		for(int i = 0; i < MAXT; ++i) { tasks[i].stack = nullptr; tasks[i].st = T_UNUSED; }
		resetStats();
	}

	// ---------------- run control -----------------
	void beginRun(const RunCfg & c)
	{
		cfg = c;
		rng.reseed(c.schedSeed);
		cur = -1; nTasks = 0; now = 0; steps = 0; failed = false; failClass.clear(); failDetail.clear();
		phaseChecked = true; replayPos = 0; hbEnabled = true;
		choices.clear();
		accessTable.clear(); syncTable.clear(); watchLo.clear(); watchHi.clear();
		logHash = kHashInit; ileaveHash = kHashInit;
		runSwitches = 0; runPreemptInOp = 0; runSpurious = 0; runLostNotify = 0; runTimerFired = 0; runLateTimer = 0; runClockJumps = 0;
		lastRun = -1;
		mainVc.clear(); mainVc.c[MAXT - 1] = 1;
		changePoints.clear();
		if(c.strategy == STRAT_PCT || c.strategy == STRAT_PREEMPT) {
			const int len = c.expectedLen > 0 ? c.expectedLen : 1;
			for(int i = 0; i < c.depth; ++i) changePoints.push_back((int)rng.below((uint32_t)len) + 1);
			std::sort(changePoints.begin(), changePoints.end());
		}
		lowPriority = 0;
		ensureStacks();
	}

	int spawn(std::function<void()> body)
	{
		if(nTasks >= MAXT - 1) { std::fprintf(stderr, "too many tasks\n"); std::abort(); }
		const int id = nTasks++;
		Task & t = tasks[id];
		t.st = T_READY; t.waitObj = nullptr; t.cvRegistered = nullptr; t.notified = false; t.timedOut = false;
		t.hasTimer = false; t.deadline = 0; t.spinWait = false; t.inOp = 0; t.asanFake = nullptr;
		t.priority = 1000 + (int)rng.below(1000000);
		t.vc = mainVc; t.vc.c[id] = 1;
		t.body = std::move(body);
#ifdef SIM_ASAN
		__asan_unpoison_memory_region(t.stack, STACK_SIZE);
#endif
		getcontext(&t.ctx);
		t.ctx.uc_stack.ss_sp = t.stack;
		t.ctx.uc_stack.ss_size = STACK_SIZE;
		t.ctx.uc_link = nullptr;
		makecontext(&t.ctx, (void (*)())&Sched::trampoline, 0);
		return id;
	}

	// Runs until every task is done (returns true), or a terminal state / failure is reached (false).
	bool run()
	{
		if(failed) return false;
		const int t = pickNext();
		if(t < 0) return allDone();
		switchFromMain(t);
		return !failed && allDone();
	}

	bool allDone() const
	{
		for(int i = 0; i < nTasks; ++i) if(tasks[i].st != T_DONE) return false;
		return true;
	}

	bool active() const { return cur >= 0; }
	int current() const { return cur; }

	void setStrategy(int s) { cfg.strategy = s; }

	// ---------------- failure -----------------
	void fail(const char * cls, const std::string & detail)
	{
		if(!failed) { failed = true; failClass = cls; failDetail = detail; }
		if(cur >= 0) switchToMain(); // never resumed
	}

	// ---------------- scheduling points -----------------
	void point(const char * tag)
	{
		if(cur < 0) return;
		if(failed) switchToMain();
		tick(tag);
		clearSpinners(cur);
		const int t = pickNext();
		if(t != cur) {
			noteSwitch(tag, t, true);
			switchTo(t);
		}
	}

	// current task cannot continue until woken (mutex/cv)
	void block(TaskState st, const void * obj, const char * tag)
	{
		Task & me = tasks[cur];
		me.st = st; me.waitObj = obj;
		tick(tag);
		clearSpinners(cur);
		const int t = pickNext();
		if(t < 0) switchToMain(); // terminal state: main decides; may resume us later
		else if(t != cur) { noteSwitch(tag, t, false); switchTo(t); }
		// resumed
	}

	// busy-wait iteration that failed to acquire: runnable again only after another task ran
	void spinWait(const char * tag)
	{
		Task & me = tasks[cur];
		me.spinWait = true;
		tick(tag);
		const int t = pickNext();
		if(t < 0) { fail("deadlock", std::string("all tasks spinning or blocked at ") + tag); }
		if(t != cur) { noteSwitch(tag, t, false); switchTo(t); }
	}

	// For a caller that polls without holding a lock (a consumer whose wait() returns at once while another thread's processing
	// call holds the events): give way until some other task has made progress - provided another task can run at all.
	void spinYield(const char * tag)
	{
		bool other = false;
		for(int i = 0; i < nTasks; ++i) if(i != cur && (eligible(i) || (tasks[i].st == T_CV && tasks[i].hasTimer))) other = true;
		if(!other) { point(tag); return; }
		spinWait(tag);
	}

	// ---------------- choices -----------------
	// choose one of the candidate task ids (used for notify_one with several waiters)
	int chooseAmong(const std::vector<int> & cands)
	{
		if(cands.size() == 1) return cands[0];
		int pick = -1;
		if(cfg.strategy == STRAT_REPLAY) {
			if(cfg.replay && replayPos < cfg.replay->size()) {
				const int want = (*cfg.replay)[replayPos++];
				for(size_t i = 0; i < cands.size(); ++i) if(cands[i] == want) pick = want;
			}
			if(pick < 0) pick = cands[0];
		}
		else if(cfg.strategy == STRAT_SERIAL || cur < 0) {
			pick = cands[0];
		}
		else {
			pick = cands[rng.below((uint32_t)cands.size())];
		}
		choices.push_back(pick);
		return pick;
	}

	// ---------------- happens-before -----------------
	VC & myVc() { return cur >= 0 ? tasks[cur].vc : mainVc; }
	int myTid() const { return cur >= 0 ? cur : MAXT - 1; }

	void hbAcquire(const void * obj)
	{
		SyncRec * r = findSync(obj, false);
		if(r) myVc().join(r->vc);
	}
	void hbRelease(const void * obj)
	{
		SyncRec * r = findSync(obj, true);
		r->vc = myVc();
		myVc().c[myTid()]++;
	}
	void hbAcqRel(const void * obj)
	{
		SyncRec * r = findSync(obj, true);
		myVc().join(r->vc);
		r->vc = myVc();
		myVc().c[myTid()]++;
	}

	// structural access to a shared object; reports an unsynchronised conflicting pair
	void access(const void * obj, bool write, const char * what)
	{
		if(!hbEnabled || cur < 0 || !phaseChecked) return;
		AccessRec * r = nullptr;
		for(size_t i = 0; i < accessTable.size(); ++i) if(accessTable[i].obj == obj) { r = &accessTable[i]; break; }
		if(!r) {
			AccessRec n; n.obj = obj; n.wTid = -1; n.wClk = 0; std::memset(n.rClk, 0, sizeof(n.rClk));
			accessTable.push_back(n); r = &accessTable.back();
		}
		const VC & vc = tasks[cur].vc;
		if(r->wTid >= 0 && r->wTid != cur && r->wClk > vc.c[r->wTid]) {
			fail("unsynchronised-access", std::string(write ? "write" : "read") + " after unordered write: " + what);
		}
		if(write) {
			for(int u = 0; u < MAXT; ++u) {
				if(u != cur && r->rClk[u] > vc.c[u]) {
					fail("unsynchronised-access", std::string("write after unordered read: ") + what);
				}
			}
			r->wTid = cur; r->wClk = vc.c[cur];
			std::memset(r->rClk, 0, sizeof(r->rClk));
		}
		else {
			r->rClk[cur] = vc.c[cur];
		}
	}

	void forget(const void * obj)
	{
		for(size_t i = 0; i < accessTable.size(); ++i) if(accessTable[i].obj == obj) { accessTable.erase(accessTable.begin() + (long)i); return; }
	}

	// ---------------- watched ranges (objects under test) -----------------
	void watch(const void * p, size_t n) { watchLo.push_back((const char *)p); watchHi.push_back((const char *)p + n); }
	bool watched(const void * p) const
	{
		for(size_t i = 0; i < watchLo.size(); ++i) if((const char *)p >= watchLo[i] && (const char *)p < watchHi[i]) return true;
		return false;
	}

	// ---------------- cv support -----------------
	void wake(int tid, bool byNotify)
	{
		Task & t = tasks[tid];
		if(byNotify) { t.notified = true; t.vc.join(myVc()); }
		if(t.st == T_CV) { t.st = T_READY; t.waitObj = nullptr; }
	}

	void wakeMutexWaiters(const void * m)
	{
		for(int i = 0; i < nTasks; ++i) if(tasks[i].st == T_MUTEX && tasks[i].waitObj == m) { tasks[i].st = T_READY; tasks[i].waitObj = nullptr; }
	}

	Task & task(int i) { return tasks[i]; }
	int taskCount() const { return nTasks; }

	void opEnter() { if(cur >= 0) tasks[cur].inOp++; }
	void opLeave() { if(cur >= 0) tasks[cur].inOp--; }

	void log(uint64_t v) { logHash = hashMix(logHash, v); }

	void resetStats()
	{
		totSteps = 0; totSwitches = 0; totPreemptInOp = 0; totSpurious = 0; totLostNotify = 0; totTimerFired = 0; totLateTimer = 0; totClockJumps = 0; totSimNs = 0;
	}
	void accumulateStats()
	{
		totSteps += steps; totSwitches += runSwitches; totPreemptInOp += runPreemptInOp; totSpurious += runSpurious; totLostNotify += runLostNotify;
		totTimerFired += runTimerFired; totLateTimer += runLateTimer; totClockJumps += runClockJumps; totSimNs += now;
	}

public:
	RunCfg cfg;
	int64_t now;
	int steps;
	bool failed;
	std::string failClass, failDetail;
	bool phaseChecked;   // false in the end phase: oracles and HB off
	bool hbEnabled;
	std::vector<int> choices;
	uint64_t logHash, ileaveHash;
	int runSwitches, runPreemptInOp, runSpurious, runLostNotify, runTimerFired, runLateTimer, runClockJumps;
	uint64_t totSteps, totSwitches, totPreemptInOp, totSpurious, totLostNotify, totTimerFired, totLateTimer, totClockJumps; int64_t totSimNs;
	Rng rng;

private:
	void tick(const char * tag)
	{
		++steps; now += cfg.quantumNs;
		// VERIF_TRACE=1: every scheduling point on stderr (for inspecting a replayed seed; reads no clock and draws no random number)
		static const bool traceOn = std::getenv("VERIF_TRACE") != nullptr;
		if(traceOn) std::fprintf(stderr, "%ld t%d %s\n", (long)steps, cur, tag);
		if(steps > cfg.stepCap) { fail("step-cap", "run exceeded the scheduling-point cap (livelock?)"); }
	}

	void noteSwitch(const char * tag, int to, bool preempt)
	{
		++runSwitches;
		const uint64_t th = hashStr(kHashInit, tag);
		ileaveHash = hashMix(ileaveHash, th ^ ((uint64_t)cur << 56) ^ ((uint64_t)to << 48));
		logHash = hashMix(logHash, th ^ ((uint64_t)cur << 56) ^ ((uint64_t)to << 48) ^ (uint64_t)steps);
		if(preempt && cur >= 0 && tasks[cur].inOp > 0) ++runPreemptInOp;
	}

	bool eligible(int i) const
	{
		const Task & t = tasks[i];
		return t.st == T_READY && !t.spinWait;
	}

	// Decide which task runs next. Returns -1 if none can (terminal state).
	int pickNext()
	{
		for(;;) {
			// timers
			for(int i = 0; i < nTasks; ++i) {
				Task & t = tasks[i];
				if(t.st == T_CV && t.hasTimer && now >= t.deadline) {
					t.st = T_READY; t.timedOut = true; t.waitObj = nullptr; ++runTimerFired;
				}
			}
			int nReady = 0;
			for(int i = 0; i < nTasks; ++i) if(eligible(i)) ++nReady;
			if(nReady > 0) break;
			// a spinning task alone can never progress; but a timer may release someone
			int64_t best = -1;
			for(int i = 0; i < nTasks; ++i) {
				const Task & t = tasks[i];
				if(t.st == T_CV && t.hasTimer && (best < 0 || t.deadline < best)) best = t.deadline;
			}
			if(best < 0) return -1;
			now = best; ++runClockJumps;
		}

		int pick = -1;
		const bool curOk = cur >= 0 && eligible(cur);
		switch(cfg.strategy) {
		case STRAT_REPLAY: {
			if(cfg.replay && replayPos < cfg.replay->size()) {
				const int want = (*cfg.replay)[replayPos++];
				if(want >= 0 && want < nTasks) {
					if(eligible(want)) pick = want;
					else if(tasks[want].st == T_CV && cfg.spurious) pick = want;
				}
			}
			if(pick < 0) pick = curOk ? cur : lowestReady();
			break;
		}
		case STRAT_SERIAL:
			pick = curOk ? cur : lowestReady();
			break;
		case STRAT_PCT: {
			if(isChangePoint() && curOk) tasks[cur].priority = --lowPriority;
			if(cfg.spurious && isChangePointSpur()) pick = randomCvWaiter();
			if(pick < 0) {
				int bestP = 0;
				for(int i = 0; i < nTasks; ++i) if(eligible(i) && (pick < 0 || tasks[i].priority > bestP)) { pick = i; bestP = tasks[i].priority; }
			}
			break;
		}
		case STRAT_PREEMPT: {
			const bool cp = isChangePoint();
			if(cfg.spurious && cp && rng.chance(1, 3)) pick = randomCvWaiter();
			if(pick < 0) {
				if(curOk && !cp) pick = cur;
				else pick = randomReady(cp ? cur : -1);
			}
			break;
		}
		default: { // STRAT_RANDOM
			if(cfg.spurious && rng.chance(1, 16)) pick = randomCvWaiter();
			if(pick < 0) pick = randomReady(-1);
			break;
		}
		}
		if(tasks[pick].st == T_CV) { // spurious wake-up
			tasks[pick].st = T_READY; tasks[pick].waitObj = nullptr; ++runSpurious;
		}
		choices.push_back(pick);
		lastRun = pick;
		return pick;
	}

	// A task made real progress (anything but a failed spin iteration): spinning tasks may retry.
	// A failed spin does not count, otherwise two spinners could keep each other "runnable" forever
	// while the lock holder starves under a priority-based strategy.
	void clearSpinners(int except)
	{
		for(int i = 0; i < nTasks; ++i) if(i != except) tasks[i].spinWait = false;
	}

	bool isChangePoint()
	{
		bool hit = false;
		while(!changePoints.empty() && changePoints.front() <= steps) { hit = true; changePoints.erase(changePoints.begin()); }
		return hit;
	}
	bool isChangePointSpur() { return rng.chance(1, 24); }

	int lowestReady() const
	{
		for(int i = 0; i < nTasks; ++i) if(eligible(i)) return i;
		return -1;
	}
	int randomReady(int avoid)
	{
		int n = 0, ids[MAXT];
		for(int i = 0; i < nTasks; ++i) if(eligible(i) && i != avoid) ids[n++] = i;
		if(n == 0) return lowestReady();
		return ids[rng.below((uint32_t)n)];
	}
	int randomCvWaiter()
	{
		int n = 0, ids[MAXT];
		for(int i = 0; i < nTasks; ++i) if(tasks[i].st == T_CV) ids[n++] = i;
		if(n == 0) return -1;
		return ids[rng.below((uint32_t)n)];
	}

	SyncRec * findSync(const void * obj, bool create)
	{
		for(size_t i = 0; i < syncTable.size(); ++i) if(syncTable[i].obj == obj) return &syncTable[i];
		if(!create) return nullptr;
		SyncRec r; r.obj = obj; r.vc.clear();
		syncTable.push_back(r);
		return &syncTable.back();
	}

	void ensureStacks()
	{
		if(stacksReady) return;
		for(int i = 0; i < MAXT; ++i) {
			void * p = mmap(nullptr, STACK_SIZE, PROT_READ | PROT_WRITE, MAP_PRIVATE | MAP_ANONYMOUS, -1, 0);
			if(p == MAP_FAILED) { std::perror("mmap"); std::abort(); }
			tasks[i].stack = (char *)p;
		}
		stacksReady = true;
	}

	static void trampoline();

	void switchTo(int t)
	{
		const int from = cur;
		cur = t;
#ifdef SIM_ASAN
		__sanitizer_start_switch_fiber((void **)&tasks[from].asanFake, tasks[t].stack, STACK_SIZE);
#endif
		swapcontext(&tasks[from].ctx, &tasks[t].ctx);
#ifdef SIM_ASAN
		__sanitizer_finish_switch_fiber((void *)tasks[from].asanFake, nullptr, nullptr);
#endif
	}

	void switchFromMain(int t)
	{
		cur = t;
		fromMainFlag = (mainStackBottom == nullptr);
#ifdef SIM_ASAN
		__sanitizer_start_switch_fiber((void **)&mainFake, tasks[t].stack, STACK_SIZE);
#endif
		swapcontext(&mainCtx, &tasks[t].ctx);
#ifdef SIM_ASAN
		__sanitizer_finish_switch_fiber((void *)mainFake, nullptr, nullptr);
#endif
	}

	void switchToMain()
	{
		const int from = cur;
		cur = -1;
#ifdef SIM_ASAN
		__sanitizer_start_switch_fiber((void **)&tasks[from].asanFake, mainStackBottom, mainStackSize);
#endif
		swapcontext(&tasks[from].ctx, &mainCtx);
#ifdef SIM_ASAN
		__sanitizer_finish_switch_fiber((void *)tasks[from].asanFake, nullptr, nullptr);
#endif
		// resumed later (end phase after a terminal state)
	}

	void finishTask()
	{
		const int me = cur;
		tasks[me].st = T_DONE;
		mainVc.join(tasks[me].vc);
		clearSpinners(me);
		const int t = failed ? -1 : pickNext();
		if(t < 0) {
			cur = -1;
#ifdef SIM_ASAN
			__sanitizer_start_switch_fiber(nullptr, mainStackBottom, mainStackSize);
#endif
			setcontext(&mainCtx);
		}
		else {
			noteSwitch("task.end", t, false);
			cur = t;
#ifdef SIM_ASAN
			__sanitizer_start_switch_fiber(nullptr, tasks[t].stack, STACK_SIZE);
#endif
			setcontext(&tasks[t].ctx);
		}
	}

public:
	// main stack bounds for ASan fiber annotations (filled by initMainStack)
	const void * mainStackBottom = nullptr;
	size_t mainStackSize = 0;

	bool fromMainFlag = false;

private:
	int cur;
	int nTasks;
	Task tasks[MAXT];
	ucontext_t mainCtx;
	VC mainVc;
	size_t replayPos;
	bool stacksReady;
	std::vector<AccessRec> accessTable;
	std::vector<SyncRec> syncTable;
	std::vector<const char *> watchLo, watchHi;
	std::vector<int> changePoints;
	int lowPriority;
	int lastRun;
	const void * mainFake;
};

inline Sched & S()
{
	static Sched s;
	return s;
}

inline void Sched::trampoline()
{
	Sched & s = S();
#ifdef SIM_ASAN
	{
		const void * b = nullptr; size_t sz = 0;
		__sanitizer_finish_switch_fiber(nullptr, &b, &sz);
		if(s.fromMainFlag) { s.mainStackBottom = b; s.mainStackSize = sz; }
	}
#endif
	s.fromMainFlag = false;
	try {
		s.tasks[s.cur].body();
	}
	catch(...) {
		if(!s.failed) { s.failed = true; s.failClass = "task-exception"; s.failDetail = "uncaught exception escaped a task body"; }
	}
	s.tasks[s.cur].body = nullptr;
	s.finishTask();
}

// RAII marker: the current task is inside a library operation
struct OpScope
{
	OpScope() { S().opEnter(); }
	~OpScope() { S().opLeave(); }
};

} // namespace sim

#endif
