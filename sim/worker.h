// Generic in-process worker: runs many seeds without forking, prints one line per violation and a final
// stats line; identifies the seed a crash happened on (DESIGN 2.9).
//
// An engine translation unit defines the functions declared in namespace engine and ends with
//   int main(int argc, char ** argv) { return sim::workerMain(argc, argv); }
#ifndef VERIF_WORKER_H
#define VERIF_WORKER_H

#include "plan.h"
#include "rng.h"

#include <csignal>
#include <cstdio>
#include <cstring>
#include <ctime>
#include <string>
#include <unistd.h>
#include <unordered_set>
#include <vector>

#if defined(__has_feature)
#  if __has_feature(address_sanitizer)
#    define SIM_WORKER_ASAN 1
#  endif
#endif
#if defined(__SANITIZE_ADDRESS__) && !defined(SIM_WORKER_ASAN)
#  define SIM_WORKER_ASAN 1
#endif
#ifdef SIM_WORKER_ASAN
#  include <sanitizer/common_interface_defs.h>
#endif
#if defined(SIM_WORKER_ASAN) && !defined(VERIF_SECONDARY_TU)
extern "C" const char * __asan_default_options();
extern "C" __attribute__((used, visibility("default"))) const char * __asan_default_options()
{
	return "exitcode=77:detect_leaks=0:abort_on_error=0:allocator_may_return_null=1:detect_stack_use_after_return=0";
}
extern "C" __attribute__((used, visibility("default"))) const char * __ubsan_default_options()
{
	return "print_stacktrace=1:halt_on_error=1:exitcode=77";
}
#endif

namespace sim {

struct RunOut
{
	bool violation;
	std::string cls, detail;
	uint64_t logHash;    // hash of everything observable in the run (determinism gate)
	uint64_t caseHash;   // identity of the case explored (interleaving / plan hash)
	bool nontrivial;
	long steps;
	std::vector<int> choices;
	std::vector<int> faults;   // the fault sequence that produced the violation (FLT), copied into the replay plan
	long subRuns;              // executions performed inside this evaluation (fault enumeration)
	RunOut() : violation(false), logHash(0), caseHash(0), nontrivial(false), steps(0), subRuns(0) {}
	void fail(const std::string & c, const std::string & d) { if(!violation) { violation = true; cls = c; detail = d; } }
};

} // namespace sim

namespace engine {
extern const char * const kName;
extern std::string mode;                                   // set from --mode
void generate(uint64_t seed, sim::Plan & plan);            // pure function of (seed, mode)
void execute(const sim::Plan & plan, sim::RunOut & out);    // pure function of (plan, code)
std::string describe(const sim::Plan & plan);              // compact, for evidence samples
void statsJson(std::string & out);                         // ,"key":value ... appended to the stats object
// optional: does this plan need a pilot run to measure its length (PCT / preemption strategies)?
bool wantsPilot(const sim::Plan & plan);
}

namespace sim {

struct WorkerState
{
	volatile long currentIndex;
	volatile int inRun;
};

inline WorkerState & workerState() { static WorkerState w = { -1, 0 }; return w; }

inline void writeCrashLine(const char * kind, int sig)
{
	char buf[160];
	const int n = std::snprintf(buf, sizeof(buf), "\nC {\"i\":%ld,\"kind\":\"%s\",\"sig\":%d}\n", workerState().currentIndex, kind, sig);
	if(n > 0) { ssize_t r = write(1, buf, (size_t)n); (void)r; }
}

#if defined(SIM_WORKER_ASAN) && !defined(VERIF_SECONDARY_TU)
// gcc links libubsan next to libasan, each with its own copy of the common runtime: the death callback registered below is only
// known to libasan. libubsan calls this weak hook for every report, so an undefined-behaviour report names the run it happened in.
extern "C" __attribute__((used, visibility("default"))) void __ubsan_on_report(void)
{
	sim::writeCrashLine("ubsan", 0);
}
#endif

inline void crashSignalHandler(int sig)
{
	writeCrashLine("signal", sig);
	_exit(78);
}

inline void sanitizerDeath()
{
	writeCrashLine("sanitizer", 0);
}

// per-run watchdog (seconds): a real hang (self-deadlock on a real mutex, an endless loop) becomes a reported seed
inline unsigned watchdogSeconds()
{
	static unsigned w = 0;
	if(w == 0) { const char * e = std::getenv("VERIF_WATCHDOG_S"); const long v = e ? std::atol(e) : 0; w = v > 0 ? (unsigned)v : 20u; }
	return w;
}

inline void alarmHandler(int)
{
	writeCrashLine("hang", 14);
	_exit(80);
}

inline void terminateHandler()
{
	writeCrashLine("terminate", 0);
	_exit(79);
}

inline std::string hex64(uint64_t v)
{
	char b[20]; std::snprintf(b, sizeof(b), "%016llx", (unsigned long long)v); return b;
}

inline double wallNow()
{
	struct timespec ts; clock_gettime(CLOCK_MONOTONIC, &ts);
	return (double)ts.tv_sec + (double)ts.tv_nsec * 1e-9;
}

inline uint64_t violationHash(const RunOut & out)
{
	uint64_t h = hashStr(kHashInit, out.cls.c_str());
	h = hashStr(h, out.detail.c_str());
	return h;
}

inline void printViolation(long index, uint64_t seed, const Plan & plan, const RunOut & out)
{
	Plan p = plan;
	p.choices = out.choices;
	p.useChoices = !out.choices.empty();
	if(!out.faults.empty()) p.faults = out.faults;
	std::string line = "V {\"i\":" + std::to_string(index) + ",\"seed\":\"" + hex64(seed) + "\",\"class\":\"" + jsonEscape(out.cls)
		+ "\",\"detail\":\"" + jsonEscape(out.detail) + "\",\"hash\":\"" + hex64(violationHash(out)) + "\",\"describe\":\""
		+ jsonEscape(engine::describe(plan)) + "\",\"plan\":" + planToJson(p) + "}\n";
	std::fputs(line.c_str(), stdout);
	std::fflush(stdout);
}

inline int workerMain(int argc, char ** argv)
{
	uint64_t base = 1;
	long start = 0, count = 0, stride = 1, maxViol = 3, dumpIndex = -1;
	double timeLimit = 0;
	const char * replayPath = nullptr;
	const char * hashFile = nullptr;
	const char * plansPath = nullptr;
	bool logHashes = false;
	long resched = -1;
	for(int i = 1; i < argc; ++i) {
		const std::string a = argv[i];
		if(a == "--base" && i + 1 < argc) base = std::strtoull(argv[++i], nullptr, 0);
		else if(a == "--start" && i + 1 < argc) start = std::atol(argv[++i]);
		else if(a == "--count" && i + 1 < argc) count = std::atol(argv[++i]);
		else if(a == "--stride" && i + 1 < argc) stride = std::atol(argv[++i]);
		else if(a == "--max-viol" && i + 1 < argc) maxViol = std::atol(argv[++i]);
		else if(a == "--time" && i + 1 < argc) timeLimit = std::atof(argv[++i]);
		else if(a == "--replay" && i + 1 < argc) replayPath = argv[++i];
		else if(a == "--resched" && i + 1 < argc) resched = std::atol(argv[++i]);
		else if(a == "--dump" && i + 1 < argc) dumpIndex = std::atol(argv[++i]);
		else if(a == "--hashfile" && i + 1 < argc) hashFile = argv[++i];
		else if(a == "--plans" && i + 1 < argc) plansPath = argv[++i];
		else if(a == "--loghashes") logHashes = true;
		else if(a == "--mode" && i + 1 < argc) engine::mode = argv[++i];
		else { std::fprintf(stderr, "unknown argument %s\n", a.c_str()); return 2; }
	}

	std::signal(SIGSEGV, crashSignalHandler);
	std::signal(SIGABRT, crashSignalHandler);
	std::signal(SIGBUS, crashSignalHandler);
	std::signal(SIGFPE, crashSignalHandler);
	std::signal(SIGILL, crashSignalHandler);
	std::signal(SIGALRM, alarmHandler);
	std::set_terminate(terminateHandler);
#ifdef SIM_WORKER_ASAN
	__sanitizer_set_death_callback(sanitizerDeath);
#endif

	if(dumpIndex >= 0) {
		// --dump I prints plan I; with --count N it prints plans I .. I+N-1, one per line
		const long n = count > 0 ? count : 1;
		for(long k = 0; k < n; ++k) {
			Plan plan;
			engine::generate(mixSeed(base, (uint64_t)(dumpIndex + k)), plan);
			std::printf("%s\n", planToJson(plan).c_str());
		}
		return 0;
	}

	if(replayPath) {
		std::string text;
		if(!readFile(replayPath, text)) { std::fprintf(stderr, "cannot read %s\n", replayPath); return 2; }
		JVal root; JParser parser(text);
		if(!parser.parse(root)) { std::fprintf(stderr, "bad JSON in %s\n", replayPath); return 2; }
		if(const JVal * m = root.get("mode")) if(m->type == JVal::STR) engine::mode = m->str;
		Plan plan; planFromJson(root, plan);
		if(resched >= 0) { plan.useChoices = false; plan.choices.clear(); plan.setSchedSeed((uint64_t)resched * 0x9e3779b97f4a7c15ULL + 12345); }
		workerState().currentIndex = -2;
		RunOut out;
		alarm(watchdogSeconds());
		engine::execute(plan, out);
		alarm(0);
		if(out.violation) {
			printViolation(-2, 0, plan, out);
			return 1;
		}
		std::printf("OK {\"loghash\":\"%s\",\"steps\":%ld}\n", hex64(out.logHash).c_str(), out.steps);
		return 0;
	}

	// plans given as a file (one JSON plan per line; used by the configuration matrix so that every build executes the SAME plans)
	std::vector<std::string> planLines;
	if(plansPath) {
		std::string text;
		if(!readFile(plansPath, text)) { std::fprintf(stderr, "cannot read %s\n", plansPath); return 2; }
		size_t pos = 0;
		while(pos < text.size()) {
			size_t e = text.find('\n', pos);
			if(e == std::string::npos) e = text.size();
			if(e > pos) planLines.push_back(text.substr(pos, e - pos));
			pos = e + 1;
		}
		count = (long)planLines.size();
		start = 0; stride = 1;
	}

	const double t0 = wallNow();
	long runs = 0, violations = 0, nontrivial = 0, pilots = 0, subRuns = 0;
	uint64_t steps = 0;
	std::unordered_set<uint64_t> distinct;
	std::vector<std::string> samples;
	double maxRunWall = 0;
	for(long n = 0; n < count; ++n) {
		if(timeLimit > 0 && (n & 15) == 0 && wallNow() - t0 > timeLimit) break;
		const long index = start + n * stride;
		const uint64_t seed = mixSeed(base, (uint64_t)index);
		workerState().currentIndex = index;
		alarm(watchdogSeconds()); // watchdog: a real hang (e.g. self-deadlock on std::mutex) becomes a reported seed
		const double runT0 = wallNow();
		Plan plan;
		if(plansPath) {
			JVal root; JParser parser(planLines[(size_t)n]);
			if(!parser.parse(root)) { std::fprintf(stderr, "bad plan line %ld\n", n); return 2; }
			planFromJson(root, plan);
		}
		else engine::generate(seed, plan);
		RunOut out;
		bool reported = false;
		if(engine::wantsPilot(plan)) {
			Plan pilot = plan;
			pilot.cfg[CFG_STRATEGY] = 0;
			engine::execute(pilot, out);
			++pilots; ++runs; steps += (uint64_t)out.steps;
			if(out.violation) { printViolation(index, seed, pilot, out); reported = true; }
			else {
				if(out.nontrivial) { ++nontrivial; distinct.insert(out.caseHash); }
				plan.cfg[CFG_EXPECTED_LEN] = (int)out.steps;
				out = RunOut();
			}
		}
		if(!reported) {
			engine::execute(plan, out);
			++runs; steps += (uint64_t)out.steps; subRuns += out.subRuns;
			if(out.violation) { printViolation(index, seed, plan, out); reported = true; }
			else if(out.nontrivial) { ++nontrivial; distinct.insert(out.caseHash); }
		}
		{ const double dt = wallNow() - runT0; if(dt > maxRunWall) maxRunWall = dt; }
		if(logHashes) std::printf("H %ld %s\n", index, hex64(out.logHash).c_str());
		if(samples.size() < 3 && n % 7 == 3) samples.push_back(engine::describe(plan));
		if(reported) {
			++violations;
			if(violations >= maxViol) break;
		}
	}
	workerState().currentIndex = -1;
	alarm(0);

	if(hashFile) {
		FILE * f = std::fopen(hashFile, "wb");
		if(f) {
			std::vector<uint64_t> v(distinct.begin(), distinct.end());
			if(!v.empty()) std::fwrite(&v[0], sizeof(uint64_t), v.size(), f);
			std::fclose(f);
		}
	}

	std::string s = "S {\"engine\":\"" + std::string(engine::kName) + "\",\"runs\":" + std::to_string(runs)
		+ ",\"pilots\":" + std::to_string(pilots) + ",\"sub_runs\":" + std::to_string(subRuns)
		+ ",\"violations\":" + std::to_string(violations) + ",\"nontrivial\":" + std::to_string(nontrivial)
		+ ",\"distinct\":" + std::to_string((long)distinct.size()) + ",\"steps\":" + std::to_string((unsigned long long)steps)
		+ ",\"wall\":" + std::to_string(wallNow() - t0) + ",\"max_run_wall\":" + std::to_string(maxRunWall) + ",\"samples\":[";
	for(size_t i = 0; i < samples.size(); ++i) { if(i) s += ","; s += "\"" + jsonEscape(samples[i]) + "\""; }
	s += "]";
	engine::statsJson(s);
	s += "}\n";
	std::fputs(s.c_str(), stdout);
	std::fflush(stdout);
	return violations > 0 ? 1 : 0;
}

} // namespace sim

#endif
