// Stand-ins behind eventpp's QueueList and Map policies: std::list / std::map whose operations on
// *members of the object under test* are scheduling points and happens-before-checked accesses.
#ifndef VERIF_CONTAINERS_H
#define VERIF_CONTAINERS_H

#include "sched.h"

#include <list>
#include <map>
#include <unordered_map>

namespace sim {

// Impl: std::list<T>, or a list-like class offering the same members (eventpp::OrderedQueueList)
template <typename T, typename Impl_>
class SimListT
{
public:
	using Impl = Impl_;
	using iterator = typename Impl::iterator;
	using const_iterator = typename Impl::const_iterator;
	using value_type = T;

	SimListT() {}
	SimListT(SimListT && other) { both("ql.movector", other); impl = std::move(other.impl); }
	SimListT & operator = (SimListT && other) { both("ql.moveassign", other); impl = std::move(other.impl); return *this; }
	SimListT(const SimListT &) = delete;
	SimListT & operator = (const SimListT &) = delete;

	bool empty() const
	{
		// deliberately racy pre-check in the library: a scheduling point, not a checked access
		if(S().active() && S().watched(this)) S().point("ql.empty");
		return impl.empty();
	}

	iterator begin() { one("ql.begin", false); return impl.begin(); }
	iterator end() { return impl.end(); }
	const_iterator begin() const { one("ql.begin", false); return impl.begin(); }
	const_iterator end() const { return impl.end(); }

	T & front()
	{
		one("ql.front", false);
		if(impl.empty()) S().fail("container-precondition", "front() on an empty queue list");
		return impl.front();
	}
	const T & front() const
	{
		one("ql.front", false);
		if(impl.empty()) S().fail("container-precondition", "front() on an empty queue list");
		return impl.front();
	}

	template <typename ...A>
	void emplace_back(A && ...a) { one("ql.emplace", true); impl.emplace_back(std::forward<A>(a)...); }

	void splice(const_iterator pos, SimListT & other)
	{
		both("ql.splice", other);
		impl.splice(pos, other.impl);
	}
	void splice(const_iterator pos, SimListT & other, const_iterator it)
	{
		both("ql.splice1", other);
		if(other.impl.empty()) S().fail("container-precondition", "single-element splice from an empty list");
		impl.splice(pos, other.impl, it);
	}

	void swap(SimListT & other) { both("ql.swap", other); impl.swap(other.impl); }

	Impl & raw() { return impl; }
	const Impl & raw() const { return impl; }

private:
	void one(const char * tag, bool write) const
	{
		Sched & s = S();
		if(!s.active() || !s.watched(this)) return;
		s.point(tag);
		s.access(this, write, tag);
	}
	void both(const char * tag, const SimListT & other) const
	{
		Sched & s = S();
		if(!s.active()) return;
		const bool a = s.watched(this), b = s.watched(&other);
		if(!a && !b) return;
		s.point(tag);
		if(a) s.access(this, true, tag);
		if(b) s.access(&other, true, tag);
	}

	Impl impl;
};

template <typename T> using SimList = SimListT<T, std::list<T> >;

template <typename K, typename V, typename Impl_>
class SimMapT
{
public:
	using Impl = Impl_;
	using iterator = typename Impl::iterator;
	using const_iterator = typename Impl::const_iterator;
	using value_type = typename Impl::value_type;
	using key_type = K;
	using mapped_type = V;

	SimMapT() {}
	SimMapT(const SimMapT & o) : impl((o.touch("map.copyfrom", false), o.impl)) {}
	SimMapT(SimMapT && o) : impl((o.touch("map.movefrom", true), std::move(o.impl))) {}
	SimMapT & operator = (const SimMapT & o) { o.touch("map.copyfrom", false); touch("map.assign", true); impl = o.impl; return *this; }
	SimMapT & operator = (SimMapT && o) { o.touch("map.movefrom", true); touch("map.assign", true); impl = std::move(o.impl); return *this; }

	V & operator [] (const K & k) { touch("map.index", true); return impl[k]; }
	iterator find(const K & k) { touch("map.find", false); return impl.find(k); }
	const_iterator find(const K & k) const { touch("map.find", false); return impl.find(k); }
	iterator begin() { touch("map.begin", false); return impl.begin(); }
	const_iterator begin() const { touch("map.begin", false); return impl.begin(); }
	iterator end() { return impl.end(); }
	const_iterator end() const { return impl.end(); }
	bool empty() const { touch("map.empty", false); return impl.empty(); }
	size_t size() const { return impl.size(); }
	void swap(SimMapT & o) { touch("map.swap", true); o.touch("map.swap", true); impl.swap(o.impl); }
	friend void swap(SimMapT & a, SimMapT & b) { a.swap(b); }

	Impl & raw() { return impl; }

private:
	void touch(const char * tag, bool write) const
	{
		Sched & s = S();
		if(!s.active() || !s.watched(this)) return;
		s.point(tag);
		s.access(this, write, tag);
	}
	Impl impl;
};

template <typename K, typename V> using SimOrderedMap = SimMapT<K, V, std::map<K, V> >;
template <typename K, typename V> using SimHashMap = SimMapT<K, V, std::unordered_map<K, V> >;

} // namespace sim

#endif
