// Existence ledger and fault countdown shared by all engines (DESIGN 2.4, 2.5).
// Every harness-defined callback functor, payload, key and condition object registers its construction
// and destruction by address. Nothing here draws from a PRNG or logs an address.
#ifndef VERIF_LEDGER_H
#define VERIF_LEDGER_H

#include <cstdint>
#include <cstdlib>
#include <map>
#include <new>
#include <string>
#include <unordered_map>
#include <utility>

namespace sim {

// ---------------------------------------------------------------- fault countdown
enum FaultKind { F_ALLOC = 0, F_COPY = 1, F_MOVE = 2, F_CALL = 3, F_CMP = 4, F_KINDS = 5 };

struct InjectedFault
{
	int kind;
	explicit InjectedFault(int k) : kind(k) {}
};

struct FaultCtl
{
	int armed;          // >0 while a library call made by the interpreter is on the stack
	int paused;         // >0 while harness code (model, ledger, logging) runs
	bool off;           // harness callback body in progress (re-enabled around its own library calls)
	long countdown;     // >0: fire when it reaches 0
	long passed;        // fault points passed while armed (all kinds)
	long passedKind[F_KINDS];
	long firedKind[F_KINDS];
	int lastFired;      // kind of the last fired fault or -1
	unsigned mask;      // enabled kinds
	FaultCtl() : armed(0), paused(0), off(false), countdown(0), passed(0), lastFired(-1), mask(0x1f)
	{
		for(int i = 0; i < F_KINDS; ++i) { passedKind[i] = 0; firedKind[i] = 0; }
	}
};

inline FaultCtl & faultCtl() { static FaultCtl f; return f; }

// returns true if a fault must be raised here
inline bool faultHit(int kind)
{
	FaultCtl & f = faultCtl();
	if(f.armed <= 0 || f.paused > 0 || f.off || !(f.mask & (1u << kind))) return false;
	++f.passed; ++f.passedKind[kind];
	if(f.countdown > 0 && --f.countdown == 0) { ++f.firedKind[kind]; f.lastFired = kind; return true; }
	return false;
}

inline void faultPoint(int kind)
{
	if(faultHit(kind)) {
		if(kind == F_ALLOC) throw std::bad_alloc();
		throw InjectedFault(kind);
	}
}

// around a library call made by the interpreter (also from inside a callback's script)
struct FaultArm
{
	bool savedOff;
	FaultArm() : savedOff(faultCtl().off) { ++faultCtl().armed; faultCtl().off = false; }
	~FaultArm() { --faultCtl().armed; faultCtl().off = savedOff; }
};

// body of a harness callback / listener / predicate: harness code, not a fault target
struct FaultOff
{
	bool savedOff;
	FaultOff() : savedOff(faultCtl().off) { faultCtl().off = true; }
	~FaultOff() { faultCtl().off = savedOff; }
};

struct FaultPause
{
	FaultPause() { ++faultCtl().paused; }
	~FaultPause() { --faultCtl().paused; }
};

// ---------------------------------------------------------------- ledger
class Ledger
{
public:
	struct Rec { int type; int id; };

	void reset()
	{
		FaultPause fp;
		live.clear(); liveById.clear(); error.clear(); errorClass.clear();
		born_ = 0; died_ = 0;
	}

	void born(const void * addr, int type, int id)
	{
		FaultPause fp;
		++born_;
		std::unordered_map<const void *, Rec>::iterator it = live.find(addr);
		if(it != live.end()) {
			flag("ledger-construct-over-live", type, id);
			--liveById[std::make_pair(it->second.type, it->second.id)];
		}
		Rec r; r.type = type; r.id = id;
		live[addr] = r;
		++liveById[std::make_pair(type, id)];
	}

	void died(const void * addr, int type)
	{
		FaultPause fp;
		++died_;
		std::unordered_map<const void *, Rec>::iterator it = live.find(addr);
		if(it == live.end()) { flag("ledger-double-destroy", type, -1); return; }
		if(it->second.type != type) { flag("ledger-type-confusion", type, it->second.id); }
		--liveById[std::make_pair(it->second.type, it->second.id)];
		live.erase(it);
	}

	// the object at addr is about to be read as an instance of 'type'
	bool use(const void * addr, int type, const char * what)
	{
		FaultPause fp;
		std::unordered_map<const void *, Rec>::iterator it = live.find(addr);
		if(it == live.end()) { flagWhat("ledger-use-of-dead", type, what); return false; }
		if(it->second.type != type) { flagWhat("ledger-type-confusion", type, what); return false; }
		return true;
	}

	int liveCount(int type, int id) const
	{
		std::map<std::pair<int, int>, int>::const_iterator it = liveById.find(std::make_pair(type, id));
		return it == liveById.end() ? 0 : it->second;
	}

	long liveTotal() const { return (long)live.size(); }
	long liveOfType(int type) const
	{
		long n = 0;
		for(std::map<std::pair<int, int>, int>::const_iterator it = liveById.begin(); it != liveById.end(); ++it)
			if(it->first.first == type) n += it->second;
		return n;
	}
	// first id of 'type' that still has live instances, or -1
	int anyLiveId(int type) const
	{
		for(std::map<std::pair<int, int>, int>::const_iterator it = liveById.begin(); it != liveById.end(); ++it)
			if(it->first.first == type && it->second > 0) return it->first.second;
		return -1;
	}

	bool hasError() const { return !errorClass.empty(); }
	std::string errorClass, error;
	uint64_t born_ = 0, died_ = 0;

private:
	void flag(const char * cls, int type, int id)
	{
		if(!errorClass.empty()) return;
		errorClass = cls;
		error = std::string(cls) + " type=" + std::to_string(type) + " id=" + std::to_string(id);
	}
	void flagWhat(const char * cls, int type, const char * what)
	{
		if(!errorClass.empty()) return;
		errorClass = cls;
		error = std::string(cls) + " type=" + std::to_string(type) + " at " + what;
	}

	std::unordered_map<const void *, Rec> live;   // iteration order is never observed
	std::map<std::pair<int, int>, int> liveById;
};

inline Ledger & ledger() { static Ledger l; return l; }

enum { MOVED_FROM = -777 };

// A ledger-tracked value. TYPE distinguishes families (callback functor, payload, key, condition ...).
// NOEXCEPT_MOVE selects whether the move operations are noexcept (the library's own choice between
// copying and moving, and std::function's storage strategy, depend on it).
template <int TYPE, bool NOEXCEPT_MOVE = false>
struct Tracked
{
	int id;
	int val;

	explicit Tracked(int id_, int val_ = 0) : id(id_), val(val_) { ledger().born(this, TYPE, id); }

	Tracked(const Tracked & o)
	{
		faultPoint(F_COPY);
		ledger().use(&o, TYPE, "copy-construct source");
		id = o.id; val = o.val;
		ledger().born(this, TYPE, id);
	}

	Tracked(Tracked && o) noexcept(NOEXCEPT_MOVE)
	{
		if(!NOEXCEPT_MOVE) faultPoint(F_MOVE);
		ledger().use(&o, TYPE, "move-construct source");
		id = o.id; val = o.val; o.val = MOVED_FROM;
		ledger().born(this, TYPE, id);
	}

	Tracked & operator = (const Tracked & o)
	{
		faultPoint(F_COPY);
		ledger().use(&o, TYPE, "copy-assign source");
		ledger().use(this, TYPE, "copy-assign target");
		if(this != &o) { rebind(o.id); val = o.val; }
		return *this;
	}

	Tracked & operator = (Tracked && o) noexcept(NOEXCEPT_MOVE)
	{
		if(!NOEXCEPT_MOVE) faultPoint(F_MOVE);
		ledger().use(&o, TYPE, "move-assign source");
		ledger().use(this, TYPE, "move-assign target");
		if(this != &o) { rebind(o.id); val = o.val; o.val = MOVED_FROM; }
		return *this;
	}

	~Tracked() { ledger().died(this, TYPE); }

	bool alive(const char * what) const { return ledger().use(this, TYPE, what); }

private:
	void rebind(int newId)
	{
		if(newId == id) return;
		ledger().died(this, TYPE);
		id = newId;
		ledger().born(this, TYPE, id);
	}
};

} // namespace sim

#endif // VERIF_LEDGER_H

// Replacement of the global allocation functions: a counting / failing wrapper over malloc.
// Defined in exactly one translation unit of a binary that wants allocation faults.
#if defined(VERIF_REPLACE_NEW) && !defined(VERIF_REPLACE_NEW_DONE)
#define VERIF_REPLACE_NEW_DONE
void * operator new(std::size_t n)
{
	sim::faultPoint(sim::F_ALLOC);
	void * p = std::malloc(n ? n : 1);
	if(!p) throw std::bad_alloc();
	return p;
}
void * operator new[](std::size_t n)
{
	sim::faultPoint(sim::F_ALLOC);
	void * p = std::malloc(n ? n : 1);
	if(!p) throw std::bad_alloc();
	return p;
}
void * operator new(std::size_t n, const std::nothrow_t &) noexcept
{
	if(sim::faultHit(sim::F_ALLOC)) return nullptr;
	return std::malloc(n ? n : 1);
}
void * operator new[](std::size_t n, const std::nothrow_t &) noexcept
{
	if(sim::faultHit(sim::F_ALLOC)) return nullptr;
	return std::malloc(n ? n : 1);
}
void operator delete(void * p) noexcept { std::free(p); }
void operator delete[](void * p) noexcept { std::free(p); }
void operator delete(void * p, std::size_t) noexcept { std::free(p); }
void operator delete[](void * p, std::size_t) noexcept { std::free(p); }
void operator delete(void * p, const std::nothrow_t &) noexcept { std::free(p); }
void operator delete[](void * p, const std::nothrow_t &) noexcept { std::free(p); }
#endif
