// Stand-ins for std::mutex / std::atomic / std::condition_variable behind eventpp's Threading policy,
// plus the SpinLock hook. Every operation is a scheduling point of the controlled scheduler.
#ifndef VERIF_SYNC_H
#define VERIF_SYNC_H

#include "sched.h"

#include <atomic>
#include <chrono>
#include <mutex>

namespace sim {

struct Probes
{
	// "rare condition was hit" counters, accumulated per worker
	uint64_t cvPreBlockPreempted = 0;   // a task lost the CPU between predicate==false and blocking
	uint64_t notifyNoWaiter = 0;
	uint64_t notifyChoseAmongSeveral = 0;
	uint64_t mutexContended = 0;
	uint64_t spinContended = 0;
	uint64_t timedOut = 0;
	uint64_t lateTimer = 0;
};

inline Probes & probes() { static Probes p; return p; }

class SimMutex
{
public:
	SimMutex() : owner(-1) {}
	SimMutex(const SimMutex &) = delete;
	SimMutex & operator = (const SimMutex &) = delete;

	void lock()
	{
		Sched & s = S();
		if(!s.active()) { owner = -2; return; }
		s.point("mx.lock");
		while(owner != -1) {
			if(owner == s.current()) {
				s.fail("self-deadlock", "task re-locked a mutex it already holds");
			}
			if(owner == -2) {
				s.fail("harness-error", "mutex held by main context");
			}
			++probes().mutexContended;
			s.block(T_MUTEX, this, "mx.block");
		}
		owner = s.current();
		s.hbAcquire(this);
	}

	bool try_lock()
	{
		Sched & s = S();
		if(!s.active()) { if(owner != -1) return false; owner = -2; return true; }
		s.point("mx.trylock");
		if(owner != -1) return false;
		owner = s.current();
		s.hbAcquire(this);
		return true;
	}

	void unlock()
	{
		Sched & s = S();
		if(!s.active()) { owner = -1; return; }
		s.hbRelease(this);
		owner = -1;
		s.wakeMutexWaiters(this);
		s.point("mx.unlock");
	}

	int heldBy() const { return owner; }

private:
	int owner; // -1 free, -2 main context, >=0 task id
};

template <typename T>
class SimAtomic
{
public:
	// trivial, like std::atomic before C++20: the value is indeterminate until stored
	SimAtomic() noexcept = default;
	constexpr SimAtomic(T desired) noexcept : value(desired) {}
	SimAtomic(const SimAtomic &) = delete;
	SimAtomic & operator = (const SimAtomic &) = delete;

	void store(T desired, std::memory_order = std::memory_order_seq_cst) noexcept
	{
		pre("at.store"); value = desired;
	}
	T load(std::memory_order = std::memory_order_seq_cst) const noexcept
	{
		pre("at.load"); return value;
	}
	T exchange(T desired, std::memory_order = std::memory_order_seq_cst) noexcept
	{
		pre("at.xchg"); const T old = value; value = desired; return old;
	}
	T operator ++ () noexcept { pre("at.inc"); return ++value; }
	T operator -- () noexcept { pre("at.dec"); return --value; }
	T operator ++ (int) noexcept { pre("at.inc"); return value++; }
	T operator -- (int) noexcept { pre("at.dec"); return value--; }
	T operator = (T desired) noexcept { store(desired); return desired; }
	operator T () const noexcept { return load(); }
	T fetch_add(T d, std::memory_order = std::memory_order_seq_cst) noexcept { pre("at.add"); const T old = value; value = (T)(value + d); return old; }
	T fetch_sub(T d, std::memory_order = std::memory_order_seq_cst) noexcept { pre("at.sub"); const T old = value; value = (T)(value - d); return old; }

	T rawValue() const { return value; }

private:
	void pre(const char * tag) const
	{
		Sched & s = S();
		if(!s.active()) return;
		s.point(tag);
		s.hbAcqRel(this);
	}

	T value;
};

class SimCondVar
{
public:
	SimCondVar() {}
	SimCondVar(const SimCondVar &) = delete;
	SimCondVar & operator = (const SimCondVar &) = delete;

	void notify_one() noexcept
	{
		Sched & s = S();
		if(s.active()) s.point("cv.notify");
		if(waiters.empty()) { ++probes().notifyNoWaiter; ++s.runLostNotify; return; }
		if(waiters.size() > 1) ++probes().notifyChoseAmongSeveral;
		const int w = s.chooseAmong(waiters);
		waiters.erase(std::find(waiters.begin(), waiters.end(), w));
		s.wake(w, true);
	}

	void notify_all() noexcept
	{
		Sched & s = S();
		if(s.active()) s.point("cv.notifyall");
		for(size_t i = 0; i < waiters.size(); ++i) s.wake(waiters[i], true);
		waiters.clear();
	}

	template <class Lock, class Predicate>
	void wait(Lock & lock, Predicate pred)
	{
		Sched & s = S();
		if(!s.active()) {
			if(!pred()) s.fail("harness-error", "blocking wait called from the main context");
			return;
		}
		while(!pred()) {
			preBlock();
			doWait(lock, -1);
		}
	}

	template <class Lock, class Rep, class Period, class Predicate>
	bool wait_for(Lock & lock, const std::chrono::duration<Rep, Period> & d, Predicate pred)
	{
		Sched & s = S();
		if(!s.active()) return pred();
		int64_t ns = (int64_t)std::chrono::duration_cast<std::chrono::nanoseconds>(d).count();
		if(ns < 0) ns = 0;
		const int64_t deadline = s.now + ns;
		while(!pred()) {
			preBlock();
			if(doWait(lock, deadline)) return pred();
		}
		return true;
	}

	size_t waiterCount() const { return waiters.size(); }

private:
	// The window between "predicate returned false" and "blocked": the mutex is still held, so a
	// correctly locked notifier cannot get in; an unlocked one can (lost wake-up).
	void preBlock()
	{
		Sched & s = S();
		const int before = s.runSwitches;
		s.point("cv.preblock");
		if(s.runSwitches != before) ++probes().cvPreBlockPreempted;
	}

	// returns true on timeout
	template <class Lock>
	bool doWait(Lock & lock, int64_t deadline)
	{
		Sched & s = S();
		const int me = s.current();
		Task & t = s.task(me);
		t.notified = false; t.timedOut = false; t.hasTimer = deadline >= 0; t.deadline = deadline;
		waiters.push_back(me);      // registered before the mutex is released: atomic unlock-and-wait
		lock.unlock();
		if(!t.notified) {
			s.block(T_CV, this, "cv.block");
		}
		// woken: by notify (already removed from waiters), by timer or spuriously (still registered)
		std::vector<int>::iterator it = std::find(waiters.begin(), waiters.end(), me);
		if(it != waiters.end()) waiters.erase(it);
		const bool timedOut = t.timedOut && !t.notified;
		if(timedOut) {
			++probes().timedOut;
			if(s.now > deadline) { ++probes().lateTimer; ++s.runLateTimer; }
		}
		t.hasTimer = false; t.timedOut = false;
		lock.lock();
		return timedOut;
	}

	std::vector<int> waiters;
};

// Hook installed into eventpp::SpinLock (guarded by EVENTPP_VERIF): makes the real spin lock schedulable.
inline void spinLockHook(const void * lock, int phase)
{
	Sched & s = S();
	if(!s.active()) return;
	switch(phase) {
	case 0: s.point("spin.lock"); break;
	case 1: ++probes().spinContended; s.spinWait("spin.wait"); break;
	case 2: s.hbAcquire(lock); break;
	case 3: s.hbRelease(lock); break;
	case 4: s.point("spin.unlock"); break;
	}
}

// Threading policies handed to eventpp
struct SimThreading
{
	using Mutex = SimMutex;
	template <typename T> using Atomic = SimAtomic<T>;
	using ConditionVariable = SimCondVar;

	static void verifPoint(const char * tag) { S().point(tag); }
	static void verifAccess(const void * obj, bool write, const char * what) { S().access(obj, write, what); }
	static void verifForget(const void * obj) { S().forget(obj); }   // a freshly allocated object: whatever lived at this address before is gone
};

} // namespace sim

#endif
