// Explicit plans (operations per task, scripts, schedule choices, faults) and their JSON form.
// A replay file is a plan; replay executes the file, not the seed (DESIGN 2.8).
#ifndef VERIF_PLAN_H
#define VERIF_PLAN_H

#include <cstdint>
#include <cstdio>
#include <cstdlib>
#include <map>
#include <string>
#include <vector>

namespace sim {

struct Op
{
	int k, a, b, c, d;
	Op() : k(0), a(0), b(0), c(0), d(0) {}
	Op(int k, int a = 0, int b = 0, int c = 0, int d = 0) : k(k), a(a), b(b), c(c), d(d) {}
};

typedef std::vector<Op> OpList;

// cfg layout shared by all engines
enum {
	CFG_STRATEGY = 0, CFG_DEPTH = 1, CFG_QUANTUM = 2, CFG_SPURIOUS = 3, CFG_SSEED_LO = 4, CFG_SSEED_HI = 5,
	CFG_EXPECTED_LEN = 6, CFG_VARIANT = 7, CFG_USER = 8, CFG_SIZE = 24
};

struct Plan
{
	std::vector<int> cfg;
	std::vector<OpList> tasks;
	std::vector<OpList> scripts;
	std::vector<int> choices;   // recorded schedule (empty: derive from the schedule seed in cfg)
	std::vector<int> faults;    // engine-defined flat list
	bool useChoices;

	Plan() : cfg(CFG_SIZE, 0), useChoices(false) {}

	uint64_t schedSeed() const { return ((uint64_t)(uint32_t)cfg[CFG_SSEED_HI] << 31) ^ (uint64_t)(uint32_t)cfg[CFG_SSEED_LO]; }
	void setSchedSeed(uint64_t s) { cfg[CFG_SSEED_LO] = (int)(s & 0x7fffffff); cfg[CFG_SSEED_HI] = (int)((s >> 31) & 0x7fffffff); }
	int & user(int i) { return cfg[CFG_USER + i]; }
	int user(int i) const { return cfg[CFG_USER + i]; }
};

// ---------------------------------------------------------------- minimal JSON
struct JVal
{
	enum Type { NUL, NUM, STR, ARR, OBJ, BOOL } type;
	double num; bool b;
	std::string str;
	std::vector<JVal> arr;
	std::map<std::string, JVal> obj;
	JVal() : type(NUL), num(0), b(false) {}
	const JVal * get(const std::string & k) const
	{
		std::map<std::string, JVal>::const_iterator it = obj.find(k);
		return it == obj.end() ? nullptr : &it->second;
	}
};

class JParser
{
public:
	explicit JParser(const std::string & s) : s(s), p(0), ok(true) {}
	bool parse(JVal & out) { ws(); value(out); ws(); return ok; }
private:
	void ws() { while(p < s.size() && (s[p] == ' ' || s[p] == '\n' || s[p] == '\t' || s[p] == '\r')) ++p; }
	void value(JVal & v)
	{
		ws();
		if(p >= s.size()) { ok = false; return; }
		const char c = s[p];
		if(c == '{') {
			v.type = JVal::OBJ; ++p; ws();
			if(p < s.size() && s[p] == '}') { ++p; return; }
			while(ok) {
				JVal k; value(k); if(k.type != JVal::STR) { ok = false; return; }
				ws(); if(p >= s.size() || s[p] != ':') { ok = false; return; } ++p;
				value(v.obj[k.str]); ws();
				if(p < s.size() && s[p] == ',') { ++p; continue; }
				if(p < s.size() && s[p] == '}') { ++p; return; }
				ok = false;
			}
		}
		else if(c == '[') {
			v.type = JVal::ARR; ++p; ws();
			if(p < s.size() && s[p] == ']') { ++p; return; }
			while(ok) {
				v.arr.push_back(JVal()); value(v.arr.back()); ws();
				if(p < s.size() && s[p] == ',') { ++p; continue; }
				if(p < s.size() && s[p] == ']') { ++p; return; }
				ok = false;
			}
		}
		else if(c == '"') {
			v.type = JVal::STR; ++p;
			while(p < s.size() && s[p] != '"') {
				if(s[p] == '\\' && p + 1 < s.size()) { ++p; char e = s[p]; v.str += (e == 'n' ? '\n' : e == 't' ? '\t' : e); }
				else v.str += s[p];
				++p;
			}
			if(p >= s.size()) { ok = false; return; }
			++p;
		}
		else if(c == 't' && s.compare(p, 4, "true") == 0) { v.type = JVal::BOOL; v.b = true; p += 4; }
		else if(c == 'f' && s.compare(p, 5, "false") == 0) { v.type = JVal::BOOL; v.b = false; p += 5; }
		else if(c == 'n' && s.compare(p, 4, "null") == 0) { v.type = JVal::NUL; p += 4; }
		else {
			char * end = nullptr;
			v.num = std::strtod(s.c_str() + p, &end);
			if(end == s.c_str() + p) { ok = false; return; }
			v.type = JVal::NUM; p = (size_t)(end - s.c_str());
		}
	}
	const std::string & s; size_t p; bool ok;
};

inline std::string jsonEscape(const std::string & in)
{
	std::string o;
	for(size_t i = 0; i < in.size(); ++i) {
		const char c = in[i];
		if(c == '"' || c == '\\') { o += '\\'; o += c; }
		else if(c == '\n') o += "\\n";
		else if((unsigned char)c < 0x20) o += ' ';
		else o += c;
	}
	return o;
}

inline void appendInts(std::string & o, const std::vector<int> & v)
{
	o += '[';
	char buf[16];
	for(size_t i = 0; i < v.size(); ++i) { if(i) o += ','; std::snprintf(buf, sizeof(buf), "%d", v[i]); o += buf; }
	o += ']';
}

inline void appendOps(std::string & o, const std::vector<OpList> & lists)
{
	o += '[';
	char buf[80];
	for(size_t t = 0; t < lists.size(); ++t) {
		if(t) o += ',';
		o += '[';
		for(size_t i = 0; i < lists[t].size(); ++i) {
			const Op & op = lists[t][i];
			std::snprintf(buf, sizeof(buf), "%s[%d,%d,%d,%d,%d]", i ? "," : "", op.k, op.a, op.b, op.c, op.d);
			o += buf;
		}
		o += ']';
	}
	o += ']';
}

inline std::string planToJson(const Plan & p)
{
	std::string o = "{\"cfg\":";
	appendInts(o, p.cfg);
	o += ",\"tasks\":"; appendOps(o, p.tasks);
	o += ",\"scripts\":"; appendOps(o, p.scripts);
	o += ",\"faults\":"; appendInts(o, p.faults);
	if(p.useChoices) { o += ",\"choices\":"; appendInts(o, p.choices); }
	o += "}";
	return o;
}

inline void intsFrom(const JVal * v, std::vector<int> & out)
{
	out.clear();
	if(!v || v->type != JVal::ARR) return;
	for(size_t i = 0; i < v->arr.size(); ++i) out.push_back((int)v->arr[i].num);
}

inline void opsFrom(const JVal * v, std::vector<OpList> & out)
{
	out.clear();
	if(!v || v->type != JVal::ARR) return;
	for(size_t t = 0; t < v->arr.size(); ++t) {
		out.push_back(OpList());
		const JVal & l = v->arr[t];
		for(size_t i = 0; i < l.arr.size(); ++i) {
			const JVal & o = l.arr[i];
			Op op;
			if(o.arr.size() > 0) op.k = (int)o.arr[0].num;
			if(o.arr.size() > 1) op.a = (int)o.arr[1].num;
			if(o.arr.size() > 2) op.b = (int)o.arr[2].num;
			if(o.arr.size() > 3) op.c = (int)o.arr[3].num;
			if(o.arr.size() > 4) op.d = (int)o.arr[4].num;
			out.back().push_back(op);
		}
	}
}

inline bool planFromJson(const JVal & root, Plan & p)
{
	const JVal * src = root.get("plan") ? root.get("plan") : &root;
	intsFrom(src->get("cfg"), p.cfg);
	if(p.cfg.size() < (size_t)CFG_SIZE) p.cfg.resize(CFG_SIZE, 0);
	opsFrom(src->get("tasks"), p.tasks);
	opsFrom(src->get("scripts"), p.scripts);
	intsFrom(src->get("faults"), p.faults);
	p.useChoices = src->get("choices") != nullptr;
	intsFrom(src->get("choices"), p.choices);
	return true;
}

inline bool readFile(const char * path, std::string & out)
{
	FILE * f = std::fopen(path, "rb");
	if(!f) return false;
	char buf[65536]; size_t n;
	while((n = std::fread(buf, 1, sizeof(buf), f)) > 0) out.append(buf, n);
	std::fclose(f);
	return true;
}

} // namespace sim

#endif
