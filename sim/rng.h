// Deterministic PRNG: one integer decides everything (DESIGN 2.1).
#ifndef VERIF_RNG_H
#define VERIF_RNG_H
#include <cstdint>
#include <cstddef>

namespace sim {

inline uint64_t splitmix64(uint64_t & x)
{
	uint64_t z = (x += 0x9e3779b97f4a7c15ULL);
	z = (z ^ (z >> 30)) * 0xbf58476d1ce4e5b9ULL;
	z = (z ^ (z >> 27)) * 0x94d049bb133111ebULL;
	return z ^ (z >> 31);
}

inline uint64_t mixSeed(uint64_t base, uint64_t index)
{
	uint64_t x = base * 0x9e3779b97f4a7c15ULL + index * 0xd1b54a32d192ed03ULL + 0x632be59bd9b4e019ULL;
	splitmix64(x);
	return splitmix64(x);
}

struct Rng
{
	uint64_t s[4];

	explicit Rng(uint64_t seed = 1) { reseed(seed); }

	void reseed(uint64_t seed)
	{
		uint64_t x = seed;
		for(int i = 0; i < 4; ++i) s[i] = splitmix64(x);
	}

	static uint64_t rotl(uint64_t x, int k) { return (x << k) | (x >> (64 - k)); }

	uint64_t next()
	{
		const uint64_t result = rotl(s[1] * 5, 7) * 9;
		const uint64_t t = s[1] << 17;
		s[2] ^= s[0]; s[3] ^= s[1]; s[1] ^= s[2]; s[0] ^= s[3];
		s[2] ^= t;
		s[3] = rotl(s[3], 45);
		return result;
	}

	// uniform in [0, n), n > 0
	uint32_t below(uint32_t n)
	{
		return (uint32_t)(((next() >> 32) * (uint64_t)n) >> 32);
	}

	int range(int lo, int hi) // inclusive
	{
		return lo + (int)below((uint32_t)(hi - lo + 1));
	}

	bool chance(uint32_t num, uint32_t den)
	{
		return below(den) < num;
	}
};

inline uint64_t fnv1a(uint64_t h, const void * data, size_t n)
{
	const unsigned char * p = (const unsigned char *)data;
	for(size_t i = 0; i < n; ++i) { h ^= p[i]; h *= 0x100000001b3ULL; }
	return h;
}

inline uint64_t hashMix(uint64_t h, uint64_t v)
{
	return fnv1a(h, &v, sizeof(v));
}

inline uint64_t hashStr(uint64_t h, const char * s)
{
	while(*s) { h ^= (unsigned char)*s++; h *= 0x100000001b3ULL; }
	return h;
}

const uint64_t kHashInit = 0xcbf29ce484222325ULL;

} // namespace sim

#endif
