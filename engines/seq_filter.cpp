// SEQ / FLT engine for C12: MixinFilter / MixinHeterFilter, canContinueInvoking, conditionalFunctor, argumentAdapter.
// Variants: 0 EventDispatcher+MixinFilter, 1 EventDispatcher with MixinList<MixA, MixinFilter, MixB>, 2 EventQueue+MixinFilter (queued and
//           direct), 3 HeterEventDispatcher+MixinHeterFilter, 4 canContinueInvoking (CallbackList and EventDispatcher), 5 wrapped listeners
// Modes: c12, c09
#ifdef SEQ_MAIN
#define VERIF_REPLACE_NEW
#endif
#include "seq_common.h"

#include <eventpp/hetereventdispatcher.h>
#include <eventpp/mixins/mixinfilter.h>
#include <eventpp/mixins/mixinheterfilter.h>
#include <eventpp/utilities/conditionalfunctor.h>
#include <eventpp/utilities/argumentadapter.h>

#include <memory>

using namespace sim;

namespace sf {

enum { MAXSLOT = 40, NKEY = 2 };
enum OpKind { O_ADD_FILTER = 1, O_REMOVE_FILTER = 2, O_ADD_LISTENER = 3, O_REMOVE_LISTENER = 4, O_DISPATCH = 5, O_QDISPATCH = 6, O_SET_MIX = 7, O_COPY = 8, O_COPY_ASSIGN = 9, O_KINDS = 10 };
// Op fields: d = key.
//   addFilter: a = id (= slot), b = verdict pattern (bit i = verdict of its i-th call), c = delta | (script << 8): script 0 none, 1 removes itself, 2 + s: removes filter slot s
//   addListener: a = id (= slot), b = how (0 append, 1 prepend), c = flavour (variant 4: 1 = sets the stop flag; variant 5: 0 plain, 1 conditional, 2 adapted, 3 shared_ptr adapted)
//   dispatch: a = argument value, b = payload value, c = value category (0 lvalues, 1 temporaries)
//   setMix: a = which harness mixin (0 before, 1 after the filter mixin), b = its verdict
//   copy / copyAssign: continue with a copy (copy-constructed / copy-assigned into a fresh object) of the dispatcher; the original is destroyed
enum { U_VARIANT = 0 };
enum { V_COUNT = 6 };

typedef Tracked<seq::T_PAY, false> Payload;

struct Ctl
{
	bool stop;
	int seen;
	Ctl() : stop(false), seen(0) {}
};

struct BaseEv { int v; explicit BaseEv(int v_) : v(v_) {} virtual ~BaseEv() {} };
struct DerivedEv : BaseEv { int extra; explicit DerivedEv(int v_) : BaseEv(v_), extra(v_ * 2 + 1) {} };

struct Sink
{
	virtual bool filter(int id, int & a, int & pval) = 0;
	virtual void listener(int id, long a, long pval) = 0;
	virtual bool mix(int which, int a, int pval) = 0;
	virtual bool condition(int id, int a, int pval) = 0;
	virtual ~Sink() {}
};
extern Sink * g_sink;

struct Counters
{
	uint64_t plans, ops, dispatches, queuedDispatches, filterCalls, filterBlocked, filterModified, filtersRemovedFromFilter, listenerCalls, mixCalls, mixBlocked,
		stoppedByPolicy, conditionTrue, conditionFalse, adaptedCalls, sharedAdaptedCalls, copies, faultRuns, faultsInjected, faultsByKind[F_KINDS], opsFailedByFault;
	uint64_t perVariant[V_COUNT + 3];
};
extern Counters counters;

} // namespace sf

#if defined(SEQ_VARIANT)
namespace sf {

struct FilterFn : Tracked<seq::T_FN, false>
{
	explicit FilterFn(int id) : Tracked<seq::T_FN, false>(id) {}
	bool operator() (int & a, Payload & p) const
	{
		faultPoint(F_CALL);
		FaultOff off;
		this->alive("filter invoked"); p.alive("filter argument");
		return g_sink->filter(this->id, a, p.val);
	}
};
struct ListenerFn : Tracked<seq::T_FN, false>
{
	explicit ListenerFn(int id) : Tracked<seq::T_FN, false>(id) {}
	void operator() (int a, const Payload & p) const
	{
		faultPoint(F_CALL);
		FaultOff off;
		this->alive("listener invoked"); p.alive("listener argument");
		g_sink->listener(this->id, a, p.val);
	}
};

// harness mixins placed before / after the filter mixin: they record their position and may block
template <typename Base>
struct MixA : Base
{
	template <typename ...A> bool mixinBeforeDispatch(int & a, Payload & p, A && ...) const { return g_sink->mix(0, a, p.val); }
	bool mixinBeforeDispatch(int & a, Payload & p) const { return g_sink->mix(0, a, p.val); }
};
template <typename Base>
struct MixB : Base
{
	bool mixinBeforeDispatch(int & a, Payload & p) const { return g_sink->mix(1, a, p.val); }
};

struct Pol0 { typedef eventpp::MixinList<eventpp::MixinFilter> Mixins; };
struct Pol1 { typedef eventpp::MixinList<MixA, eventpp::MixinFilter, MixB> Mixins; };
struct Pol3 { typedef eventpp::MixinList<eventpp::MixinHeterFilter> Mixins; };

// a mixin WITHOUT mixinBeforeDispatch (the documentation calls the interceptor optional), listed before MixinFilter
template <typename Base>
struct PlainMix : Base
{
};
struct PolPlain { typedef eventpp::MixinList<PlainMix, eventpp::MixinFilter> Mixins; };

// ---------------------------------------------------------------- filter configurations
struct CfgDisp
{
	typedef eventpp::EventDispatcher<int, void (int, Payload), Pol0> D;
	typedef D::Handle Handle; typedef D::FilterHandle FHandle;
	enum { queue = 0, mixes = 0, conv = 0, keyarg = 0 };
	static FHandle addFilter(D & d, const FilterFn & f) { return d.appendFilter(f); }
	static bool removeFilter(D & d, const FHandle & h) { return d.removeFilter(h); }
	static Handle addListener(D & d, int k, int how, const ListenerFn & f) { return how ? d.prependListener(k, f) : d.appendListener(k, f); }
	static bool removeListener(D & d, int k, const Handle & h) { return d.removeListener(k, h); }
	static void dispatch(D & d, int k, int a, int pv, bool temps, bool) { if(temps) d.dispatch(k, a + 0, Payload(4000, pv)); else { Payload p(4000, pv); d.dispatch(k, a, p); } }
};
struct CfgDispMix
{
	typedef eventpp::EventDispatcher<int, void (int, Payload), Pol1> D;
	typedef D::Handle Handle; typedef D::FilterHandle FHandle;
	enum { queue = 0, mixes = 1, conv = 0, keyarg = 0 };
	static FHandle addFilter(D & d, const FilterFn & f) { return d.appendFilter(f); }
	static bool removeFilter(D & d, const FHandle & h) { return d.removeFilter(h); }
	static Handle addListener(D & d, int k, int how, const ListenerFn & f) { return how ? d.prependListener(k, f) : d.appendListener(k, f); }
	static bool removeListener(D & d, int k, const Handle & h) { return d.removeListener(k, h); }
	static void dispatch(D & d, int k, int a, int pv, bool temps, bool) { if(temps) d.dispatch(k, a + 0, Payload(4000, pv)); else { Payload p(4000, pv); d.dispatch(k, a, p); } }
};
// A second recorded, unrepaired defect (known_findings.txt): with MixinList<PlainMix, MixinFilter> the filters run TWICE per dispatch - the
// interceptor is looked up in the cumulative class of every mixin level, and PlainMix<MixinFilter<Root>> inherits MixinFilter's.
struct CfgDispPlain
{
	typedef eventpp::EventDispatcher<int, void (int, Payload), PolPlain> D;
	typedef D::Handle Handle; typedef D::FilterHandle FHandle;
	enum { queue = 0, mixes = 0, conv = 2, keyarg = 0 };
	static FHandle addFilter(D & d, const FilterFn & f) { return d.appendFilter(f); }
	static bool removeFilter(D & d, const FHandle & h) { return d.removeFilter(h); }
	static Handle addListener(D & d, int k, int how, const ListenerFn & f) { return how ? d.prependListener(k, f) : d.appendListener(k, f); }
	static bool removeListener(D & d, int k, const Handle & h) { return d.removeListener(k, h); }
	static void dispatch(D & d, int k, int a, int pv, bool temps, bool) { if(temps) d.dispatch(k, a + 0, Payload(4000, pv)); else { Payload p(4000, pv); d.dispatch(k, a, p); } }
};
// The event is the first prototype argument itself and the getEvent policy hands out a REFERENCE to it; the filters are entitled to
// modify that argument. The listeners that run are those of the event the caller dispatched - "the event that the getEvent policy
// yields from the call's own arguments" -, and they see the modified argument.
struct PolKeyRef
{
	typedef eventpp::MixinList<eventpp::MixinFilter> Mixins;
	static const int & getEvent(const int & a, const Payload &) { return a; }
};
struct CfgDispKeyRef
{
	typedef eventpp::EventDispatcher<int, void (int, Payload), PolKeyRef> D;
	typedef D::Handle Handle; typedef D::FilterHandle FHandle;
	enum { queue = 0, mixes = 0, conv = 0, keyarg = 1 };
	static FHandle addFilter(D & d, const FilterFn & f) { return d.appendFilter(f); }
	static bool removeFilter(D & d, const FHandle & h) { return d.removeFilter(h); }
	static Handle addListener(D & d, int k, int how, const ListenerFn & f) { return how ? d.prependListener(k, f) : d.appendListener(k, f); }
	static bool removeListener(D & d, int k, const Handle & h) { return d.removeListener(k, h); }
	// a == k here (see the interpreter): the event-included form, the first argument is the event
	static void dispatch(D & d, int, int a, int pv, bool temps, bool) { if(temps) d.dispatch(a + 0, Payload(4000, pv)); else { Payload p(4000, pv); d.dispatch(a, p); } }
};
struct CfgQueue
{
	typedef eventpp::EventQueue<int, void (int, Payload), Pol0> D;
	typedef D::Handle Handle; typedef D::FilterHandle FHandle;
	enum { queue = 1, mixes = 0, conv = 0, keyarg = 0 };
	static FHandle addFilter(D & d, const FilterFn & f) { return d.appendFilter(f); }
	static bool removeFilter(D & d, const FHandle & h) { return d.removeFilter(h); }
	static Handle addListener(D & d, int k, int how, const ListenerFn & f) { return how ? d.prependListener(k, f) : d.appendListener(k, f); }
	static bool removeListener(D & d, int k, const Handle & h) { return d.removeListener(k, h); }
	static void dispatch(D & d, int k, int a, int pv, bool temps, bool queued)
	{
		if(queued) { if(temps) d.enqueue(k, a + 0, Payload(4000, pv)); else { Payload p(4000, pv); d.enqueue(k, a, p); } d.process(); }
		else if(temps) d.dispatch(k, a + 0, Payload(4000, pv));
		else { Payload p(4000, pv); d.dispatch(k, a, p); }
	}
};
struct CfgHeter
{
	typedef eventpp::HeterEventDispatcher<int, eventpp::HeterTuple<void (int, Payload), void ()>, Pol3> D;
	typedef D::Handle Handle; typedef D::FilterHandle FHandle;
	enum { queue = 0, mixes = 0, conv = 0, keyarg = 0 };
	static FHandle addFilter(D & d, const FilterFn & f) { return d.appendFilter(f); }
	static bool removeFilter(D & d, const FHandle & h) { return d.removeFilter(h); }
	static Handle addListener(D & d, int k, int how, const ListenerFn & f) { return how ? d.prependListener(k, f) : d.appendListener(k, f); }
	static bool removeListener(D & d, int k, const Handle & h) { return d.removeListener(k, h); }
	// temporaries only: with lvalues a heterogeneous dispatcher forwards references, so the caller's own objects would be what the filters modify
	static void dispatch(D & d, int k, int a, int pv, bool, bool) { d.dispatch(k, a + 0, Payload(4000, pv)); }
};

// A recorded, unrepaired defect (known_findings.txt): with prototypes <void(long, Payload), void(int, Payload)> and an int argument the
// listeners of the FIRST prototype run (int converts to long), but MixinHeterFilter runs the filters of the SECOND prototype (it looks
// for the filter prototype whose reference parameters bind to the argument lvalues). Filters with even ids take long &, those with odd
// ids int &; the dispatch must run the even ones - the filters of the prototype whose listeners run - and only those.
struct FilterLongFn : Tracked<seq::T_FN, false>
{
	explicit FilterLongFn(int id) : Tracked<seq::T_FN, false>(id) {}
	bool operator() (long & a, Payload & p) const
	{
		faultPoint(F_CALL);
		FaultOff off;
		this->alive("filter invoked"); p.alive("filter argument");
		int ai = (int)a;
		const bool r = g_sink->filter(this->id, ai, p.val);
		a = ai;
		return r;
	}
};
struct CfgHeterConv
{
	typedef eventpp::HeterEventDispatcher<int, eventpp::HeterTuple<void (long, Payload), void (int, Payload)>, Pol3> D;
	typedef D::Handle Handle; typedef D::FilterHandle FHandle;
	enum { queue = 0, mixes = 0, conv = 1, keyarg = 0 };
	static FHandle addFilter(D & d, const FilterFn & f) { if(f.id % 2 == 0) return d.appendFilter(FilterLongFn(f.id)); return d.appendFilter(f); }
	static bool removeFilter(D & d, const FHandle & h) { return d.removeFilter(h); }
	static Handle addListener(D & d, int k, int how, const ListenerFn & f) { return how ? d.prependListener(k, f) : d.appendListener(k, f); }
	static bool removeListener(D & d, int k, const Handle & h) { return d.removeListener(k, h); }
	static void dispatch(D & d, int k, int a, int pv, bool, bool) { d.dispatch(k, a + 0, Payload(4000, pv)); }
};

struct MFilter { int id, pattern, delta, script, calls; };

template <typename C>
struct FilterInterp : Sink
{
	typedef typename C::D D;
	const Plan & plan;
	seq::Violation viol;
	D * disp;
	std::vector<MFilter> filters;
	std::vector<int> listeners[NKEY];
	typename C::FHandle fhandles[MAXSLOT];
	typename C::Handle lhandles[MAXSLOT];
	int slotKind[MAXSLOT]; // 0 unused, 1 filter attached, 2 filter removed, 3 listener attached, 4 listener removed
	int slotKey[MAXSLOT];
	int mixVerdict[2];
	uint64_t logHash;
	std::vector<long> passedPerOp;
	// dispatch in progress
	bool inDispatch;
	int stage;                 // 0 before MixA, 1 filters, 2 after filters (MixB), 3 listeners, 4 blocked
	std::vector<int> fsnap; size_t fpos;
	std::vector<int> lsnap; size_t lpos;
	int curA, curP, curKey;
	bool blocked;

	explicit FilterInterp(const Plan & p) : plan(p), disp(nullptr), logHash(kHashInit), inDispatch(false), stage(0), fpos(0), lpos(0), curA(0), curP(0), curKey(0), blocked(false)
	{
		for(int i = 0; i < MAXSLOT; ++i) { slotKind[i] = 0; slotKey[i] = 0; }
		mixVerdict[0] = mixVerdict[1] = 1;
	}
	void log(uint64_t v) { logHash = hashMix(logHash, v); }
	int findFilter(int id) const { for(size_t i = 0; i < filters.size(); ++i) if(filters[i].id == id) return (int)i; return -1; }

	bool mix(int which, int a, int pval) override
	{
		++counters.mixCalls;
		if(!inDispatch) { viol.raise("mixin-outside-dispatch", "a mixin hook ran outside a dispatch"); return true; }
		if(which == 0) { if(stage != 0) viol.raise("mixin-order", "the mixin listed before MixinFilter ran after the filters"); stage = 1; }
		else { if(stage != 1 || nextFilter() >= 0) viol.raise("mixin-order", "the mixin listed after MixinFilter ran before every filter had run"); stage = 3; }
		if(a != curA || pval != curP) viol.raise("argument-mismatch", "a mixin saw (" + std::to_string(a) + "," + std::to_string(pval) + ") instead of (" + std::to_string(curA) + "," + std::to_string(curP) + ")");
		if(!mixVerdict[which]) { blocked = true; stage = 4; ++counters.mixBlocked; }
		return mixVerdict[which] != 0;
	}

	// index into 'filters' of the next filter of the snapshot that is still attached, or -1
	int nextFilter()
	{
		size_t q = fpos;
		while(q < fsnap.size() && findFilter(fsnap[q]) < 0) ++q;
		return q < fsnap.size() ? (int)q : -1;
	}

	bool filter(int id, int & a, int & pval) override
	{
		++counters.filterCalls;
		log((uint64_t)id * 2654435761u + (uint64_t)(uint32_t)a * 31 + (uint64_t)(uint32_t)pval);
		if(!inDispatch) { viol.raise("filter-outside-dispatch", "filter " + std::to_string(id) + " ran outside a dispatch"); return true; }
		if(C::mixes && stage == 0) { viol.raise("mixin-order", "a filter ran before the mixin listed before MixinFilter"); return true; }
		if(stage > 1) { viol.raise("filter-after-block", "filter " + std::to_string(id) + " ran although the filters of this dispatch were already over (blocked, or listeners started)"); return true; }
		stage = 1;
		const int q = nextFilter();
		if(q < 0 || fsnap[(size_t)q] != id) {
			viol.raise("unexpected-filter", "filter " + std::to_string(id) + " ran but the model expects " + (q >= 0 ? std::to_string(fsnap[(size_t)q]) : std::string("no further filter")) + " (filters in order of addition: " + seq::join(fsnap) + ")");
			return true;
		}
		fpos = (size_t)q + 1;
		if(a != curA || pval != curP) { viol.raise("argument-mismatch", "filter " + std::to_string(id) + " saw (" + std::to_string(a) + "," + std::to_string(pval) + ") instead of (" + std::to_string(curA) + "," + std::to_string(curP) + "): modifications of earlier filters must be visible"); return true; }
		MFilter & m = filters[(size_t)findFilter(id)];
		const bool verdict = ((m.pattern >> (m.calls & 7)) & 1) != 0;
		++m.calls;
		if(m.delta) { a += m.delta; pval += m.delta * 3; curA = a; curP = pval; ++counters.filterModified; }
		const int script = m.script;
		if(script == 1) { ++counters.filtersRemovedFromFilter; doRemoveFilter(id); }
		else if(script >= 2) { ++counters.filtersRemovedFromFilter; doRemoveFilter(script - 2); }
		if(!verdict) { blocked = true; stage = 4; ++counters.filterBlocked; }
		return verdict;
	}

	void listener(int id, long a, long pval) override
	{
		++counters.listenerCalls;
		log((uint64_t)id * 40503u + (uint64_t)a * 7 + (uint64_t)pval);
		if(!inDispatch) { viol.raise("listener-outside-dispatch", "listener " + std::to_string(id) + " ran outside a dispatch"); return; }
		if(blocked) { viol.raise("listener-after-block", "listener " + std::to_string(id) + " ran although a filter (or mixin) returned false for this dispatch"); return; }
		if(stage <= 1 && nextFilter() >= 0) { viol.raise("listener-before-filters", "listener " + std::to_string(id) + " ran before filter " + std::to_string(fsnap[(size_t)nextFilter()]) + " was asked"); return; }
		if(C::mixes && stage < 3) { viol.raise("mixin-order", "a listener ran before the mixin listed after MixinFilter"); return; }
		stage = 3;
		if(lpos >= lsnap.size() || lsnap[lpos] != id) { viol.raise("unexpected-listener", "listener " + std::to_string(id) + " ran but the model expects " + (lpos < lsnap.size() ? std::to_string(lsnap[lpos]) : std::string("no further listener"))); return; }
		++lpos;
		if(a != curA || pval != curP) viol.raise("argument-mismatch", "listener " + std::to_string(id) + " received (" + std::to_string(a) + "," + std::to_string(pval) + ") but the filters left (" + std::to_string(curA) + "," + std::to_string(curP) + ")");
	}
	bool condition(int, int, int) override { return true; }
	// the conversion variant documents ONE recorded defect: whatever shape it takes in a given history, it is reported under one class
	void relabel()
	{
		if(!viol.set) return;
		if(C::conv == 1 && (viol.cls == "unexpected-filter" || viol.cls == "filter-skipped" || viol.cls == "listener-before-filters")) viol.cls = "heter-filters-of-another-prototype";
		if(C::conv == 2 && (viol.cls == "unexpected-filter" || viol.cls == "filter-after-block" || viol.cls == "argument-mismatch")) viol.cls = "filters-run-twice-behind-a-plain-mixin";
	}

	void doRemoveFilter(int slot)
	{
		if(slot < 0 || slot >= MAXSLOT || (slotKind[slot] != 1 && slotKind[slot] != 2)) return;
		const bool expected = slotKind[slot] == 1;
		bool got;
		{ FaultArm arm; got = C::removeFilter(*disp, fhandles[slot]); }
		if(expected) { filters.erase(filters.begin() + findFilter(slot)); slotKind[slot] = 2; }
		if(got != expected) viol.raise("removeFilter-result", "removeFilter for filter " + std::to_string(slot) + " returned " + (got ? "true" : "false"));
	}

	void doOp(const Op & op)
	{
		if(viol.set) return;
		const int k = ((op.d % NKEY) + NKEY) % NKEY;
		log((uint64_t)op.k * 1000003 + (uint64_t)(uint32_t)op.a * 31 + (uint64_t)(uint32_t)op.b);
		switch(op.k) {
		case O_ADD_FILTER: {
			const int id = op.a;
			if(id < 0 || id >= MAXSLOT || slotKind[id] != 0) return;
			FilterFn f(id);
			{ FaultArm arm; fhandles[id] = C::addFilter(*disp, f); }
			MFilter m; m.id = id; m.pattern = op.b; m.delta = (op.c & 255) % 5; m.script = (op.c >> 8) & 63; m.calls = 0;
			filters.push_back(m); slotKind[id] = 1;
			break;
		}
		case O_REMOVE_FILTER: doRemoveFilter(((op.a % MAXSLOT) + MAXSLOT) % MAXSLOT); break;
		case O_ADD_LISTENER: {
			const int id = op.a;
			if(id < 0 || id >= MAXSLOT || slotKind[id] != 0) return;
			ListenerFn f(id);
			{ FaultArm arm; lhandles[id] = C::addListener(*disp, k, op.b & 1, f); }
			if(op.b & 1) listeners[k].insert(listeners[k].begin(), id); else listeners[k].push_back(id);
			slotKind[id] = 3; slotKey[id] = k;
			break;
		}
		case O_REMOVE_LISTENER: {
			const int slot = ((op.a % MAXSLOT) + MAXSLOT) % MAXSLOT;
			if(slotKind[slot] != 3 && slotKind[slot] != 4) return;
			const bool expected = slotKind[slot] == 3;
			bool got;
			{ FaultArm arm; got = C::removeListener(*disp, slotKey[slot], lhandles[slot]); }
			if(expected) { std::vector<int> & l = listeners[slotKey[slot]]; l.erase(std::find(l.begin(), l.end(), slot)); slotKind[slot] = 4; }
			if(got != expected) viol.raise("removeListener-result", "removeListener returned " + std::string(got ? "true" : "false"));
			break;
		}
		case O_SET_MIX: mixVerdict[op.a & 1] = op.b & 1; break;
		case O_COPY: case O_COPY_ASSIGN: {
			// C10: a copy holds the same listeners AND filters in the same order and is fully functional; the old handles die with the original
			D * copy = nullptr;
			try {
				FaultArm arm;
				if(op.k == O_COPY) copy = new D(*disp);
				else { copy = new D(); *copy = *disp; }
			}
			catch(...) { delete copy; throw; }
			// independence: before the source goes away it loses every filter and listener the harness still has a handle for, and gets
			// one more filter of its own - none of which may reach the copy (a filter list shared between the two shows as
			// filter-skipped / an unexpected filter in the copy's next dispatch)
			{
				FaultOff off;
				for(int s2 = 0; s2 < MAXSLOT; ++s2) {
					if(slotKind[s2] == 1) C::removeFilter(*disp, fhandles[s2]);
					else if(slotKind[s2] == 3) C::removeListener(*disp, slotKey[s2], lhandles[s2]);
				}
				if(slotKind[MAXSLOT - 1] == 0) { FilterFn poison(MAXSLOT - 1); C::addFilter(*disp, poison); }
			}
			delete disp; disp = copy;
			++counters.copies;
			for(int s2 = 0; s2 < MAXSLOT; ++s2) {
				if(slotKind[s2] == 1) slotKind[s2] = 5;        // filter present in the copy, handle gone
				else if(slotKind[s2] == 3) slotKind[s2] = 6;   // listener present in the copy, handle gone
				fhandles[s2] = typename C::FHandle(); lhandles[s2] = typename C::Handle();
			}
			break;
		}
		case O_DISPATCH: case O_QDISPATCH: {
			const bool queued = op.k == O_QDISPATCH && C::queue;
			++counters.dispatches; if(queued) ++counters.queuedDispatches;
			const int arg = C::keyarg ? k : op.a;
			curA = arg; curP = op.b; curKey = k;
			fsnap.clear(); for(size_t i = 0; i < filters.size(); ++i) if(C::conv != 1 || filters[i].id % 2 == 0) fsnap.push_back(filters[i].id);
			lsnap = listeners[k];
			fpos = 0; lpos = 0; blocked = false; stage = 0; inDispatch = true;
			try { FaultArm arm; C::dispatch(*disp, k, arg, op.b, (op.c & 1) != 0, queued); }
			catch(...) { inDispatch = false; throw; }
			inDispatch = false;
			if(viol.set) return;
			if(!blocked) {
				const int q = nextFilter();
				if(q >= 0) { viol.raise("filter-skipped", "filter " + std::to_string(fsnap[(size_t)q]) + " was not asked by a dispatch that was not blocked"); return; }
				if(lpos != lsnap.size()) viol.raise("missed-listener", "only " + std::to_string(lpos) + " of the " + std::to_string(lsnap.size()) + " listeners ran although no filter blocked the dispatch");
			}
			break;
		}
		default: break;
		}
	}

	void execute(const std::vector<int> & faults)
	{
		FaultCtl & fc = faultCtl();
		fc.countdown = 0; fc.passed = 0; fc.lastFired = -1;
		ledger().reset();
		disp = new D();
		const OpList none;
		const OpList & ops = plan.tasks.empty() ? none : plan.tasks[0];
		passedPerOp.assign(ops.size(), 0);
		for(size_t i = 0; i < ops.size() && !viol.set; ++i) {
			long arm = 0;
			for(size_t f = 0; f + 1 < faults.size(); f += 2) if(faults[f] == (int)i) arm = faults[f + 1];
			fc.countdown = arm; fc.lastFired = -1;
			const long before = fc.passed;
			bool threw = false;
			try { ++counters.ops; doOp(ops[i]); }
			catch(const InjectedFault &) { threw = true; }
			catch(const std::bad_alloc &) { threw = true; }
			passedPerOp[i] = fc.passed - before;
			const bool fired = fc.lastFired >= 0;
			fc.countdown = 0;
			if(threw && !fired) viol.raise("unexpected-exception", "operation " + std::to_string(i) + " threw although no fault was injected");
			if(fired && !threw) viol.raise("fault-swallowed", "a fault was injected into operation " + std::to_string(i) + " but the call returned normally");
			if(fired) ++counters.opsFailedByFault;
			if(ledger().liveOfType(seq::T_PAY) != 0 && !viol.set) viol.raise("argument-leak", "argument objects alive after the dispatch returned");
			if(ledger().hasError()) viol.raise(ledger().errorClass, ledger().error);
		}
		if(viol.set) return;
		delete disp; disp = nullptr;
		for(int s = 0; s < MAXSLOT; ++s) { fhandles[s] = typename C::FHandle(); lhandles[s] = typename C::Handle(); }
		if(ledger().hasError()) viol.raise(ledger().errorClass, ledger().error);
		else if(ledger().liveTotal() != 0) viol.raise("leak", "tracked objects alive after the dispatcher was destroyed");
	}
};

// ---------------------------------------------------------------- canContinueInvoking (variant 4)
struct ContListenerFn : Tracked<seq::T_FN, false>
{
	bool setsStop;
	ContListenerFn(int id, bool s) : Tracked<seq::T_FN, false>(id), setsStop(s) {}
	// the third prototype parameter is taken BY VALUE by the prototype, by every listener and by the policy: whoever moves from the
	// invocation's own copy instead of copying it leaves a moved-from value for the listeners that follow
	void operator() (int a, Ctl & c, Payload p) const { faultPoint(F_CALL); FaultOff off; this->alive("listener invoked"); p.alive("listener argument"); ++c.seen; g_sink->listener(this->id, a, p.val); if(setsStop) c.stop = true; }
};
struct PolCont
{
	static bool canContinueInvoking(int, Ctl & c, Payload p) { faultPoint(F_CALL); FaultOff off; p.alive("policy argument"); return !c.stop; }
};

// the same policy RETURNING A REFERENCE (used by the dispatcher of this variant): it must be honoured like the by-value one
struct PolContRef
{
	static const bool & canContinueInvoking(int, Ctl & c, const Payload & p) { faultPoint(F_CALL); FaultOff off; p.alive("policy argument"); static const bool yes = true, no = false; return c.stop ? no : yes; }
};

struct ContInterp : Sink
{
	typedef eventpp::CallbackList<void (int, Ctl &, Payload), PolCont> L;
	typedef eventpp::EventDispatcher<int, void (int, Ctl &, Payload), PolContRef> D;
	const Plan & plan;
	seq::Violation viol;
	L * list; D * disp;
	struct Item { int id; bool stops; };
	std::vector<Item> items[NKEY + 1];          // [0..NKEY-1] dispatcher keys, [NKEY] the plain list
	L::Handle lh[MAXSLOT]; D::Handle dh[MAXSLOT];
	int slotWhere[MAXSLOT];
	uint64_t logHash;
	std::vector<long> passedPerOp;
	std::vector<int> expect; size_t epos; int curA, curP; bool inDispatch;

	explicit ContInterp(const Plan & p) : plan(p), list(nullptr), disp(nullptr), logHash(kHashInit), epos(0), curA(0), curP(0), inDispatch(false)
	{
		for(int i = 0; i < MAXSLOT; ++i) slotWhere[i] = -1;
	}
	bool filter(int, int &, int &) override { return true; }
	bool mix(int, int, int) override { return true; }
	bool condition(int, int, int) override { return true; }
	void relabel() {}
	void listener(int id, long a, long pval) override
	{
		++counters.listenerCalls;
		logHash = hashMix(logHash, (uint64_t)id * 31 + (uint64_t)a);
		if(!inDispatch) { viol.raise("listener-outside-dispatch", "listener ran outside an invocation"); return; }
		if(epos >= expect.size() || expect[epos] != id) { viol.raise("unexpected-listener", "listener " + std::to_string(id) + " ran but the model expects " + (epos < expect.size() ? std::to_string(expect[epos]) : std::string("no further listener: canContinueInvoking had returned false")) ); return; }
		++epos;
		if(a != curA || pval != curP) viol.raise("argument-mismatch", "listener " + std::to_string(id) + " received (" + std::to_string(a) + "," + std::to_string(pval) + ") instead of (" + std::to_string(curA) + "," + std::to_string(curP) + ")");
	}
	void doOp(const Op & op)
	{
		if(viol.set) return;
		const int where = op.d % (NKEY + 1) < 0 ? 0 : op.d % (NKEY + 1);
		switch(op.k) {
		case O_ADD_LISTENER: {
			const int id = op.a;
			if(id < 0 || id >= MAXSLOT || slotWhere[id] != -1) return;
			ContListenerFn f(id, (op.c & 1) != 0);
			{
				FaultArm arm;
				if(where == NKEY) lh[id] = (op.b & 1) ? list->prepend(f) : list->append(f);
				else dh[id] = (op.b & 1) ? disp->prependListener(where, f) : disp->appendListener(where, f);
			}
			Item it; it.id = id; it.stops = (op.c & 1) != 0;
			if(op.b & 1) items[where].insert(items[where].begin(), it); else items[where].push_back(it);
			slotWhere[id] = where;
			break;
		}
		case O_REMOVE_LISTENER: {
			const int slot = ((op.a % MAXSLOT) + MAXSLOT) % MAXSLOT;
			if(slotWhere[slot] < 0) return;
			const int w = slotWhere[slot];
			bool got;
			{ FaultArm arm; got = w == NKEY ? list->remove(lh[slot]) : disp->removeListener(w, dh[slot]); }
			for(size_t i = 0; i < items[w].size(); ++i) if(items[w][i].id == slot) { items[w].erase(items[w].begin() + (long)i); break; }
			slotWhere[slot] = -2;
			if(!got) viol.raise("removeListener-result", "removing an attached listener returned false");
			break;
		}
		case O_DISPATCH: case O_QDISPATCH: {
			++counters.dispatches;
			expect.clear();
			bool stoppedEarly = false;
			for(size_t i = 0; i < items[where].size(); ++i) { expect.push_back(items[where][i].id); if(items[where][i].stops) { if(i + 1 < items[where].size()) stoppedEarly = true; break; } }
			if(stoppedEarly) ++counters.stoppedByPolicy;
			epos = 0; curA = op.a; curP = op.b; inDispatch = true;
			Ctl c;
			try {
				Payload p(3000, op.b);
				FaultArm arm;
				if(op.c & 1) { if(where == NKEY) (*list)(op.a, c, Payload(3000, op.b)); else disp->dispatch(where, op.a, c, Payload(3000, op.b)); }
				else { if(where == NKEY) (*list)(op.a, c, p); else disp->dispatch(where, op.a, c, p); }
			}
			catch(...) { inDispatch = false; throw; }
			inDispatch = false;
			if(!viol.set && epos != expect.size()) viol.raise("missed-listener", "only " + std::to_string(epos) + " of the " + std::to_string(expect.size()) + " listeners that must run before canContinueInvoking turns false were invoked");
			break;
		}
		default: break;
		}
	}
	void execute(const std::vector<int> & faults)
	{
		FaultCtl & fc = faultCtl();
		fc.countdown = 0; fc.passed = 0; fc.lastFired = -1;
		ledger().reset();
		list = new L(); disp = new D();
		const OpList none;
		const OpList & ops = plan.tasks.empty() ? none : plan.tasks[0];
		passedPerOp.assign(ops.size(), 0);
		for(size_t i = 0; i < ops.size() && !viol.set; ++i) {
			long arm = 0;
			for(size_t f = 0; f + 1 < faults.size(); f += 2) if(faults[f] == (int)i) arm = faults[f + 1];
			fc.countdown = arm; fc.lastFired = -1;
			const long before = fc.passed;
			bool threw = false;
			try { ++counters.ops; doOp(ops[i]); }
			catch(const InjectedFault &) { threw = true; }
			catch(const std::bad_alloc &) { threw = true; }
			passedPerOp[i] = fc.passed - before;
			const bool fired = fc.lastFired >= 0;
			fc.countdown = 0;
			if(threw && !fired) viol.raise("unexpected-exception", "an operation threw although no fault was injected");
			if(fired && !threw) viol.raise("fault-swallowed", "a fault was injected but the call returned normally");
			if(fired) ++counters.opsFailedByFault;
			if(ledger().hasError()) viol.raise(ledger().errorClass, ledger().error);
		}
		if(viol.set) return;
		delete list; delete disp; list = nullptr; disp = nullptr;
		for(int s = 0; s < MAXSLOT; ++s) { lh[s] = L::Handle(); dh[s] = D::Handle(); }
		if(ledger().liveTotal() != 0) viol.raise("leak", "tracked objects alive after destruction");
	}
};

// ---------------------------------------------------------------- wrapped listeners (variant 5)
struct CondFn : Tracked<seq::T_COND, false>
{
	explicit CondFn(int id) : Tracked<seq::T_COND, false>(id) {}
	bool operator() (int a, const Payload & p) const { faultPoint(F_CALL); FaultOff off; this->alive("condition evaluated"); return g_sink->condition(this->id, a, p.val); }
};
// adapted to take the payload BY VALUE while the list's prototype passes it by non-const reference: the adapter must hand the listener a
// copy - a listener that receives the caller's object itself (moved into its parameter) empties it for every later listener and the caller
struct ByValueListenerFn : Tracked<seq::T_FN, false>
{
	explicit ByValueListenerFn(int id) : Tracked<seq::T_FN, false>(id) {}
	void operator() (long a, Payload p) const { faultPoint(F_CALL); FaultOff off; g_sink->listener(this->id, a, p.val); }
};
struct LongListenerFn : Tracked<seq::T_FN, false>
{
	explicit LongListenerFn(int id) : Tracked<seq::T_FN, false>(id) {}
	void operator() (long a, const Payload & p) const { faultPoint(F_CALL); FaultOff off; g_sink->listener(this->id, a, p.val); }
};
// the second parameter of the adapted listener needs a CONVERSION (int -> Num): the adapter must keep the converted value alive for
// the duration of the call (a reference to a temporary that died inside a cast helper reads as -1 here, or trips ASan)
struct Num
{
	long v;
	Num(int x) : v(x) {}
	Num(const Num & o) : v(o.v) {}
	~Num() { v = -1; }
};
struct DerivedListenerFn : Tracked<seq::T_FN, false>
{
	explicit DerivedListenerFn(int id) : Tracked<seq::T_FN, false>(id) {}
	void operator() (const std::shared_ptr<DerivedEv> & e, const Num & n) const { faultPoint(F_CALL); FaultOff off; g_sink->listener(this->id, e->v, n.v == e->extra ? e->extra : -424242); }
};

struct WrapInterp : Sink
{
	void relabel() {}
	typedef eventpp::CallbackList<void (int, Payload &)> L;   // non-const reference: what one listener does to the argument, the next one sees
	typedef eventpp::CallbackList<void (std::shared_ptr<BaseEv>, int)> LS;
	const Plan & plan;
	seq::Violation viol;
	L * list; LS * slist;
	struct Item { int id, flavour; };
	std::vector<Item> items, sitems;
	L::Handle lh[MAXSLOT]; LS::Handle sh[MAXSLOT];
	int slotKind[MAXSLOT];
	uint64_t logHash;
	std::vector<long> passedPerOp;
	std::vector<int> snapshot; size_t pos; int curA, curP; bool inDispatch, sharedDispatch; bool condAsked[MAXSLOT]; bool condVerdict[MAXSLOT];

	explicit WrapInterp(const Plan & p) : plan(p), list(nullptr), slist(nullptr), logHash(kHashInit), pos(0), curA(0), curP(0), inDispatch(false), sharedDispatch(false)
	{
		for(int i = 0; i < MAXSLOT; ++i) { slotKind[i] = 0; condAsked[i] = false; condVerdict[i] = false; }
	}
	bool filter(int, int &, int &) override { return true; }
	bool mix(int, int, int) override { return true; }
	static bool condOf(int id, int a, int pval) { return ((a + pval + id) % 3) != 0; }
	bool condition(int id, int a, int pval) override
	{
		if(!inDispatch) { viol.raise("condition-outside-dispatch", "a condition was evaluated outside an invocation"); return false; }
		if(a != curA || pval != curP) viol.raise("argument-mismatch", "the condition of listener " + std::to_string(id) + " saw (" + std::to_string(a) + "," + std::to_string(pval) + ") instead of the dispatched (" + std::to_string(curA) + "," + std::to_string(curP) + ")");
		if(condAsked[id]) viol.raise("condition-evaluated-twice", "the condition of listener " + std::to_string(id) + " was evaluated twice for one invocation");
		condAsked[id] = true;
		condVerdict[id] = condOf(id, a, pval);
		if(condVerdict[id]) ++counters.conditionTrue; else ++counters.conditionFalse;
		return condVerdict[id];
	}
	void listener(int id, long a, long pval) override
	{
		++counters.listenerCalls;
		logHash = hashMix(logHash, (uint64_t)id * 31 + (uint64_t)a * 7 + (uint64_t)pval);
		if(!inDispatch) { viol.raise("listener-outside-dispatch", "listener ran outside an invocation"); return; }
		// advance over conditional listeners whose condition is false
		const std::vector<Item> & its = sharedDispatch ? sitems : items;
		while(pos < its.size() && its[pos].id != id && its[pos].flavour == 1 && !condOf(its[pos].id, curA, curP)) ++pos;
		if(pos >= its.size() || its[pos].id != id) { viol.raise("unexpected-listener", "listener " + std::to_string(id) + " ran but the model expects " + (pos < its.size() ? std::to_string(its[pos].id) : std::string("none"))); return; }
		const int fl = its[pos].flavour;
		++pos;
		if(fl == 1 && !condOf(id, curA, curP)) { viol.raise("conditional-listener-ran", "listener " + std::to_string(id) + " ran although its condition does not hold for the dispatched arguments"); return; }
		if(fl == 1 && !condAsked[id]) { viol.raise("condition-not-evaluated", "conditional listener ran without its condition being evaluated"); return; }
		if(fl == 2) ++counters.adaptedCalls;
		if(fl == 3) ++counters.sharedAdaptedCalls;
		const long wantP = sharedDispatch ? (long)curA * 2 + 1 : (long)curP;
		if(a != curA || pval != wantP) viol.raise("argument-mismatch", "listener " + std::to_string(id) + " (flavour " + std::to_string(fl) + ") received (" + std::to_string(a) + "," + std::to_string(pval) + ") instead of (" + std::to_string(curA) + "," + std::to_string(wantP) + ")");
	}
	void doOp(const Op & op)
	{
		if(viol.set) return;
		switch(op.k) {
		case O_ADD_LISTENER: {
			const int id = op.a;
			if(id < 0 || id >= MAXSLOT || slotKind[id] != 0) return;
			const int fl = op.c & 3;
			Item it; it.id = id; it.flavour = fl;
			if(fl == 3) {
				DerivedListenerFn f(id);
				FaultArm arm;
				sh[id] = slist->append(eventpp::argumentAdapter<void (std::shared_ptr<DerivedEv>, const Num &)>(f));
			}
			else {
				FaultArm arm;
				if(fl == 0) { ListenerFn f(id); lh[id] = list->append(f); }
				else if(fl == 1) { ListenerFn f(id); CondFn c(id); lh[id] = list->append(eventpp::conditionalFunctor(f, c)); }
				else if(id % 3 == 2) { ByValueListenerFn f(id); lh[id] = list->append(eventpp::argumentAdapter<void (long, Payload)>(f)); }
				else if(id & 1) { LongListenerFn f(id); lh[id] = list->append(eventpp::argumentAdapter<void (long, const Payload &)>(f)); }
				else { std::function<void (long, const Payload &)> sf((LongListenerFn(id))); lh[id] = list->append(eventpp::argumentAdapter(sf)); }   // the overload deducing the prototype from a std::function
			}
			if(fl == 3) sitems.push_back(it); else items.push_back(it);
			slotKind[id] = fl == 3 ? 2 : 1;
			break;
		}
		case O_REMOVE_LISTENER: {
			const int slot = ((op.a % MAXSLOT) + MAXSLOT) % MAXSLOT;
			if(slotKind[slot] != 1 && slotKind[slot] != 2) return;
			bool got;
			{ FaultArm arm; got = slotKind[slot] == 1 ? list->remove(lh[slot]) : slist->remove(sh[slot]); }
			std::vector<Item> & its = slotKind[slot] == 1 ? items : sitems;
			for(size_t i = 0; i < its.size(); ++i) if(its[i].id == slot) { its.erase(its.begin() + (long)i); break; }
			slotKind[slot] = 3;
			if(!got) viol.raise("removeListener-result", "removing an attached listener returned false");
			break;
		}
		case O_DISPATCH: case O_QDISPATCH: {
			++counters.dispatches;
			for(int i = 0; i < MAXSLOT; ++i) condAsked[i] = false;
			pos = 0; curA = op.a; curP = op.b; inDispatch = true;
			sharedDispatch = op.k == O_QDISPATCH;
			try {
				FaultArm arm;
				if(sharedDispatch) { std::shared_ptr<BaseEv> e = std::make_shared<DerivedEv>(op.a); (*slist)(e, op.a * 2 + 1); }
				else {
					Payload p(4000, op.b); (*list)(op.a, p);
					if(p.val != op.b) viol.raise("argument-mismatch", "the caller's own argument holds " + std::to_string(p.val) + " after the invocation instead of " + std::to_string(op.b) + " (no listener modifies it)");
				}
			}
			catch(...) { inDispatch = false; throw; }
			inDispatch = false;
			if(viol.set) return;
			const std::vector<Item> & its = sharedDispatch ? sitems : items;
			while(pos < its.size() && its[pos].flavour == 1 && !condOf(its[pos].id, curA, curP)) ++pos;
			if(pos != its.size()) viol.raise("missed-listener", "listener " + std::to_string(its[pos].id) + " did not run although it is attached" + (its[pos].flavour == 1 ? " and its condition holds" : ""));
			break;
		}
		default: break;
		}
	}
	void execute(const std::vector<int> & faults)
	{
		FaultCtl & fc = faultCtl();
		fc.countdown = 0; fc.passed = 0; fc.lastFired = -1;
		ledger().reset();
		list = new L(); slist = new LS();
		const OpList none;
		const OpList & ops = plan.tasks.empty() ? none : plan.tasks[0];
		passedPerOp.assign(ops.size(), 0);
		for(size_t i = 0; i < ops.size() && !viol.set; ++i) {
			long arm = 0;
			for(size_t f = 0; f + 1 < faults.size(); f += 2) if(faults[f] == (int)i) arm = faults[f + 1];
			fc.countdown = arm; fc.lastFired = -1;
			const long before = fc.passed;
			bool threw = false;
			try { ++counters.ops; doOp(ops[i]); }
			catch(const InjectedFault &) { threw = true; }
			catch(const std::bad_alloc &) { threw = true; }
			passedPerOp[i] = fc.passed - before;
			const bool fired = fc.lastFired >= 0;
			fc.countdown = 0;
			if(threw && !fired) viol.raise("unexpected-exception", "an operation threw although no fault was injected");
			if(fired && !threw) viol.raise("fault-swallowed", "a fault was injected but the call returned normally");
			if(fired) ++counters.opsFailedByFault;
			if(ledger().hasError()) viol.raise(ledger().errorClass, ledger().error);
		}
		if(viol.set) return;
		delete list; delete slist; list = nullptr; slist = nullptr;
		for(int s = 0; s < MAXSLOT; ++s) { lh[s] = L::Handle(); sh[s] = LS::Handle(); }
		if(ledger().liveTotal() != 0) viol.raise("leak", "tracked objects alive after destruction");
	}
};

template <typename I>
void runInterp(const Plan & plan, RunOut & out)
{
	const bool faultMode = engine::mode == "c09";
	struct One
	{
		static void run(const Plan & plan, const std::vector<int> & faults, RunOut & out, std::vector<long> * passed, uint64_t * lh)
		{
			I * in = new I(plan);
			g_sink = in;
			in->execute(faults);
			in->relabel();
			if(in->viol.set) out.fail(in->viol.cls, in->viol.detail);
			if(passed) *passed = in->passedPerOp;
			if(lh) *lh = in->logHash;
			g_sink = nullptr;
			if(!out.violation) delete in;
		}
	};
	std::vector<long> passed;
	uint64_t lh = 0;
	long subRuns = 1;
	One::run(plan, plan.faults, out, &passed, &lh);
	out.logHash = lh;
	if(faultMode && plan.faults.empty() && !out.violation) {
		for(size_t i = 0; i < passed.size() && !out.violation; ++i) {
			for(long k = 1; k <= passed[i] && !out.violation; ++k) {
				std::vector<int> f; f.push_back((int)i); f.push_back((int)k);
				RunOut sub;
				One::run(plan, f, sub, nullptr, nullptr);
				++subRuns; ++counters.faultRuns;
				if(sub.violation) { out.fail(sub.cls, sub.detail); out.faults = f; }
			}
		}
	}
	for(int kd = 0; kd < F_KINDS; ++kd) { counters.faultsByKind[kd] += (uint64_t)faultCtl().firedKind[kd]; counters.faultsInjected += (uint64_t)faultCtl().firedKind[kd]; faultCtl().firedKind[kd] = 0; }
	out.subRuns = subRuns;
	out.steps = (long)(plan.tasks.empty() ? 0 : plan.tasks[0].size());
	uint64_t ch = kHashInit;
	if(!plan.tasks.empty()) for(size_t i = 0; i < plan.tasks[0].size(); ++i) { const Op & op = plan.tasks[0][i]; ch = hashMix(ch, (uint64_t)op.k * 131 + (uint64_t)(uint32_t)op.a * 31 + (uint64_t)(uint32_t)op.b * 17 + (uint64_t)(uint32_t)op.c * 7 + (uint64_t)(uint32_t)op.d); }
	out.caseHash = hashMix(ch, (uint64_t)plan.user(U_VARIANT));
}

#if SEQ_VARIANT == 0
void runVariant0(const Plan & p, RunOut & o) { runInterp<FilterInterp<CfgDisp> >(p, o); }
#elif SEQ_VARIANT == 1
void runVariant1(const Plan & p, RunOut & o) { runInterp<FilterInterp<CfgDispMix> >(p, o); }
#elif SEQ_VARIANT == 2
void runVariant2(const Plan & p, RunOut & o) { runInterp<FilterInterp<CfgQueue> >(p, o); }
#elif SEQ_VARIANT == 3
void runVariant3(const Plan & p, RunOut & o) { runInterp<FilterInterp<CfgHeter> >(p, o); }
#elif SEQ_VARIANT == 4
void runVariant4(const Plan & p, RunOut & o) { runInterp<ContInterp>(p, o); }
#elif SEQ_VARIANT == 5
void runVariant5(const Plan & p, RunOut & o) { runInterp<WrapInterp>(p, o); }
#elif SEQ_VARIANT == 6
void runVariant6(const Plan & p, RunOut & o) { runInterp<FilterInterp<CfgHeterConv> >(p, o); }
#elif SEQ_VARIANT == 7
void runVariant7(const Plan & p, RunOut & o) { runInterp<FilterInterp<CfgDispPlain> >(p, o); }
#elif SEQ_VARIANT == 8
void runVariant8(const Plan & p, RunOut & o) { runInterp<FilterInterp<CfgDispKeyRef> >(p, o); }
#endif

} // namespace sf
#endif // SEQ_VARIANT

#if defined(SEQ_MAIN)
namespace sf {
Sink * g_sink = nullptr;
Counters counters;
void runVariant0(const Plan &, RunOut &); void runVariant1(const Plan &, RunOut &); void runVariant2(const Plan &, RunOut &);
void runVariant3(const Plan &, RunOut &); void runVariant4(const Plan &, RunOut &); void runVariant5(const Plan &, RunOut &);
void runVariant6(const Plan &, RunOut &); void runVariant7(const Plan &, RunOut &); void runVariant8(const Plan &, RunOut &);
}

namespace engine {

const char * const kName = "seq_filter";
std::string mode = "c12";

bool wantsPilot(const Plan &) { return false; }

void generate(uint64_t seed, Plan & plan)
{
	using namespace sf;
	Rng rng(seed);
	plan.setSchedSeed(rng.next());
	// mode c12k: only the conversion variant of the heterogeneous dispatcher (variant 6), which documents a recorded, unrepaired defect
	int variant = mode == "c04k" ? 8 : mode == "c12k" ? 6 : mode == "c12p" ? 7 : mode == "c10" ? (int)rng.below(4) : (int)rng.below(V_COUNT + 1);
	if(variant == V_COUNT) variant = 8; // the by-reference getEvent policy behind MixinFilter
	plan.user(U_VARIANT) = variant;
	plan.tasks.assign(1, OpList());
	OpList & ops = plan.tasks[0];
	const int len = mode == "c09" ? 4 + (int)rng.below(8) : 8 + (int)rng.below(30);
	int nextId = 0;
	std::vector<int> known;
	for(int i = 0; i < len; ++i) {
		const uint32_t r = rng.below(100);
		const int k = (int)rng.below(variant == 4 ? NKEY + 1 : NKEY);
		int slot = 0;
		if(!known.empty()) slot = known[rng.below((uint32_t)known.size())];
		if(variant <= 3 || variant >= 6) {
			if(r < 20 && nextId < MAXSLOT - 2) {
				const int pattern = rng.chance(2, 3) ? 255 : (int)rng.below(256);
				const int delta = rng.chance(1, 2) ? 1 + (int)rng.below(4) : 0;
				const uint32_t sr = rng.below(100);
				const int script = sr < 10 ? 1 : sr < 20 ? 2 + slot : 0;
				ops.push_back(Op(O_ADD_FILTER, nextId, pattern, delta | (script << 8), 0)); known.push_back(nextId++);
			}
			else if(r < 28) ops.push_back(Op(O_REMOVE_FILTER, slot));
			else if(r < 46 && nextId < MAXSLOT - 2) { const int how = (int)rng.below(2); ops.push_back(Op(O_ADD_LISTENER, nextId, how, 0, k)); known.push_back(nextId++); }
			else if(r < 52) ops.push_back(Op(O_REMOVE_LISTENER, slot));
			else if(r < 58 && variant == 1) { const int which = (int)rng.below(2); const int verdict = rng.chance(3, 4) ? 1 : 0; ops.push_back(Op(O_SET_MIX, which, verdict)); }
			else if(r < 66 && mode == "c10") ops.push_back(Op(rng.chance(1, 2) ? O_COPY : O_COPY_ASSIGN));
			else { const int a = (int)rng.below(1000); const int pv = (int)rng.below(1000); const int cat = (int)rng.below(2); ops.push_back(Op(rng.chance(1, 2) ? O_DISPATCH : O_QDISPATCH, a, pv, cat, k)); }
		}
		else if(variant == 4) {
			if(r < 40 && nextId < MAXSLOT - 2) { const int how = (int)rng.below(2); const int stops = rng.chance(1, 4) ? 1 : 0; ops.push_back(Op(O_ADD_LISTENER, nextId, how, stops, k)); known.push_back(nextId++); }
			else if(r < 50) ops.push_back(Op(O_REMOVE_LISTENER, slot));
			else { const int a = (int)rng.below(1000); const int pv = 1 + (int)rng.below(1000); ops.push_back(Op(O_DISPATCH, a, pv, (int)rng.below(2), k)); }
		}
		else {
			if(r < 40 && nextId < MAXSLOT - 2) { const int fl = (int)rng.below(4); ops.push_back(Op(O_ADD_LISTENER, nextId, 0, fl, 0)); known.push_back(nextId++); }
			else if(r < 48) ops.push_back(Op(O_REMOVE_LISTENER, slot));
			else { const int a = (int)rng.below(1000); const int pv = (int)rng.below(1000); ops.push_back(Op(rng.chance(2, 3) ? O_DISPATCH : O_QDISPATCH, a, pv)); }
		}
	}
}

void execute(const Plan & plan, RunOut & out)
{
	const int v = plan.user(sf::U_VARIANT);
	switch(v) {
	case 0: sf::runVariant0(plan, out); break; case 1: sf::runVariant1(plan, out); break; case 2: sf::runVariant2(plan, out); break;
	case 3: sf::runVariant3(plan, out); break; case 4: sf::runVariant4(plan, out); break; case 6: sf::runVariant6(plan, out); break; case 7: sf::runVariant7(plan, out); break; case 8: sf::runVariant8(plan, out); break; default: sf::runVariant5(plan, out); break;
	}
	++sf::counters.plans;
	if(v >= 0 && v <= sf::V_COUNT + 2) ++sf::counters.perVariant[v];
	bool focus = false;
	if(!plan.tasks.empty()) for(size_t i = 0; i < plan.tasks[0].size(); ++i) if(plan.tasks[0][i].k == sf::O_DISPATCH || plan.tasks[0][i].k == sf::O_QDISPATCH) focus = true;
	out.nontrivial = focus;
}

std::string describe(const Plan & plan)
{
	static const char * vn[] = { "EventDispatcher+MixinFilter", "EventDispatcher+MixinList<MixA,MixinFilter,MixB>", "EventQueue+MixinFilter", "HeterEventDispatcher+MixinHeterFilter",
		"canContinueInvoking on CallbackList/EventDispatcher", "conditionalFunctor/argumentAdapter listeners",
		"HeterEventDispatcher<{void(long,Payload), void(int,Payload)}>+MixinHeterFilter, int arguments",
		"EventDispatcher+MixinList<PlainMix (no interceptor), MixinFilter>",
		"EventDispatcher+MixinFilter, event = first argument through a getEvent policy returning a reference; filters modify that argument" };
	static const char * names[] = { "?", "addFilter", "removeFilter", "addListener", "removeListener", "dispatch", "queuedDispatch", "setMixinVerdict", "continueWithCopy", "continueWithCopyAssigned" };
	std::ostringstream o;
	const int v = plan.user(sf::U_VARIANT);
	o << (v >= 0 && v <= sf::V_COUNT + 2 ? vn[v] : "?") << " :";
	if(!plan.tasks.empty()) for(size_t i = 0; i < plan.tasks[0].size(); ++i) {
		const Op & op = plan.tasks[0][i];
		o << " " << (op.k >= 1 && op.k < sf::O_KINDS ? names[op.k] : "?");
		if(op.k == sf::O_ADD_FILTER) { o << "(f" << op.a << ",verdicts" << op.b << ",delta" << ((op.c & 255) % 5); const int sc = (op.c >> 8) & 63; if(sc == 1) o << ",removesItself"; else if(sc >= 2) o << ",removes f" << sc - 2; o << ")"; }
		else if(op.k == sf::O_REMOVE_FILTER || op.k == sf::O_REMOVE_LISTENER) o << "(" << op.a << ")";
		else if(op.k == sf::O_ADD_LISTENER) o << "(l" << op.a << (op.c ? ",flavour" + std::to_string(op.c) : std::string()) << ")@k" << op.d;
		else if(op.k == sf::O_DISPATCH || op.k == sf::O_QDISPATCH) o << "(" << op.a << "," << op.b << (op.c & 1 ? ",temporaries" : "") << ")@k" << op.d;
		else if(op.k == sf::O_SET_MIX) o << "(" << (op.a & 1 ? "after" : "before") << "=" << (op.b & 1) << ")";
	}
	if(!plan.faults.empty()) o << " | faults " << seq::join(plan.faults);
	return o.str();
}

void statsJson(std::string & out)
{
	const sf::Counters & c = sf::counters;
	std::ostringstream o;
	o << ",\"probes\":{\"ops\":" << c.ops << ",\"dispatches\":" << c.dispatches << ",\"queued_dispatches\":" << c.queuedDispatches << ",\"filter_calls\":" << c.filterCalls << ",\"dispatches_blocked_by_filter\":" << c.filterBlocked
	  << ",\"filters_that_modified_arguments\":" << c.filterModified << ",\"filters_removed_from_inside_a_filter\":" << c.filtersRemovedFromFilter << ",\"listener_calls\":" << c.listenerCalls
	  << ",\"harness_mixin_calls\":" << c.mixCalls << ",\"blocked_by_harness_mixin\":" << c.mixBlocked << ",\"invocations_stopped_by_canContinueInvoking\":" << c.stoppedByPolicy
	  << ",\"condition_true\":" << c.conditionTrue << ",\"condition_false\":" << c.conditionFalse << ",\"adapted_listener_calls\":" << c.adaptedCalls << ",\"shared_ptr_adapted_listener_calls\":" << c.sharedAdaptedCalls << ",\"dispatcher_copies\":" << c.copies << "}"
	  << ",\"faults\":{\"fault_runs\":" << c.faultRuns << ",\"injected_total\":" << c.faultsInjected << ",\"alloc\":" << c.faultsByKind[F_ALLOC] << ",\"copy\":" << c.faultsByKind[F_COPY]
	  << ",\"move\":" << c.faultsByKind[F_MOVE] << ",\"call\":" << c.faultsByKind[F_CALL] << ",\"operations_failed_by_fault\":" << c.opsFailedByFault << "}"
	  << ",\"per_variant\":[";
	for(int i = 0; i < sf::V_COUNT + 3; ++i) o << (i ? "," : "") << c.perVariant[i];
	o << "]";
	out += o.str();
}

} // namespace engine

int main(int argc, char ** argv) { return sim::workerMain(argc, argv); }
#endif
