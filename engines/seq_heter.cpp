// SEQ / FLT engine for the heterogeneous classes: HeterCallbackList, HeterEventDispatcher, HeterEventQueue.
// Modes: c14 (routing by prototype, no type confusion, processIf by predicate prototype), c10 (copy/move/assign/swap
// in dirty storage), c09 (fault enumeration), c08
#ifdef SEQ_MAIN
#define VERIF_REPLACE_NEW
#endif
#include "seq_common.h"

#include <eventpp/hetercallbacklist.h>
#include <eventpp/hetereventdispatcher.h>
#include <eventpp/hetereventqueue.h>

#include <cstring>

using namespace sim;

namespace sh {

enum { MAXOBJ = 3, MAXSLOT = 48, NKEY = 2, NPROTO = 6 };
enum OpKind {
	O_APPEND = 1, O_PREPEND = 2, O_INSERT = 3, O_REMOVE = 4, O_EMPTY = 5, O_FOREACH = 6, O_INVOKE = 7,
	O_ENQ = 8, O_PROCESS = 9, O_PROCESS_ONE = 10, O_PROCESS_IF = 11, O_CLEAR = 12, O_EMPTYQ = 13,
	O_COPY_CONSTRUCT = 14, O_COPY_ASSIGN = 15, O_MOVE_CONSTRUCT = 16, O_MOVE_ASSIGN = 17, O_SWAP = 18, O_DESTROY = 19, O_CREATE = 20, O_KINDS = 21
};
// Op fields: d = object * 4 + key.
//   adds: a = callback id (= slot), b = before slot, c = callback kind (0..8)
//   remove: b = slot; forEach: a = prototype index
//   invoke / enqueue: a = value seed, c = argument shape (0..7)
//   processIf: a = accept mask, c = predicate kind (0..6)
//   copy/move/swap: a = other object
enum { U_VARIANT = 0, U_FILL = 1, U_OBJECTS = 2 };
enum { V_LIST = 0, V_LIST_SINGLE = 1, V_DISPATCHER = 2, V_QUEUE = 3, V_QUEUE_SINGLE = 4, V_QUEUE_INCLUDE_EVENT = 5, V_QUEUE_REF_PROTOS = 6, V_QUEUE_INCLUDE_BYVALUE_GETEVENT = 7, V_COUNT = 8 };
enum Shape { S_NONE = 0, S_INT = 1, S_SHORT = 2, S_DOUBLE = 3, S_CSTR = 4, S_STRING = 5, S_TR_INT = 6, S_BIG = 7, S_COUNT = 8 };
enum { NKIND = 9, NPRED = 7 };

// the first listed prototype each argument shape / callback kind / predicate kind can be called with (tabulated by hand)
static const int kShapeProto[S_COUNT] = { 0, 1, 1, 1, 2, 2, 3, 4 };
static const int kKindProto[NKIND] = { 0, 1, 2, 3, 4, 1, 0, 2, 0 };
static const int kPredProto[NPRED] = { 0, 1, 2, 3, 4, 1, -1 };   // -1: callable with several prototypes (variadic): weak oracle

struct Tr : Tracked<seq::T_PAY, false>
{
	explicit Tr(int id, int val) : Tracked<seq::T_PAY, false>(id, val) {}
};

struct Big : Tracked<seq::T_BIG, false>
{
	unsigned char pad[180];
	explicit Big(int id, int val) : Tracked<seq::T_BIG, false>(id, val) { for(size_t i = 0; i < sizeof(pad); ++i) pad[i] = (unsigned char)(val * 7 + (int)i); }
	bool intact() const { for(size_t i = 0; i < sizeof(pad); ++i) if(pad[i] != (unsigned char)(val * 7 + (int)i)) return false; return true; }
};

inline std::string strOf(int v) { return "str-" + std::to_string(v) + std::string((size_t)(((v % 4) + 4) % 4) * 8, 'y'); }
inline long strHash(const std::string & s) { unsigned long h = 3; for(size_t i = 0; i < s.size(); ++i) h = h * 131 + (unsigned char)s[i]; return (long)(h % 1000000007UL); }

// the last prototype is a trap: everything callable with it is callable with void (int), which is listed earlier, so under the
// 'first listed prototype' rule no callback is ever bound to it and no invocation ever selects it - not even one with a double
typedef eventpp::HeterTuple<void (), void (int), void (const std::string &), void (const Tr &, int), void (Big), void (double)> Protos;

struct Call { int cb; int proto; long a, b; };

struct Sink
{
	virtual void called(int cb, int proto, long a, long b) = 0;
	virtual bool predicate(int predKind, int proto, long a) = 0;
	virtual ~Sink() {}
};
extern Sink * g_sink;

struct Counters
{
	uint64_t plans, ops, invocations, callbackCalls, enqueued, enqueuedDuringProcessing, dispatched, predicateCalls, declined, slotRecycled, poolOps, dirtyConstructions, shapeCounts[S_COUNT], kindCounts[NKIND],
		predCounts[NPRED], processIfForeignUntouched, defaultHandleRemoves, faultRuns, faultsInjected, faultsByKind[F_KINDS], opsFailedByFault;
	uint64_t perVariant[V_COUNT];
};
extern Counters counters;

} // namespace sh

#if defined(SEQ_VARIANT)
namespace sh {

struct FBase : Tracked<seq::T_FN, false>
{
	explicit FBase(int id) : Tracked<seq::T_FN, false>(id) {}
	void rep(int proto, long a, long b) const { faultPoint(F_CALL); FaultOff off; this->alive("callback invoked"); g_sink->called(this->id, proto, a, b); }
};
inline long bigCanon(const Big & b) { b.alive("Big argument"); return b.intact() ? b.val : -424242; }
inline long trCanon(const Tr & t) { t.alive("Tr argument"); return t.val; }

struct K0 : FBase { explicit K0(int id) : FBase(id) {} void operator() () const { rep(0, 0, 0); } };
struct K1 : FBase { explicit K1(int id) : FBase(id) {} void operator() (int a) const { rep(1, a, 0); } };
struct K2 : FBase { explicit K2(int id) : FBase(id) {} void operator() (const std::string & s) const { rep(2, strHash(s), (long)s.size()); } };
struct K3 : FBase { explicit K3(int id) : FBase(id) {} void operator() (const Tr & t, int a) const { rep(3, trCanon(t), a); } };
struct K4 : FBase { explicit K4(int id) : FBase(id) {} void operator() (const Big & b) const { rep(4, bigCanon(b), 0); } };
struct K5 : FBase { explicit K5(int id) : FBase(id) {} void operator() (long a) const { rep(1, a, 0); } };
struct K6 : FBase { explicit K6(int id) : FBase(id) {} void operator() () const { rep(0, 0, 0); } void operator() (int a) const { rep(1, a, 0); } };
struct K7 : FBase { explicit K7(int id) : FBase(id) {} void operator() (std::string s) const { rep(2, strHash(s), (long)s.size()); } };
struct K8 : FBase { explicit K8(int id) : FBase(id) {} template <typename ...A> void operator() (A && ...) const { rep((int)sizeof...(A) == 0 ? 0 : 90 + (int)sizeof...(A), 0, 0); } };

struct P0 { int mask; bool operator() () const { return g_sink->predicate(0, 0, 0); } };
struct P1 { int mask; bool operator() (int a) const { return g_sink->predicate(1, 1, a); } };
struct P2 { int mask; bool operator() (const std::string & s) const { return g_sink->predicate(2, 2, strHash(s)); } };
struct P3 { int mask; bool operator() (const Tr & t, int) const { return g_sink->predicate(3, 3, trCanon(t)); } };
struct P4 { int mask; bool operator() (const Big & b) const { return g_sink->predicate(4, 4, bigCanon(b)); } };
struct P5 { int mask; bool operator() (long a) const { return g_sink->predicate(5, 1, a); } };
struct P6 { int mask; template <typename ...A> bool operator() (A && ...) const { return g_sink->predicate(6, -1, 0); } };

struct PolDefault {};
// A policies struct as it would be shared with homogeneous dispatchers: besides the threading it carries a canContinueInvoking that
// refuses every call. The heterogeneous classes keep their per-prototype lists on policies of their own, so for them it has no
// say: "reaches exactly the callbacks bound to that prototype, in their order, once each".
struct PolSingle
{
	typedef eventpp::SingleThreading Threading;
	template <typename ...A> static bool canContinueInvoking(A && ...) { return false; }
};

// ---------------------------------------------------------------- boxes
template <typename Pol>
struct ListBox
{
	typedef eventpp::HeterCallbackList<Protos, Pol> T;
	typedef typename T::Handle Handle;
	enum { hasKeys = 0, hasQueue = 0 };
	template <typename F> static Handle add(T & o, int, int how, const F & f, const Handle & before) { return how == 0 ? o.append(f) : how == 1 ? o.prepend(f) : o.insert(f, before); }
	static bool remove(T & o, int, const Handle & h) { return o.remove(h); }
	static bool isEmpty(const T & o, int) { return o.empty(); }
	template <typename Proto, typename F> static void forEach(const T & o, int, F f) { o.template forEach<Proto>(f); }
	template <typename Proto, typename F> static bool forEachIf(const T & o, int, F f) { return o.template forEachIf<Proto>(f); }
	static void adlSwap(T & a, T & b) { using std::swap; swap(a, b); }
	template <typename ...A> static void invoke(T & o, int, A && ...a) { o(std::forward<A>(a)...); }
};

template <typename Pol, bool QUEUE>
struct DispBox
{
	typedef typename std::conditional<QUEUE, eventpp::HeterEventQueue<int, Protos, Pol>, eventpp::HeterEventDispatcher<int, Protos, Pol> >::type T;
	typedef typename T::Handle Handle;
	enum { hasKeys = 1, hasQueue = QUEUE ? 1 : 0 };
	template <typename F> static Handle add(T & o, int k, int how, const F & f, const Handle & before) { return how == 0 ? o.appendListener(k, f) : how == 1 ? o.prependListener(k, f) : o.insertListener(k, f, before); }
	static bool remove(T & o, int k, const Handle & h) { return o.removeListener(k, h); }
	static bool isEmpty(const T & o, int k) { return !o.hasAnyListener(k); }
	template <typename Proto, typename F> static void forEach(const T & o, int k, F f) { o.template forEach<Proto>(k, f); }
	template <typename Proto, typename F> static bool forEachIf(const T & o, int k, F f) { return o.template forEachIf<Proto>(k, f); }
	static void adlSwap(T & a, T & b) { using std::swap; swap(a, b); }   // the queue has no swap of its own: std::swap (one move construction, two move assignments)
	template <typename ...A> static void invoke(T & o, int k, A && ...a) { o.dispatch(k, std::forward<A>(a)...); }
};

// queue operations exist only for the queue box
template <typename B, bool Q = (B::hasQueue != 0)>
struct QOps
{
	template <typename ...A> static void enqueue(typename B::T &, int, A && ...) {}
	static bool process(typename B::T &) { return false; }
	static bool processOne(typename B::T &) { return false; }
	template <typename P> static bool processIf(typename B::T &, P) { return false; }
	static void clear(typename B::T &) {}
	static bool emptyQueue(typename B::T &) { return true; }
};
template <typename B>
struct QOps<B, true>
{
	template <typename ...A> static void enqueue(typename B::T & q, int k, A && ...a) { q.enqueue(k, std::forward<A>(a)...); }
	static bool process(typename B::T & q) { return q.process(); }
	static bool processOne(typename B::T & q) { return q.processOne(); }
	template <typename P> static bool processIf(typename B::T & q, P p) { return q.processIf(p); }
	static void clear(typename B::T & q) { q.clearEvents(); }
	static bool emptyQueue(typename B::T & q) { return q.emptyQueue(); }
};

struct MEv { int id, key, shape, proto; };

template <typename B>
struct Interp : Sink
{
	typedef typename B::T Obj;
	typedef typename B::Handle Handle;

	const Plan & plan;
	seq::Violation viol;
	seq::DirtyStorage<Obj> store[MAXOBJ];
	std::vector<int> lists[MAXOBJ][NKEY][NPROTO];
	std::vector<MEv> pending[MAXOBJ];
	Handle handles[MAXSLOT];
	int slotObj[MAXSLOT], slotKey[MAXSLOT], slotProto[MAXSLOT];
	bool slotUsed[MAXSLOT], slotUnusable[MAXSLOT];
	std::vector<Call> trace;
	int cbFollow[MAXSLOT];
	int inProc;              // object whose processing call is in progress, or -1
	std::vector<long> predAsked;
	int predMask;
	int nextEvId;
	uint64_t logHash;
	Rng aux, fillRng;
	std::vector<long> passedPerOp;
	int nKeys;

	explicit Interp(const Plan & p) : plan(p), inProc(-1), predMask(0), nextEvId(1), logHash(kHashInit), aux(p.schedSeed() ^ 0x2468ace), fillRng(p.schedSeed() ^ 0xf111)
	{
		for(int i = 0; i < MAXSLOT; ++i) cbFollow[i] = 0;
		for(int i = 0; i < MAXSLOT; ++i) { slotObj[i] = -1; slotKey[i] = 0; slotProto[i] = 0; slotUsed[i] = false; slotUnusable[i] = false; handles[i] = Handle(); }
		for(int i = 0; i < MAXOBJ; ++i) weakPending[i] = false;
		nKeys = B::hasKeys ? NKEY : 1;
	}
	void log(uint64_t v) { logHash = hashMix(logHash, v); }
	int objOf(const Op & op) const { const int o = (op.d >> 2) & 3; return o >= MAXOBJ ? 0 : o; }
	int keyOf(const Op & op) const { const int k = op.d & 3; return k >= nKeys ? 0 : k; }
	Obj & real(int o) { return *store[o].ptr(); }
	bool aliveObj(int o) const { return o >= 0 && o < MAXOBJ && store[o].alive; }

	void called(int cb, int proto, long a, long b) override
	{
		++counters.callbackCalls;
		Call c; c.cb = cb; c.proto = proto; c.a = a; c.b = b;
		trace.push_back(c);
		log((uint64_t)cb * 2654435761u + (uint64_t)proto * 97 + (uint64_t)a * 7 + (uint64_t)b);
		// a listener that posts a follow-up event while a processing call runs: the event waits for a later call,
		// behind everything the running call leaves in the queue
		if(inProc >= 0 && cb >= 0 && cb < MAXSLOT && cbFollow[cb] > 0 && slotObj[cb] == inProc) {
			const int shape = (cbFollow[cb] - 1) % S_COUNT;
			cbFollow[cb] = 0;
			const int id = nextEvId++;
			const int o = inProc, k = slotKey[cb];
			withShape(shape, id, Enqueuer(real(o), k));
			MEv e; e.id = id; e.key = k; e.shape = shape; e.proto = kShapeProto[shape];
			pending[o].push_back(e);
			++counters.enqueued; ++counters.enqueuedDuringProcessing;
		}
	}
	bool predicate(int predKind, int proto, long a) override
	{
		faultPoint(F_CALL);
		FaultOff off;
		++counters.predicateCalls;
		predAsked.push_back(proto * 1000000L + (proto == 0 || proto < 0 ? 0 : a));
		// decision: by the event's value where the prototype carries one, else by the number of questions so far
		long key = proto > 0 ? a : (long)predAsked.size();
		if(proto == 2) key = (long)predAsked.size();
		(void)predKind;
		return ((predMask >> (key & 7)) & 1) != 0;
	}

	// canonical arguments a callback of prototype 'proto' must see for an invocation of (shape, v)
	static void canonArgs(int shape, int v, long & a, long & b)
	{
		a = 0; b = 0;
		switch(shape) {
		case S_NONE: break;
		case S_INT: a = v; break;
		case S_SHORT: a = (short)v; break;
		case S_DOUBLE: a = v; break;
		case S_CSTR: case S_STRING: { const std::string s = strOf(v); a = strHash(s); b = (long)s.size(); break; }
		case S_TR_INT: a = v; b = v + 5; break;
		case S_BIG: a = v; break;
		}
	}

	template <typename F> void withShape(int shape, int v, F f)
	{
		switch(shape) {
		case S_NONE: f(); break;
		case S_INT: f(v); break;
		case S_SHORT: f((short)v); break;
		case S_DOUBLE: f((double)v + 0.25); break;
		case S_CSTR: { const std::string s = strOf(v); f(s.c_str()); break; }
		case S_STRING: f(strOf(v)); break;
		case S_TR_INT: { Tr t(3000, v); f(t, v + 5); break; }
		default: f(Big(3001, v)); break;
		}
	}

	struct Invoker
	{
		Obj & o; int k;
		Invoker(Obj & o_, int k_) : o(o_), k(k_) {}
		template <typename ...A> void operator() (A && ...a) const { FaultArm arm; B::invoke(o, k, std::forward<A>(a)...); }
	};
	struct Enqueuer
	{
		Obj & o; int k;
		Enqueuer(Obj & o_, int k_) : o(o_), k(k_) {}
		template <typename ...A> void operator() (A && ...a) const { FaultArm arm; QOps<B>::enqueue(o, k, std::forward<A>(a)...); }
	};

	std::string renderTrace() const
	{
		std::ostringstream o;
		for(size_t i = 0; i < trace.size(); ++i) o << (i ? " " : "") << "cb" << trace[i].cb << "/p" << trace[i].proto << "(" << trace[i].a << "," << trace[i].b << ")";
		return o.str();
	}
	std::string renderPending(int o) const
	{
		std::ostringstream s;
		for(size_t i = 0; i < pending[o].size(); ++i) s << (i ? " " : "") << "e" << pending[o][i].id << "/p" << pending[o][i].proto;
		return s.str();
	}

	// expected calls when event e (shape, v) is dispatched on (o, key)
	void expectDispatch(std::vector<Call> & want, int o, int key, int shape, int v) const
	{
		const int proto = kShapeProto[shape];
		long a, b; canonArgs(shape, v, a, b);
		const std::vector<int> & l = lists[o][key][proto];
		for(size_t i = 0; i < l.size(); ++i) { Call c; c.cb = l[i]; c.proto = proto; c.a = a; c.b = b; want.push_back(c); }
	}
	bool compareTrace(const std::vector<Call> & want, bool prefixOnly, const char * what)
	{
		const size_t n = prefixOnly ? trace.size() : want.size();
		bool ok = prefixOnly ? trace.size() <= want.size() : trace.size() == want.size();
		for(size_t i = 0; ok && i < n; ++i) {
			const Call & w = want[i]; const Call & g = trace[i];
			// a callback that accepts anything (variadic) reports its own arity code; it is bound to prototype 0 and must be called with no argument
			if(w.cb != g.cb || w.proto != g.proto || w.a != g.a || w.b != g.b) ok = false;
		}
		if(!ok) {
			std::ostringstream o;
			for(size_t i = 0; i < want.size(); ++i) o << (i ? " " : "") << "cb" << want[i].cb << "/p" << want[i].proto << "(" << want[i].a << "," << want[i].b << ")";
			viol.raise("wrong-callbacks", std::string(what) + ": the callbacks invoked were [" + renderTrace() + "] but the model expects [" + o.str() + "]");
		}
		return ok;
	}

	template <typename K> Handle addKind(int o, int k, int how, int cb, const Handle & before)
	{
		K f(cb);
		FaultArm arm;
		return B::add(real(o), k, how, f, before);
	}

	void killSlotsOf(int o) { for(int s = 0; s < MAXSLOT; ++s) if(slotUsed[s] && slotObj[s] == o) slotObj[s] = -1; }
	void clearModel(int o) { for(int k = 0; k < NKEY; ++k) for(int p = 0; p < NPROTO; ++p) lists[o][k][p].clear(); }
	void copyModel(int dst, int src) { for(int k = 0; k < NKEY; ++k) for(int p = 0; p < NPROTO; ++p) lists[dst][k][p] = lists[src][k][p]; }

	void construct(int o, int src, bool move)
	{
		store[o].fill(plan.user(U_FILL) == 4 ? (int)fillRng.below(4) : plan.user(U_FILL), fillRng);   // its own stream: the fill pattern must not influence any other choice
		++counters.dirtyConstructions;
		{
			FaultArm arm;
			if(src < 0) new (store[o].ptr()) Obj();
			else if(move) new (store[o].ptr()) Obj(std::move(real(src)));
			else new (store[o].ptr()) Obj(real(src));
		}
		store[o].alive = true;
		pending[o].clear();
		clearModel(o);
		if(src >= 0) {
			copyModel(o, src);
			if(move) { clearModel(src); for(int s = 0; s < MAXSLOT; ++s) if(slotUsed[s] && slotObj[s] == src) slotObj[s] = o; }
		}
	}
	void destroy(int o)
	{
		real(o).~Obj();
		store[o].alive = false;
		killSlotsOf(o);
		pending[o].clear();
		clearModel(o);
	}

	void doOp(const Op & op)
	{
		if(viol.set) return;
		const int o = objOf(op), k = keyOf(op);
		log((uint64_t)op.k * 1000003 + (uint64_t)(uint32_t)op.a * 31 + (uint64_t)(uint32_t)op.c * 7 + (uint64_t)(uint32_t)op.d);
		trace.clear();
		switch(op.k) {
		case O_APPEND: case O_PREPEND: case O_INSERT: {
			if(!aliveObj(o)) return;
			const int cb = op.a;
			if(cb < 0 || cb >= MAXSLOT - 2 || slotUsed[cb]) return;
			const int kind = (((op.c & 15) % NKIND) + NKIND) % NKIND;
			const int follow = (op.c >> 4) & 15;   // 0: none, else 1 + shape of an event this callback enqueues when first invoked from a processing call
			const int proto = kKindProto[kind];
			int before = op.b;
			if(before < 0 || before >= MAXSLOT) before = MAXSLOT - 1;
			const int how = op.k == O_APPEND ? 0 : op.k == O_PREPEND ? 1 : 2;
			bool beforePresent = false;
			if(how == 2) {
				if(slotUnusable[before]) return;
				// a handle of another object / another key's list is documented misuse; a handle of another PROTOTYPE of the same list appends
				if(slotUsed[before] && slotObj[before] >= 0 && !(slotObj[before] == o && slotKey[before] == k)) return;
				beforePresent = slotUsed[before] && slotObj[before] == o && slotKey[before] == k && slotProto[before] == proto;
			}
			++counters.kindCounts[kind];
			Handle h;
			switch(kind) {
			case 0: h = addKind<K0>(o, k, how, cb, handles[before]); break;
			case 1: h = addKind<K1>(o, k, how, cb, handles[before]); break;
			case 2: h = addKind<K2>(o, k, how, cb, handles[before]); break;
			case 3: h = addKind<K3>(o, k, how, cb, handles[before]); break;
			case 4: h = addKind<K4>(o, k, how, cb, handles[before]); break;
			case 5: h = addKind<K5>(o, k, how, cb, handles[before]); break;
			case 6: h = addKind<K6>(o, k, how, cb, handles[before]); break;
			case 7: h = addKind<K7>(o, k, how, cb, handles[before]); break;
			default: h = addKind<K8>(o, k, how, cb, handles[before]); break;
			}
			slotUsed[cb] = true; slotObj[cb] = o; slotKey[cb] = k; slotProto[cb] = proto; handles[cb] = h;
			cbFollow[cb] = B::hasQueue ? follow : 0;
			std::vector<int> & l = lists[o][k][proto];
			if(how == 1) l.insert(l.begin(), cb);
			else if(how == 2 && beforePresent) l.insert(std::find(l.begin(), l.end(), before), cb);
			else l.push_back(cb);
			break;
		}
		case O_REMOVE: {
			if(!aliveObj(o)) return;
			int slot = op.b;
			if(slot < 0 || slot >= MAXSLOT) slot = MAXSLOT - 1;
			if(slotUnusable[slot]) return;
			if(slotUsed[slot] && slotObj[slot] >= 0 && !(slotObj[slot] == o && slotKey[slot] == k)) return;
			if(!slotUsed[slot]) {
				// a DEFAULT-INITIALISED handle in storage that held arbitrary bytes: it is an empty handle, remove must answer false
				// whatever the storage held before (its prototype index must not be read from uninitialised memory)
				seq::DirtyStorage<Handle> hs;
				hs.fill(0, fillRng);
				Handle * hp = new (hs.ptr()) Handle;
				bool got;
				{ FaultArm arm; got = B::remove(real(o), k, *hp); }
				hp->~Handle();
				++counters.defaultHandleRemoves;
				if(got) viol.raise("remove-result", "remove through a default-initialised handle returned true");
				break;
			}
			const bool expected = slotObj[slot] == o && slotKey[slot] == k;
			bool got;
			{ FaultArm arm; got = B::remove(real(o), k, handles[slot]); }
			if(expected) { std::vector<int> & l = lists[o][k][slotProto[slot]]; l.erase(std::find(l.begin(), l.end(), slot)); slotObj[slot] = -1; }
			if(got != expected) viol.raise("remove-result", "remove of callback " + std::to_string(slot) + " returned " + (got ? "true" : "false"));
			break;
		}
		case O_EMPTY: {
			if(!aliveObj(o)) return;
			bool got;
			{ FaultArm arm; got = B::isEmpty(real(o), k); }
			bool expected = true;
			for(int p = 0; p < NPROTO; ++p) if(!lists[o][k][p].empty()) expected = false;
			if(got != expected) viol.raise("empty-result", std::string("empty()/hasAnyListener disagrees with the model: got empty=") + (got ? "true" : "false"));
			break;
		}
		case O_FOREACH: {
			if(!aliveObj(o)) return;
			const int p = ((op.a % NPROTO) + NPROTO) % NPROTO;
			std::vector<int> seen;
			enumerate(o, k, p, seen);
			if(seen != lists[o][k][p]) viol.raise("content-mismatch", "forEach<prototype " + std::to_string(p) + "> enumerates " + seq::join(seen) + " but the model holds " + seq::join(lists[o][k][p]));
			break;
		}
		case O_INVOKE: {
			if(!aliveObj(o)) return;
			const int shape = ((op.c % S_COUNT) + S_COUNT) % S_COUNT;
			const int v = 100 + (op.a % 5000);
			++counters.invocations; ++counters.shapeCounts[shape];
			std::vector<Call> want;
			expectDispatch(want, o, k, shape, v);
			try { withShape(shape, v, Invoker(real(o), k)); }
			catch(...) { compareTrace(want, true, "invocation aborted by an exception"); throw; }
			compareTrace(want, false, "invocation");
			break;
		}
		case O_ENQ: {
			if(!aliveObj(o) || !B::hasQueue) return;
			const int shape = ((op.c % S_COUNT) + S_COUNT) % S_COUNT;
			const int id = nextEvId++;
			withShape(shape, id, Enqueuer(real(o), k));
			MEv e; e.id = id; e.key = k; e.shape = shape; e.proto = kShapeProto[shape];
			pending[o].push_back(e);
			++counters.enqueued; ++counters.shapeCounts[shape];
			break;
		}
		case O_PROCESS: case O_PROCESS_ONE: {
			if(!aliveObj(o) || !B::hasQueue) return;
			std::vector<MEv> batch;
			if(op.k == O_PROCESS_ONE) { if(!pending[o].empty()) { batch.push_back(pending[o].front()); pending[o].erase(pending[o].begin()); } }
			else { batch.swap(pending[o]); }
			std::vector<Call> want;
			for(size_t i = 0; i < batch.size(); ++i) expectDispatch(want, o, batch[i].key, batch[i].shape, batch[i].id);
			bool got = false;
			inProc = o;
			try { FaultArm arm; got = op.k == O_PROCESS ? QOps<B>::process(real(o)) : QOps<B>::processOne(real(o)); }
			catch(...) { inProc = -1; compareTrace(want, true, "processing aborted by an exception"); throw; }
			inProc = -1;
			counters.dispatched += batch.size();
			if(!compareTrace(want, false, op.k == O_PROCESS ? "process" : "processOne")) return;
			if(got != !batch.empty()) viol.raise("process-result", std::string("process/processOne returned ") + (got ? "true" : "false") + " with " + std::to_string(batch.size()) + " event(s) taken");
			break;
		}
		case O_PROCESS_IF: {
			if(!aliveObj(o) || !B::hasQueue) return;
			const int pk = ((op.c % NPRED) + NPRED) % NPRED;
			++counters.predCounts[pk];
			predMask = op.a; predAsked.clear();
			const int pproto = kPredProto[pk];
			std::vector<MEv> batch; batch.swap(pending[o]);
			// model: which events the predicate is asked about, which are dispatched, which stay
			std::vector<Call> want;
			std::vector<MEv> kept;
			std::vector<long> wantAsked;
			bool any = false;
			if(pproto >= 0) {
				long asked = 0;
				for(size_t i = 0; i < batch.size(); ++i) {
					const MEv & e = batch[i];
					if(e.proto != pproto) { kept.push_back(e); ++counters.processIfForeignUntouched; continue; }
					++asked;
					long a, b; canonArgs(e.shape, e.id, a, b);
					wantAsked.push_back(pproto * 1000000L + (pproto == 0 ? 0 : a));
					long key = pproto > 0 ? a : asked;
					if(pproto == 2) key = asked;
					if((predMask >> (key & 7)) & 1) { expectDispatch(want, o, e.key, e.shape, e.id); any = true; }
					else { kept.push_back(e); ++counters.declined; }
				}
			}
			bool got = false;
			inProc = o;
			try {
				FaultArm arm;
				switch(pk) {
				case 0: { P0 p; p.mask = op.a; got = QOps<B>::processIf(real(o), p); break; }
				case 1: { P1 p; p.mask = op.a; got = QOps<B>::processIf(real(o), p); break; }
				case 2: { P2 p; p.mask = op.a; got = QOps<B>::processIf(real(o), p); break; }
				case 3: { P3 p; p.mask = op.a; got = QOps<B>::processIf(real(o), p); break; }
				case 4: { P4 p; p.mask = op.a; got = QOps<B>::processIf(real(o), p); break; }
				case 5: { P5 p; p.mask = op.a; got = QOps<B>::processIf(real(o), p); break; }
				default: { P6 p; p.mask = op.a; got = QOps<B>::processIf(real(o), p); break; }
				}
			}
			catch(...) {
				// exactly the events the call had taken out are gone
				inProc = -1;
				throw;
			}
			inProc = -1;
			if(pproto >= 0) {
				if(predAsked != wantAsked) { viol.raise("processIf-examined-wrong-events", "processIf with a predicate of prototype " + std::to_string(pproto) + " asked about " + std::to_string(predAsked.size()) + " event(s) but exactly the "
					+ std::to_string(wantAsked.size()) + " queued event(s) of that prototype must be examined; batch: " + renderBatch(batch)); return; }
				if(!compareTrace(want, false, "processIf")) return;
				if(got != any) { viol.raise("process-result", std::string("processIf returned ") + (got ? "true" : "false") + " but it " + (any ? "dispatched" : "dispatched nothing")); return; }
				// what the predicate left goes back ahead of what was enqueued while the call ran
				kept.insert(kept.end(), pending[o].begin(), pending[o].end());
				pending[o] = kept;
			}
			else {
				// A predicate callable with several prototypes: the statement leaves open which events it is asked about once one was
				// dispatched. Required: every event is consumed exactly once, with intact arguments. Drain the queue and
				// compare, per prototype, the callbacks invoked by processIf + drain with the model's expectation.
				std::vector<Call> first = trace;
				trace.clear();
				{
					// drain: the batch's left-overs plus whatever listeners enqueued meanwhile (checked as ordinary events)
					std::vector<MEv> newer; newer.swap(pending[o]);
					FaultArm arm;
					QOps<B>::process(real(o));
					for(size_t i = 0; i < newer.size(); ++i) batch.push_back(newer[i]);
				}
				first.insert(first.end(), trace.begin(), trace.end());
				for(int p = 0; p < NPROTO && !viol.set; ++p) {
					std::vector<Call> wantP, gotP;
					for(size_t i = 0; i < batch.size(); ++i) if(batch[i].proto == p) expectDispatch(wantP, o, batch[i].key, batch[i].shape, batch[i].id);
					for(size_t i = 0; i < first.size(); ++i) if(first[i].proto == p) gotP.push_back(first[i]);
					// a declining predicate legitimately lets later events overtake earlier ones: compare as multisets (exactly once, intact)
					std::sort(wantP.begin(), wantP.end(), &Interp::callLess);
					std::sort(gotP.begin(), gotP.end(), &Interp::callLess);
					trace = gotP;
					compareTrace(wantP, false, "processIf with a multi-prototype predicate followed by a drain");
				}
				counters.dispatched += batch.size();
			}
			break;
		}
		case O_CLEAR: {
			if(!aliveObj(o) || !B::hasQueue) return;
			{ FaultArm arm; QOps<B>::clear(real(o)); }
			pending[o].clear();
			bool othersHold = false;   // payload instances are not attributed to queues here: check only when no other queue holds events
			for(int i = 0; i < MAXOBJ; ++i) if(i != o && store[i].alive && !pending[i].empty()) othersHold = true;
			if(!othersHold && (ledger().liveOfType(seq::T_BIG) != 0 || ledger().liveOfType(seq::T_PAY) != 0)) viol.raise("cleared-argument-still-alive", "clearEvents returned but arguments of cleared events are still alive");
			break;
		}
		case O_EMPTYQ: {
			if(!aliveObj(o) || !B::hasQueue) return;
			bool got;
			{ FaultArm arm; got = QOps<B>::emptyQueue(real(o)); }
			if(got != pending[o].empty()) viol.raise("emptyQueue-result", std::string("emptyQueue() returned ") + (got ? "true" : "false") + " with pending [" + renderPending(o) + "]");
			break;
		}
		case O_CREATE: {
			if(aliveObj(o)) return;
			construct(o, -1, false);
			break;
		}
		case O_COPY_CONSTRUCT: case O_MOVE_CONSTRUCT: {
			const int src = op.a % MAXOBJ;
			if(aliveObj(o) || !aliveObj(src)) return;
			++counters.poolOps;
			construct(o, src, op.k == O_MOVE_CONSTRUCT);
			break;
		}
		case O_COPY_ASSIGN: case O_MOVE_ASSIGN: {
			const int src = op.a % MAXOBJ;
			if(!aliveObj(o) || !aliveObj(src)) return;
			if(op.k == O_MOVE_ASSIGN && src == o) return;
			++counters.poolOps;
			if(op.k == O_COPY_ASSIGN) {
				try { FaultArm arm; real(o) = real(src); }
				catch(...) { if(B::hasKeys) adoptAfterFailedAssign(o); throw; }
				if(src != o) { killSlotsOf(o); copyModel(o, src); }
			}
			else {
				{ FaultArm arm; real(o) = std::move(real(src)); }
				killSlotsOf(o);
				for(int s = 0; s < MAXSLOT; ++s) if(slotUsed[s] && slotObj[s] == src) slotObj[s] = o;
				copyModel(o, src); clearModel(src);
			}
			break;
		}
		case O_SWAP: {
			const int other = op.a % MAXOBJ;
			if(!aliveObj(o) || !aliveObj(other)) return;
			++counters.poolOps;
			{ FaultArm arm; if(op.b == 1 && other != o) B::adlSwap(real(o), real(other)); else real(o).swap(real(other)); }
			if(other != o) {
				for(int s = 0; s < MAXSLOT; ++s) if(slotUsed[s]) { if(slotObj[s] == o) slotObj[s] = other; else if(slotObj[s] == other) slotObj[s] = o; }
				for(int kk = 0; kk < NKEY; ++kk) for(int p = 0; p < NPROTO; ++p) lists[o][kk][p].swap(lists[other][kk][p]);
			}
			break;
		}
		case O_DESTROY: {
			if(!aliveObj(o)) return;
			int n = 0;
			for(int i = 0; i < MAXOBJ; ++i) if(store[i].alive) ++n;
			if(n <= 1) return;
			++counters.poolOps;
			destroy(o);
			break;
		}
		default: break;
		}
	}

	static bool callLess(const Call & x, const Call & y)
	{
		if(x.a != y.a) return x.a < y.a;
		if(x.b != y.b) return x.b < y.b;
		return x.cb < y.cb;
	}

	std::string renderBatch(const std::vector<MEv> & b) const
	{
		std::ostringstream s;
		for(size_t i = 0; i < b.size(); ++i) s << (i ? " " : "") << "e" << b[i].id << "/p" << b[i].proto;
		return s.str();
	}

	bool weakPending[MAXOBJ];

	unsigned enumCalls = 0;
	void enumerate(int o, int k, int p, std::vector<int> & seen)
	{
		switch(p) {
		case 0: B::template forEach<void ()>(real(o), k, Enum<std::function<void ()> >(seen)); break;
		case 1: B::template forEach<void (int)>(real(o), k, Enum<std::function<void (int)> >(seen)); break;
		case 2: B::template forEach<void (const std::string &)>(real(o), k, Enum<std::function<void (const std::string &)> >(seen)); break;
		case 3: B::template forEach<void (const Tr &, int)>(real(o), k, Enum<std::function<void (const Tr &, int)> >(seen)); break;
		case 4: B::template forEach<void (Big)>(real(o), k, Enum<std::function<void (Big)> >(seen)); break;
		default: return; // forEach<void (double)> itself resolves to the first prototype void (double) can be called with, void (int): nothing separate to enumerate
		}
		// every other enumeration is repeated with forEachIf stopping after limit + 1 callbacks: a prefix of what forEach saw, and false iff it was stopped
		if((++enumCalls & 1) == 0) return;
		const size_t limit = (enumCalls >> 1) % 4;
		std::vector<int> part;
		bool r = true;
		switch(p) {
		case 0: r = B::template forEachIf<void ()>(real(o), k, EnumIf<std::function<void ()> >(part, limit)); break;
		case 1: r = B::template forEachIf<void (int)>(real(o), k, EnumIf<std::function<void (int)> >(part, limit)); break;
		case 2: r = B::template forEachIf<void (const std::string &)>(real(o), k, EnumIf<std::function<void (const std::string &)> >(part, limit)); break;
		case 3: r = B::template forEachIf<void (const Tr &, int)>(real(o), k, EnumIf<std::function<void (const Tr &, int)> >(part, limit)); break;
		case 4: r = B::template forEachIf<void (Big)>(real(o), k, EnumIf<std::function<void (Big)> >(part, limit)); break;
		default: break;
		}
		std::vector<int> expect(seen.begin(), seen.begin() + (long)std::min(seen.size(), limit + 1));
		if(part != expect || r != (seen.size() <= limit))
			viol.raise("forEachIf-mismatch", "forEachIf<prototype " + std::to_string(p) + "> stopping after " + std::to_string(limit + 1) + " visited " + seq::join(part) + " and returned " + (r ? "true" : "false") + "; forEach enumerates " + seq::join(seen));
	}
	template <typename Fn>
	struct Enum
	{
		std::vector<int> & seen;
		explicit Enum(std::vector<int> & s) : seen(s) {}
		void operator() (const Fn & cb) const
		{
			FaultOff off;
			int id = -99;
			if(const K0 * f = cb.template target<K0>()) id = f->id;
			else if(const K1 * f = cb.template target<K1>()) id = f->id;
			else if(const K2 * f = cb.template target<K2>()) id = f->id;
			else if(const K3 * f = cb.template target<K3>()) id = f->id;
			else if(const K4 * f = cb.template target<K4>()) id = f->id;
			else if(const K5 * f = cb.template target<K5>()) id = f->id;
			else if(const K6 * f = cb.template target<K6>()) id = f->id;
			else if(const K7 * f = cb.template target<K7>()) id = f->id;
			else if(const K8 * f = cb.template target<K8>()) id = f->id;
			seen.push_back(id);
		}
	};

	template <typename Fn>
	struct EnumIf
	{
		Enum<Fn> e; std::vector<int> & part; size_t limit;
		EnumIf(std::vector<int> & s, size_t l) : e(s), part(s), limit(l) {}
		bool operator() (const Fn & cb) const { e(cb); return part.size() <= limit; }
	};

	void adoptAfterFailedAssign(int o)
	{
		FaultOff off;
		for(int s = 0; s < MAXSLOT; ++s) if(slotUsed[s] && slotObj[s] == o) { slotUnusable[s] = true; slotObj[s] = -1; }
		for(int k = 0; k < nKeys; ++k) for(int p = 0; p < NPROTO; ++p) { lists[o][k][p].clear(); enumerate(o, k, p, lists[o][k][p]); }
	}

	void observe(const char * when)
	{
		if(viol.set) return;
		for(int o = 0; o < MAXOBJ && !viol.set; ++o) {
			if(!store[o].alive) continue;
			for(int k = 0; k < nKeys && !viol.set; ++k) for(int p = 0; p < NPROTO && !viol.set; ++p) {
				std::vector<int> seen;
				enumerate(o, k, p, seen);
				if(seen != lists[o][k][p]) viol.raise("content-mismatch", std::string(when) + ": obj" + std::to_string(o) + "/key" + std::to_string(k) + "/prototype" + std::to_string(p) + " enumerates " + seq::join(seen) + " but should hold " + seq::join(lists[o][k][p]));
				for(size_t i = 0; i < seen.size(); ++i) log((uint64_t)seen[i] + 55);
			}
			if(B::hasQueue && !viol.set && !weakPending[o]) {
				const bool e = QOps<B>::emptyQueue(real(o));
				if(e != pending[o].empty()) viol.raise("emptyQueue-result", std::string(when) + ": emptyQueue() is " + (e ? "true" : "false") + " with pending [" + renderPending(o) + "] and no call in progress");
			}
		}
		if(ledger().hasError()) viol.raise(ledger().errorClass, ledger().error);
	}

	void execute(const std::vector<int> & faults)
	{
		FaultCtl & fc = faultCtl();
		fc.countdown = 0; fc.passed = 0; fc.lastFired = -1;
		ledger().reset();
		for(int o = 0; o < MAXOBJ; ++o) store[o].alive = false;
		const int nObj = std::max(1, std::min((int)MAXOBJ, plan.user(U_OBJECTS)));
		for(int o = 0; o < nObj; ++o) construct(o, -1, false);
		const OpList none;
		const OpList & ops = plan.tasks.empty() ? none : plan.tasks[0];
		passedPerOp.assign(ops.size(), 0);
		for(size_t i = 0; i < ops.size() && !viol.set; ++i) {
			long arm = 0;
			for(size_t f = 0; f + 1 < faults.size(); f += 2) if(faults[f] == (int)i) arm = faults[f + 1];
			fc.countdown = arm; fc.lastFired = -1;
			const long before = fc.passed;
			bool threw = false;
			try { ++counters.ops; doOp(ops[i]); }
			catch(const InjectedFault &) { threw = true; }
			catch(const std::bad_alloc &) { threw = true; }
			passedPerOp[i] = fc.passed - before;
			const bool fired = fc.lastFired >= 0;
			fc.countdown = 0;
			if(threw && !fired) viol.raise("unexpected-exception", "operation " + std::to_string(i) + " threw although no fault was injected");
			if(fired && !threw) viol.raise("fault-swallowed", "a fault was injected into operation " + std::to_string(i) + " but the call returned normally");
			if(fired) {
				++counters.opsFailedByFault;
				// a processing call that threw: the events it had taken out are gone (they were removed from the model before the call)
			}
			observe(threw ? "after a failed operation" : "after an operation");
		}
		if(viol.set) return;
		// final drain through the listeners: every pending event is consumed exactly once, in order
		for(int o = 0; o < MAXOBJ && !viol.set; ++o) {
			if(!store[o].alive || !B::hasQueue || weakPending[o]) continue;
			doOp(Op(O_PROCESS, 0, 0, 0, o * 4));
			observe("after the final drain");
		}
		if(viol.set) return;
		for(int o = 0; o < MAXOBJ; ++o) if(store[o].alive) destroy(o);
		for(int s = 0; s < MAXSLOT; ++s) handles[s] = Handle();
		if(ledger().hasError()) viol.raise(ledger().errorClass, ledger().error);
		else if(ledger().liveTotal() != 0) viol.raise("leak", "after destroying every container " + std::to_string(ledger().liveTotal()) + " tracked object(s) are still alive");
	}
};


// ---------------------------------------------------------------- ArgumentPassingIncludeEvent: the event is the first argument itself
// HeterEventQueue<std::string, {void(std::string), void(std::string, int), void(std::string, const Tr &)}>: dispatch and enqueue with
// the key supplied as lvalue, temporary and moved local; every callback must receive the key and the other argument intact.
struct PolInclude { typedef eventpp::ArgumentPassingIncludeEvent ArgumentPassingMode; };
typedef eventpp::HeterTuple<void (std::string), void (std::string, int), void (std::string, const Tr &)> IncProtos;

inline std::string incKey(int i) { return "event-key-" + std::to_string(i) + std::string(24 + (size_t)i * 5, 'k'); }

struct IK0 : FBase { explicit IK0(int id) : FBase(id) {} void operator() (std::string s) const { rep(0, strHash(s), 0); } };
struct IK1 : FBase { explicit IK1(int id) : FBase(id) {} void operator() (const std::string & s, int a) const { rep(1, strHash(s), a); } };
struct IK2 : FBase { explicit IK2(int id) : FBase(id) {} void operator() (std::string s, const Tr & t) const { rep(2, strHash(s), trCanon(t)); } };

// the same with a user getEvent policy that takes the event BY VALUE: obtaining the event must not move the caller's argument away
struct PolIncludeByValue
{
	typedef eventpp::ArgumentPassingIncludeEvent ArgumentPassingMode;
	template <typename ...A> static std::string getEvent(std::string e, const A & ...) { return e; }
};

template <typename POL>
struct IncTraitsT
{
	typedef eventpp::HeterEventQueue<std::string, IncProtos, POL> Q;
	enum { nproto = 3 };
	static typename Q::Handle add(Q & q, int key, int proto, int cb, bool prepend)
	{
		const std::string k = incKey(key);
		if(proto == 0) { IK0 f(cb); return prepend ? q.prependListener(k, f) : q.appendListener(k, f); }
		if(proto == 1) { IK1 f(cb); return prepend ? q.prependListener(k, f) : q.appendListener(k, f); }
		IK2 f(cb); return prepend ? q.prependListener(k, f) : q.appendListener(k, f);
	}
	static bool remove(Q & q, int key, const typename Q::Handle & h) { return q.removeListener(incKey(key), h); }
	// form: 0 the key is an lvalue, 1 a temporary, 2 a moved local
	static void call(Q * q, bool enqueue, int key, int proto, int v, int form)
	{
		std::string k = incKey(key);
		if(proto == 0) {
			if(enqueue) { if(form == 0) q->enqueue(k); else if(form == 1) q->enqueue(incKey(key)); else q->enqueue(std::move(k)); }
			else { if(form == 0) q->dispatch(k); else if(form == 1) q->dispatch(incKey(key)); else q->dispatch(std::move(k)); }
		}
		else if(proto == 1) {
			if(enqueue) { if(form == 0) q->enqueue(k, v); else if(form == 1) q->enqueue(incKey(key), v + 0); else q->enqueue(std::move(k), v); }
			else { if(form == 0) q->dispatch(k, v); else if(form == 1) q->dispatch(incKey(key), v + 0); else q->dispatch(std::move(k), v); }
		}
		else {
			Tr t(3000, v);
			if(enqueue) { if(form == 0) q->enqueue(k, t); else if(form == 1) q->enqueue(incKey(key), Tr(3000, v)); else q->enqueue(std::move(k), std::move(t)); }
			else { if(form == 0) q->dispatch(k, t); else if(form == 1) q->dispatch(incKey(key), Tr(3000, v)); else q->dispatch(std::move(k), t); }
		}
	}
	static long expectA(int key, int, int) { return strHash(incKey(key)); }
	static long expectB(int, int proto, int v) { return proto == 0 ? 0 : v; }
	static const char * what() { return "(event included in the arguments)"; }
};
typedef IncTraitsT<PolInclude> IncTraits;
typedef IncTraitsT<PolIncludeByValue> IncByValueTraits;

// ---------------------------------------------------------------- prototypes that differ only in how they take the same type
// HeterEventQueue<int, {void(int &), void(int)}>: an lvalue argument selects the first prototype, an rvalue the second (the first is not
// callable with it). enqueue stores a decayed copy; the event must still reach the callbacks of the prototype selected by the CALLER'S
// argument types - selecting again from the stored type at processing time gives the other prototype.
typedef eventpp::HeterTuple<void (int &), void (int)> RefProtos;
struct RK0 : FBase { explicit RK0(int id) : FBase(id) {} void operator() (int & a) const { rep(0, a, 0); } };
struct RK1 : FBase { explicit RK1(int id) : FBase(id) {} void operator() (int && a) const { rep(1, a, 0); } };   // callable with an rvalue only: bound to void(int)
struct RefTraits
{
	typedef eventpp::HeterEventQueue<int, RefProtos> Q;
	enum { nproto = 2 };
	static Q::Handle add(Q & q, int key, int proto, int cb, bool prepend)
	{
		if(proto == 0) { RK0 f(cb); return prepend ? q.prependListener(key, f) : q.appendListener(key, f); }
		RK1 f(cb); return prepend ? q.prependListener(key, f) : q.appendListener(key, f);
	}
	static bool remove(Q & q, int key, const Q::Handle & h) { return q.removeListener(key, h); }
	static void call(Q * q, bool enqueue, int key, int proto, int v, int)
	{
		int lv = v;
		if(proto == 0) { if(enqueue) q->enqueue(key, lv); else q->dispatch(key, lv); }
		else { if(enqueue) q->enqueue(key, v + 0); else q->dispatch(key, v + 0); }
	}
	static long expectA(int, int, int v) { return v; }
	static long expectB(int, int, int) { return 0; }
	static const char * what() { return "(prototypes void(int &) and void(int): lvalue arguments select the first, rvalues the second)"; }
};

template <typename TR>
struct MiniInterp : Sink
{
	typedef typename TR::Q Q;
	const Plan & plan;
	seq::Violation viol;
	Q * q;
	std::vector<int> lists[NKEY][3];
	typename Q::Handle handles[MAXSLOT];
	int slotKey[MAXSLOT], slotProto[MAXSLOT]; bool slotIn[MAXSLOT], slotUsed[MAXSLOT];
	struct PEv { int key, proto, v; };
	std::vector<PEv> pending;
	std::vector<Call> trace;
	uint64_t logHash;
	std::vector<long> passedPerOp;

	explicit MiniInterp(const Plan & p) : plan(p), q(nullptr), logHash(kHashInit)
	{
		for(int i = 0; i < MAXSLOT; ++i) { slotKey[i] = 0; slotProto[i] = 0; slotIn[i] = false; slotUsed[i] = false; handles[i] = typename Q::Handle(); }
	}
	void called(int cb, int proto, long a, long b) override
	{
		++counters.callbackCalls;
		Call c; c.cb = cb; c.proto = proto; c.a = a; c.b = b; trace.push_back(c);
		logHash = hashMix(logHash, (uint64_t)cb * 2654435761u + (uint64_t)proto * 97 + (uint64_t)a * 7 + (uint64_t)b);
	}
	bool predicate(int, int, long) override { return true; }

	void expect(std::vector<Call> & want, int key, int proto, int v) const
	{
		for(size_t i = 0; i < lists[key][proto].size(); ++i) { Call c; c.cb = lists[key][proto][i]; c.proto = proto; c.a = TR::expectA(key, proto, v); c.b = TR::expectB(key, proto, v); want.push_back(c); }
	}
	bool compare(const std::vector<Call> & want, const char * what)
	{
		bool ok = want.size() == trace.size();
		for(size_t i = 0; ok && i < want.size(); ++i) if(want[i].cb != trace[i].cb || want[i].proto != trace[i].proto || want[i].a != trace[i].a || want[i].b != trace[i].b) ok = false;
		if(!ok) {
			std::ostringstream o, g;
			for(size_t i = 0; i < want.size(); ++i) o << (i ? " " : "") << "cb" << want[i].cb << "/p" << want[i].proto << "(" << want[i].a << "," << want[i].b << ")";
			for(size_t i = 0; i < trace.size(); ++i) g << (i ? " " : "") << "cb" << trace[i].cb << "/p" << trace[i].proto << "(" << trace[i].a << "," << trace[i].b << ")";
			viol.raise("wrong-callbacks", std::string(what) + " " + TR::what() + ": the callbacks invoked were [" + g.str() + "] but the model expects [" + o.str() + "] - the event key and every argument must arrive intact");
		}
		return ok;
	}
	void call(bool enqueue, int key, int proto, int v, int form)
	{
		FaultArm arm;
		TR::call(q, enqueue, key, proto, v, form);
	}
	void doOp(const Op & op)
	{
		if(viol.set) return;
		const int key = ((op.d & 3) % NKEY);
		trace.clear();
		logHash = hashMix(logHash, (uint64_t)op.k * 1000003 + (uint64_t)(uint32_t)op.a * 31 + (uint64_t)(uint32_t)op.c * 7 + (uint64_t)(uint32_t)op.d);
		switch(op.k) {
		case O_APPEND: case O_PREPEND: case O_INSERT: {
			const int cb = op.a;
			if(cb < 0 || cb >= MAXSLOT - 2 || slotUsed[cb]) return;
			const int proto = ((op.c & 15) % 3) % TR::nproto;
			{
				FaultArm arm;
				handles[cb] = TR::add(*q, key, proto, cb, op.k == O_PREPEND);
			}
			slotUsed[cb] = true; slotIn[cb] = true; slotKey[cb] = key; slotProto[cb] = proto;
			if(op.k == O_PREPEND) lists[key][proto].insert(lists[key][proto].begin(), cb); else lists[key][proto].push_back(cb);
			break;
		}
		case O_REMOVE: {
			int slot = op.b;
			if(slot < 0 || slot >= MAXSLOT || !slotUsed[slot]) return;
			const bool expected = slotIn[slot];
			bool got;
			{ FaultArm arm; got = TR::remove(*q, slotKey[slot], handles[slot]); }
			if(expected) { std::vector<int> & l = lists[slotKey[slot]][slotProto[slot]]; l.erase(std::find(l.begin(), l.end(), slot)); slotIn[slot] = false; }
			if(got != expected) viol.raise("remove-result", "removeListener returned " + std::string(got ? "true" : "false"));
			break;
		}
		case O_INVOKE: {
			const int proto = (((op.c % 3) + 3) % 3) % TR::nproto, form = ((op.c / 8) % 3 + 3) % 3, v = 100 + (op.a % 5000);
			++counters.invocations;
			std::vector<Call> want; expect(want, key, proto, v);
			call(false, key, proto, v, form);
			compare(want, "dispatch");
			break;
		}
		case O_ENQ: {
			const int proto = (((op.c % 3) + 3) % 3) % TR::nproto, form = ((op.c / 8) % 3 + 3) % 3, v = 100 + (op.a % 5000);
			call(true, key, proto, v, form);
			PEv e; e.key = key; e.proto = proto; e.v = v; pending.push_back(e);
			++counters.enqueued;
			break;
		}
		case O_PROCESS: case O_PROCESS_ONE: {
			std::vector<PEv> batch;
			if(op.k == O_PROCESS_ONE) { if(!pending.empty()) { batch.push_back(pending.front()); pending.erase(pending.begin()); } }
			else batch.swap(pending);
			std::vector<Call> want;
			for(size_t i = 0; i < batch.size(); ++i) expect(want, batch[i].key, batch[i].proto, batch[i].v);
			bool got;
			{ FaultArm arm; got = op.k == O_PROCESS ? q->process() : q->processOne(); }
			counters.dispatched += batch.size();
			if(!compare(want, "process")) return;
			if(got != !batch.empty()) viol.raise("process-result", "process/processOne returned the wrong result");
			break;
		}
		case O_EMPTYQ: {
			bool got;
			{ FaultArm arm; got = q->emptyQueue(); }
			if(got != pending.empty()) viol.raise("emptyQueue-result", "emptyQueue() disagrees with the model");
			break;
		}
		default: break;
		}
	}
	void execute(const std::vector<int> & faults)
	{
		FaultCtl & fc = faultCtl();
		fc.countdown = 0; fc.passed = 0; fc.lastFired = -1;
		ledger().reset();
		q = new Q();
		const OpList none;
		const OpList & ops = plan.tasks.empty() ? none : plan.tasks[0];
		passedPerOp.assign(ops.size(), 0);
		for(size_t i = 0; i < ops.size() && !viol.set; ++i) {
			long arm = 0;
			for(size_t f = 0; f + 1 < faults.size(); f += 2) if(faults[f] == (int)i) arm = faults[f + 1];
			fc.countdown = arm; fc.lastFired = -1;
			const long before = fc.passed;
			bool threw = false;
			try { ++counters.ops; doOp(ops[i]); }
			catch(const InjectedFault &) { threw = true; }
			catch(const std::bad_alloc &) { threw = true; }
			passedPerOp[i] = fc.passed - before;
			const bool fired = fc.lastFired >= 0;
			fc.countdown = 0;
			if(threw && !fired) viol.raise("unexpected-exception", "an operation threw although no fault was injected");
			if(fired && !threw) viol.raise("fault-swallowed", "a fault was injected but the call returned normally");
			if(fired) ++counters.opsFailedByFault;
			if(ledger().hasError()) viol.raise(ledger().errorClass, ledger().error);
		}
		if(viol.set) return;
		doOp(Op(O_PROCESS));
		if(viol.set) return;
		delete q; q = nullptr;
		for(int s2 = 0; s2 < MAXSLOT; ++s2) handles[s2] = typename Q::Handle();
		if(ledger().liveTotal() != 0) viol.raise("leak", "tracked objects alive after destruction");
	}
};

template <typename B>
void runBox(const Plan & plan, RunOut & out)
{
	const bool faultMode = engine::mode == "c09";
	struct One
	{
		static void run(const Plan & plan, const std::vector<int> & faults, RunOut & out, std::vector<long> * passed, uint64_t * lh)
		{
			Interp<B> * in = new Interp<B>(plan);
			g_sink = in;
			in->execute(faults);
			if(in->viol.set) out.fail(in->viol.cls, in->viol.detail);
			if(passed) *passed = in->passedPerOp;
			if(lh) *lh = in->logHash;
			g_sink = nullptr;
			if(!out.violation) delete in;
		}
	};
	std::vector<long> passed;
	uint64_t lh = 0;
	long subRuns = 1;
	One::run(plan, plan.faults, out, &passed, &lh);
	out.logHash = lh;
	if(faultMode && plan.faults.empty() && !out.violation) {
		for(size_t i = 0; i < passed.size() && !out.violation; ++i) {
			for(long k = 1; k <= passed[i] && !out.violation; ++k) {
				std::vector<int> f; f.push_back((int)i); f.push_back((int)k);
				RunOut sub;
				One::run(plan, f, sub, nullptr, nullptr);
				++subRuns; ++counters.faultRuns;
				if(sub.violation) { out.fail(sub.cls, sub.detail); out.faults = f; }
			}
		}
	}
	for(int kd = 0; kd < F_KINDS; ++kd) { counters.faultsByKind[kd] += (uint64_t)faultCtl().firedKind[kd]; counters.faultsInjected += (uint64_t)faultCtl().firedKind[kd]; faultCtl().firedKind[kd] = 0; }
	out.subRuns = subRuns;
	out.steps = (long)(plan.tasks.empty() ? 0 : plan.tasks[0].size());
	uint64_t ch = kHashInit;
	if(!plan.tasks.empty()) for(size_t i = 0; i < plan.tasks[0].size(); ++i) { const Op & op = plan.tasks[0][i]; ch = hashMix(ch, (uint64_t)op.k * 131 + (uint64_t)(uint32_t)op.a * 31 + (uint64_t)(uint32_t)op.b * 17 + (uint64_t)(uint32_t)op.c * 7 + (uint64_t)(uint32_t)op.d); }
	out.caseHash = hashMix(ch, (uint64_t)plan.user(U_VARIANT));
}

template <typename TR>
inline void runMini(const Plan & plan, RunOut & out)
{
	const bool faultMode = engine::mode == "c09";
	struct One
	{
		static void run(const Plan & plan, const std::vector<int> & faults, RunOut & out, std::vector<long> * passed, uint64_t * lh)
		{
			MiniInterp<TR> * in = new MiniInterp<TR>(plan);
			g_sink = in;
			in->execute(faults);
			if(in->viol.set) out.fail(in->viol.cls, in->viol.detail);
			if(passed) *passed = in->passedPerOp;
			if(lh) *lh = in->logHash;
			g_sink = nullptr;
			if(!out.violation) delete in;
		}
	};
	std::vector<long> passed;
	uint64_t lh = 0;
	long subRuns = 1;
	One::run(plan, plan.faults, out, &passed, &lh);
	out.logHash = lh;
	if(faultMode && plan.faults.empty() && !out.violation) {
		for(size_t i = 0; i < passed.size() && !out.violation; ++i) for(long k = 1; k <= passed[i] && !out.violation; ++k) {
			std::vector<int> f; f.push_back((int)i); f.push_back((int)k);
			RunOut sub;
			One::run(plan, f, sub, nullptr, nullptr);
			++subRuns; ++counters.faultRuns;
			if(sub.violation) { out.fail(sub.cls, sub.detail); out.faults = f; }
		}
	}
	for(int kd = 0; kd < F_KINDS; ++kd) { counters.faultsByKind[kd] += (uint64_t)faultCtl().firedKind[kd]; counters.faultsInjected += (uint64_t)faultCtl().firedKind[kd]; faultCtl().firedKind[kd] = 0; }
	out.subRuns = subRuns;
	out.steps = (long)(plan.tasks.empty() ? 0 : plan.tasks[0].size());
	uint64_t ch = kHashInit;
	if(!plan.tasks.empty()) for(size_t i = 0; i < plan.tasks[0].size(); ++i) { const Op & op = plan.tasks[0][i]; ch = hashMix(ch, (uint64_t)op.k * 131 + (uint64_t)(uint32_t)op.a * 31 + (uint64_t)(uint32_t)op.b * 17 + (uint64_t)(uint32_t)op.c * 7 + (uint64_t)(uint32_t)op.d); }
	out.caseHash = hashMix(ch, (uint64_t)plan.user(U_VARIANT));
}

#if SEQ_VARIANT == 0
void runVariant0(const Plan & p, RunOut & o) { runBox<ListBox<PolDefault> >(p, o); }
#elif SEQ_VARIANT == 1
void runVariant1(const Plan & p, RunOut & o) { runBox<ListBox<PolSingle> >(p, o); }
#elif SEQ_VARIANT == 2
void runVariant2(const Plan & p, RunOut & o) { runBox<DispBox<PolDefault, false> >(p, o); }
#elif SEQ_VARIANT == 3
void runVariant3(const Plan & p, RunOut & o) { runBox<DispBox<PolDefault, true> >(p, o); }
#elif SEQ_VARIANT == 4
void runVariant4(const Plan & p, RunOut & o) { runBox<DispBox<PolSingle, true> >(p, o); }
#elif SEQ_VARIANT == 5
void runVariant5(const Plan & p, RunOut & o) { runMini<IncTraits>(p, o); }
#elif SEQ_VARIANT == 6
void runVariant6(const Plan & p, RunOut & o) { runMini<RefTraits>(p, o); }
#elif SEQ_VARIANT == 7
void runVariant7(const Plan & p, RunOut & o) { runMini<IncByValueTraits>(p, o); }
#endif

} // namespace sh
#endif // SEQ_VARIANT

#if defined(SEQ_MAIN)
namespace sh {
Sink * g_sink = nullptr;
Counters counters;
void runVariant0(const Plan &, RunOut &); void runVariant1(const Plan &, RunOut &); void runVariant2(const Plan &, RunOut &);
void runVariant3(const Plan &, RunOut &); void runVariant4(const Plan &, RunOut &); void runVariant5(const Plan &, RunOut &);
void runVariant6(const Plan &, RunOut &); void runVariant7(const Plan &, RunOut &);
}

namespace engine {

const char * const kName = "seq_heter";
std::string mode = "c14";

bool wantsPilot(const Plan &) { return false; }

void generate(uint64_t seed, Plan & plan)
{
	using namespace sh;
	Rng rng(seed);
	plan.setSchedSeed(rng.next());
	const bool pool = mode == "c10" || mode == "c09" || mode == "c08";
	const int variant = (int)rng.below(V_COUNT);
	plan.user(U_VARIANT) = variant;
	const bool queue = variant >= V_QUEUE, keys = variant >= V_DISPATCHER;
	const bool include = variant >= V_QUEUE_INCLUDE_EVENT;   // the two small interpreters share the shape encoding
	const int nObj = (pool && !include) ? 2 + (int)rng.below(2) : 1;
	plan.user(U_OBJECTS) = pool ? 1 + (int)rng.below((uint32_t)std::min(nObj, (int)MAXOBJ)) : 1;
	plan.user(U_FILL) = 4;
	plan.tasks.assign(1, OpList());
	OpList & ops = plan.tasks[0];
	const int len = mode == "c09" ? 4 + (int)rng.below(8) : 10 + (int)rng.below(36);
	int nextCb = 0;
	std::vector<int> known;
	for(int i = 0; i < len; ++i) {
		const int o = (int)rng.below((uint32_t)std::min(nObj, (int)MAXOBJ));
		const int k = keys ? (int)rng.below(NKEY) : 0;
		const int d = o * 4 + k;
		const uint32_t r = rng.below(100);
		int slot = MAXSLOT - 1;
		if(!known.empty()) slot = known[rng.below((uint32_t)known.size())];
		if(r < 26 && nextCb < MAXSLOT - 4) {
			const uint32_t q = rng.below(100);
			int kind = (int)rng.below(NKIND);
			if(queue && rng.chance(1, 3)) { const int follow = 1 + (int)rng.below(S_COUNT); kind += 16 * follow; }
			ops.push_back(Op(q < 50 ? O_APPEND : q < 72 ? O_PREPEND : O_INSERT, nextCb, slot, kind, d));
			known.push_back(nextCb);
			++nextCb;
		}
		else if(r < 34) ops.push_back(Op(O_REMOVE, 0, slot, 0, d));
		else if(r < 37) ops.push_back(Op(O_EMPTY, 0, 0, 0, d));
		else if(r < 41) ops.push_back(Op(O_FOREACH, (int)rng.below(NPROTO), 0, 0, d));
		else if(include && r >= 88) { const int v = (int)rng.below(4000); const int shape = (int)rng.below(3) + 8 * (int)rng.below(3); ops.push_back(Op(rng.chance(1, 2) ? O_INVOKE : O_ENQ, v, 0, shape, d)); }
		else if(include && (r < 58)) { const int v = (int)rng.below(4000); const int shape = (int)rng.below(3) + 8 * (int)rng.below(3); ops.push_back(Op(O_INVOKE, v, 0, shape, d)); }
		else if(r < 58 || (!queue && r < 88)) { const int v = (int)rng.below(4000); const int shape = (int)rng.below(S_COUNT); ops.push_back(Op(O_INVOKE, v, 0, shape, d)); }
		else if(r < 88) {
			const uint32_t q = rng.below(100);
			if(q < 50 && include) { const int v = (int)rng.below(4000); const int shape = (int)rng.below(3) + 8 * (int)rng.below(3); ops.push_back(Op(O_ENQ, v, 0, shape, d)); }
			else if(q < 50) { const int shape = (int)rng.below(S_COUNT); ops.push_back(Op(O_ENQ, 0, 0, shape, d)); }
			else if(q < 62) ops.push_back(Op(O_PROCESS, 0, 0, 0, d));
			else if(q < 74) ops.push_back(Op(O_PROCESS_ONE, 0, 0, 0, d));
			else if(q < 92) { const int mask = (int)rng.below(256); const int pk = (int)rng.below(rng.chance(1, 8) ? NPRED : NPRED - 1); ops.push_back(Op(O_PROCESS_IF, mask, 0, pk, d)); }
			else if(q < 96) ops.push_back(Op(O_CLEAR, 0, 0, 0, d));
			else ops.push_back(Op(O_EMPTYQ, 0, 0, 0, d));
		}
		else if(pool) {
			const uint32_t q = rng.below(100);
			const int other = (int)rng.below((uint32_t)std::min(nObj, (int)MAXOBJ));
			Op op;
			if(q < 20) op = Op(O_COPY_CONSTRUCT, other, 0, 0, d);
			else if(q < 40) op = Op(O_COPY_ASSIGN, other, 0, 0, d);
			else if(q < 54) op = Op(O_MOVE_CONSTRUCT, other, 0, 0, d);
			else if(q < 68) op = Op(O_MOVE_ASSIGN, other, 0, 0, d);
			else if(q < 82) op = Op(O_SWAP, other, (int)rng.below(2), 0, d);
			else if(q < 92) op = Op(O_DESTROY, 0, 0, 0, d);
			else op = Op(O_CREATE, 0, 0, 0, d);
			ops.push_back(op);
		}
		else { const int v = (int)rng.below(4000); const int shape = (int)rng.below(S_COUNT); ops.push_back(Op(O_INVOKE, v, 0, shape, d)); }
	}
}

void execute(const Plan & plan, RunOut & out)
{
	const int v = plan.user(sh::U_VARIANT);
	switch(v) {
	case 0: sh::runVariant0(plan, out); break; case 1: sh::runVariant1(plan, out); break; case 2: sh::runVariant2(plan, out); break;
	case 3: sh::runVariant3(plan, out); break; case 4: sh::runVariant4(plan, out); break; case 6: sh::runVariant6(plan, out); break; case 7: sh::runVariant7(plan, out); break; default: sh::runVariant5(plan, out); break;
	}
	++sh::counters.plans;
	if(v >= 0 && v < sh::V_COUNT) ++sh::counters.perVariant[v];
	bool focus = false;
	if(!plan.tasks.empty()) for(size_t i = 0; i < plan.tasks[0].size(); ++i) {
		const int k = plan.tasks[0][i].k;
		if(mode == "c10") { if(k >= sh::O_COPY_CONSTRUCT && k <= sh::O_SWAP) focus = true; }
		else if(k == sh::O_INVOKE || k == sh::O_PROCESS || k == sh::O_PROCESS_ONE || k == sh::O_PROCESS_IF) focus = true;
	}
	out.nontrivial = focus;
}

std::string describe(const Plan & plan)
{
	static const char * vn[] = { "HeterCallbackList", "HeterCallbackList/SingleThreading + a canContinueInvoking that refuses (no say here)", "HeterEventDispatcher", "HeterEventQueue", "HeterEventQueue/SingleThreading + a canContinueInvoking that refuses (no say here)", "HeterEventQueue<std::string>/ArgumentPassingIncludeEvent",
		"HeterEventQueue<int, {void(int&), void(int)}>", "HeterEventQueue<std::string>/ArgumentPassingIncludeEvent/getEvent policy taking the event by value" };
	static const char * names[] = { "?", "append", "prepend", "insert", "remove", "empty", "forEach", "invoke", "enqueue", "process", "processOne", "processIf", "clearEvents", "emptyQueue",
		"copyConstruct", "copyAssign", "moveConstruct", "moveAssign", "swap", "destroy", "create" };
	static const char * shapes[] = { "()", "(int)", "(short)", "(double)", "(const char*)", "(string)", "(Tr,int)", "(Big)" };
	std::ostringstream o;
	const int v = plan.user(sh::U_VARIANT);
	o << (v >= 0 && v < sh::V_COUNT ? vn[v] : "?") << " objs=" << plan.user(sh::U_OBJECTS) << " :";
	if(!plan.tasks.empty()) for(size_t i = 0; i < plan.tasks[0].size(); ++i) {
		const Op & op = plan.tasks[0][i];
		o << " " << (op.k >= 1 && op.k < sh::O_KINDS ? names[op.k] : "?");
		if(op.k <= sh::O_INSERT) { o << "(cb" << op.a << ",kind" << (op.c & 15); if(op.c >> 4) o << ",posts" << shapes[((op.c >> 4) - 1) % 8]; if(op.k == sh::O_INSERT) o << ",before h" << op.b; o << ")"; }
		else if(op.k == sh::O_REMOVE) o << "(h" << op.b << ")";
		else if(op.k == sh::O_INVOKE || op.k == sh::O_ENQ) o << shapes[((op.c % 8) + 8) % 8];
		else if(op.k == sh::O_PROCESS_IF) o << "(pred" << op.c << ",mask" << op.a << ")";
		else if(op.k == sh::O_FOREACH) o << "<p" << op.a << ">";
		else if(op.k >= sh::O_COPY_CONSTRUCT && op.k <= sh::O_SWAP) o << "(obj" << op.a % 3 << ")";
		o << "@" << ((op.d >> 2) & 3) << "." << (op.d & 3);
	}
	if(!plan.faults.empty()) o << " | faults " << seq::join(plan.faults);
	return o.str();
}

void statsJson(std::string & out)
{
	const sh::Counters & c = sh::counters;
	std::ostringstream o;
	o << ",\"probes\":{\"ops\":" << c.ops << ",\"invocations\":" << c.invocations << ",\"callback_calls\":" << c.callbackCalls << ",\"events_enqueued\":" << c.enqueued << ",\"events_enqueued_by_listeners_during_processing\":" << c.enqueuedDuringProcessing << ",\"events_dispatched\":" << c.dispatched
	  << ",\"predicate_calls\":" << c.predicateCalls << ",\"events_declined\":" << c.declined << ",\"processIf_foreign_events_left_untouched\":" << c.processIfForeignUntouched << ",\"removes_through_default_initialised_handles\":" << c.defaultHandleRemoves
	  << ",\"copy_move_swap_destroy_ops\":" << c.poolOps << ",\"constructions_in_dirty_storage\":" << c.dirtyConstructions << ",\"shape_counts\":[";
	for(int i = 0; i < sh::S_COUNT; ++i) o << (i ? "," : "") << c.shapeCounts[i];
	o << "],\"callback_kind_counts\":[";
	for(int i = 0; i < sh::NKIND; ++i) o << (i ? "," : "") << c.kindCounts[i];
	o << "],\"predicate_kind_counts\":[";
	for(int i = 0; i < sh::NPRED; ++i) o << (i ? "," : "") << c.predCounts[i];
	o << "]}"
	  << ",\"faults\":{\"fault_runs\":" << c.faultRuns << ",\"injected_total\":" << c.faultsInjected << ",\"alloc\":" << c.faultsByKind[F_ALLOC] << ",\"copy\":" << c.faultsByKind[F_COPY]
	  << ",\"move\":" << c.faultsByKind[F_MOVE] << ",\"call\":" << c.faultsByKind[F_CALL] << ",\"compare\":" << c.faultsByKind[F_CMP] << ",\"operations_failed_by_fault\":" << c.opsFailedByFault << "}"
	  << ",\"per_variant\":[";
	for(int i = 0; i < sh::V_COUNT; ++i) o << (i ? "," : "") << c.perVariant[i];
	o << "]";
	out += o.str();
}

} // namespace engine

int main(int argc, char ** argv) { return sim::workerMain(argc, argv); }
#endif
