// CON engine for the queue properties under the controlled scheduler:
//   mode c06: producers / consumers, per-event ledger (conservation, exactly-once, per-pair FIFO)
//   mode c07: draining waiters, enqueuers with DisableQueueNotify scopes; lost wake-up, early return, timeouts
//   mode c11: observers (emptyQueue / waitFor) against enqueuers and process/processOne/takeEvent/clearEvents
#include "con_common.h"

#include <eventpp/utilities/orderedqueuelist.h>

#include <memory>
#include <set>
#include <sstream>

using namespace sim;

namespace {

enum OpKind {
	O_ENQ = 1, O_PROCESS = 2, O_PROCESS_ONE = 3, O_PROCESS_IF = 4, O_PROCESS_UNTIL = 5, O_TAKE = 6, O_PEEK = 7, O_CLEAR = 8,
	O_EMPTYQ = 9, O_WAITFOR = 10, O_DQN_OPEN = 11, O_DQN_CLOSE = 12, O_WAITLOOP = 13, O_KINDS = 14
};
// Op fields
//   ENQ: a = event id (unique), b = DisableQueueNotify scopes wrapped around this enqueue (0..2), c = 1: rvalue payload, d = event key
//   PROCESS_IF / PROCESS_UNTIL: a = accept mask over (event id % 8)
//   WAITFOR: a = duration code;  WAITLOOP: a = 0 wait / 1 waitFor, b = duration code, c = drain style (0 process, 1 processOne loop, 2 takeEvent loop)
//   any consuming op: b = event id for which the listener throws (fault), or -1... stored as b+1 (0 = none) in field d for consumers
enum { U_TASKS = 0, U_OBJ = 1, U_KEYS = 2, U_FILL = 3 };
enum { OBJ_EVENTQUEUE = 0, OBJ_HETER = 1, OBJ_ORDERED = 2, OBJ_SPIN = 3 };
enum { MAXEV = 64, T_EV = 2, STOP_ID = MAXEV - 1 };

const char * opName(int k)
{
	static const char * n[] = { "?", "enqueue", "process", "processOne", "processIf", "processUntil", "takeEvent", "peekEvent", "clearEvents",
		"emptyQueue", "waitFor", "dqnOpen", "dqnClose", "waitLoop" };
	return k >= 1 && k < O_KINDS ? n[k] : "?";
}

int64_t durationNs(int code)
{
	switch(code) { case 0: return 0; case 1: return 1000; case 2: return 50000; case 3: return 2000000; default: return 10000000; }
}

int checksum(int id) { return id * 7919 + 13; }

struct EvHooks
{
	virtual void libInstanceDestroyed(int id, bool last) = 0;
	virtual ~EvHooks() {}
};
EvHooks * g_evHooks = nullptr;
int g_libLive[MAXEV];

// The payload: ledger-tracked by address; instances made by copying/moving (i.e. by the library) are counted per id
struct Ev
{
	int id, val;
	bool origin;

	Ev() : id(-1), val(0), origin(true) { ledger().born(this, T_EV, id); }
	explicit Ev(int id_) : id(id_), val(checksum(id_)), origin(true) { ledger().born(this, T_EV, id); }
	Ev(const Ev & o) : id(o.id), val(o.val), origin(false) { ledger().use(&o, T_EV, "Ev copy source"); ledger().born(this, T_EV, id); inc(); }
	Ev(Ev && o) noexcept : id(o.id), val(o.val), origin(false) { ledger().use(&o, T_EV, "Ev move source"); o.val = MOVED_FROM; ledger().born(this, T_EV, id); inc(); }
	Ev & operator = (const Ev & o)
	{
		ledger().use(&o, T_EV, "Ev assign source"); ledger().use(this, T_EV, "Ev assign target");
		if(this != &o) { rebind(o.id); val = o.val; }
		return *this;
	}
	Ev & operator = (Ev && o) noexcept
	{
		ledger().use(&o, T_EV, "Ev move-assign source"); ledger().use(this, T_EV, "Ev move-assign target");
		if(this != &o) { rebind(o.id); val = o.val; o.val = MOVED_FROM; }
		return *this;
	}
	~Ev() { ledger().died(this, T_EV); dec(); }

private:
	void inc() { if(!origin && id >= 0 && id < MAXEV) ++g_libLive[id]; }
	void dec()
	{
		if(!origin && id >= 0 && id < MAXEV) {
			const bool last = --g_libLive[id] == 0;
			if(g_evHooks) g_evHooks->libInstanceDestroyed(id, last);
		}
	}
	void rebind(int newId)
	{
		if(newId == id) return;
		ledger().died(this, T_EV); dec();
		id = newId;
		ledger().born(this, T_EV, id); inc();
	}
};

struct Counters
{
	uint64_t runs[3] = { 0, 0, 0 };
	uint64_t eventsEnqueued = 0, dispatched = 0, taken = 0, cleared = 0, discardedByFault = 0, peeks = 0, endPhaseDispatched = 0;
	uint64_t fifoChecked = 0, listenerFaultsFired = 0, slotRecycled = 0;
	uint64_t waitsReturned = 0, waitForTrue = 0, waitForFalse = 0, terminalWithBlockedWaiter = 0, terminalBlockedLegit = 0, terminalInconclusive = 0, earlyReturnChecks = 0,
		dqnScopes = 0, dqnDestroyedWithPending = 0, dqnRetargeted = 0, dqnAssignedSameQueue = 0, overlapRuns = 0;
	uint64_t observations = 0, observedEmptyTrue = 0, observedEmptyDuringDispatch = 0, oracleEventsChecked = 0;
	uint64_t perObj[4] = { 0, 0, 0, 0 };
} counters;

struct QPol
{
	using Threading = sim::SimThreading;
	template <typename T> using QueueList = sim::SimList<T>;
};
struct HPol
{
	using Threading = sim::SimThreading;
};
// the real eventpp::SpinLock as the queue's mutex (schedulable through its guarded hook)
struct QPolSpin
{
	using Threading = con::SimSpinThreading;
	template <typename T> using QueueList = sim::SimList<T>;
};
// the real OrderedQueueList behind the list seam: every operation on the member lists is a scheduling point
struct QPolOrdered
{
	using Threading = sim::SimThreading;
	template <typename T> using QueueList = sim::SimListT<T, eventpp::OrderedQueueList<T> >;
};

// ------------------------------------------------------------------------------------------- adapters
struct ListenerSink
{
	virtual void onDispatch(int key, int id, const Ev * ev) = 0;
	virtual bool onPredicate(int id, const Ev * ev, int mask) = 0;
	virtual ~ListenerSink() {}
};

template <typename Pol, int KIND>
struct EQAdapterT
{
	using Q = eventpp::EventQueue<int, void (int, const Ev &), Pol>;
	using DQN = typename Q::DisableQueueNotify;
	enum { kind = KIND };
	Q * q;
	static bool supports(int k) { return k >= 1 && k < O_KINDS; }
	void setup(ListenerSink * sink, int keys)
	{
		for(int k = 0; k < keys; ++k) q->appendListener(k, [sink](int key, const Ev & e) { sink->onDispatch(key, e.id, &e); });
		q->appendListener(1000, [](int, const Ev &) {});
	}
	void enqueue(int key, const Ev & e, bool rvalue) { if(rvalue) { Ev tmp(e.id); q->enqueue(key, std::move(tmp)); } else q->enqueue(key, e); }
	bool process() { return q->process(); }
	bool processOne() { return q->processOne(); }
	bool processIf(ListenerSink * sink, int mask) { return q->processIf([sink, mask](int, const Ev & e) { return sink->onPredicate(e.id, &e, mask); }); }
	bool processUntil(ListenerSink * sink, int mask) { return q->processUntil([sink, mask](int, const Ev & e) { return sink->onPredicate(e.id, &e, mask); }); }
	bool take(int & id, int & val) { typename Q::QueuedEvent qe; if(!q->takeEvent(&qe)) return false; id = std::get<1>(qe.arguments).id; val = std::get<1>(qe.arguments).val; return true; }
	bool peek(int & id, int & val) { typename Q::QueuedEvent qe; if(!q->peekEvent(&qe)) return false; id = std::get<1>(qe.arguments).id; val = std::get<1>(qe.arguments).val; return true; }
	void clear() { q->clearEvents(); }
	bool emptyQueue() { return q->emptyQueue(); }
	void wait() { q->wait(); }
	bool waitFor(int64_t ns) { return q->waitFor(std::chrono::nanoseconds(ns)); }
	void * makeDqn() { return new DQN(q); }
	void * copyDqn(void * p) { return new DQN(*(DQN *)p); }   // a copy is one more DisableQueueNotify object alive
	void freeDqn(void * p) { delete (DQN *)p; }
	// a second queue, only ever the target of DisableQueueNotify objects: assigning such an object onto one that guards the queue
	// under test releases the queue under test (and must wake its waiters like a destructor does)
	std::shared_ptr<Q> other;
	void * makeDqnOther() { if(!other) other = std::make_shared<Q>(); return new DQN(other.get()); }
	void assignDqn(void * dst, void * src) { *(DQN *)dst = *(const DQN *)src; }
};

typedef EQAdapterT<QPol, OBJ_EVENTQUEUE> EQAdapter;
typedef EQAdapterT<QPolOrdered, OBJ_ORDERED> EQOrderedAdapter;
typedef EQAdapterT<QPolSpin, OBJ_SPIN> EQSpinAdapter;

struct HQAdapter
{
	using Q = eventpp::HeterEventQueue<int, eventpp::HeterTuple<void (const Ev &), void (const Ev &, int)>, HPol>;
	enum { kind = OBJ_HETER };
	Q * q;
	static bool supports(int k) { return k == O_ENQ || k == O_PROCESS || k == O_PROCESS_ONE || k == O_PROCESS_IF || k == O_CLEAR || k == O_EMPTYQ || k == O_WAITFOR || k == O_WAITLOOP; }
	void setup(ListenerSink * sink, int keys)
	{
		for(int k = 0; k < keys; ++k) {
			q->appendListener(k, [sink, k](const Ev & e) { sink->onDispatch(k, e.id, &e); });
			q->appendListener(k, [sink, k](const Ev & e, int tag) { sink->onDispatch(tag == 7 ? k : -1, e.id, &e); });
		}
		q->appendListener(1000, [](const Ev &) {});
	}
	void enqueue(int key, const Ev & e, bool second) { if(second) q->enqueue(key, e, 7); else q->enqueue(key, e); }
	bool process() { return q->process(); }
	bool processOne() { return q->processOne(); }
	bool processIf(ListenerSink * sink, int mask) { return q->processIf([sink, mask](const Ev & e) { return sink->onPredicate(e.id, &e, mask); }); }
	bool processUntil(ListenerSink *, int) { return false; }
	bool take(int &, int &) { return false; }
	bool peek(int &, int &) { return false; }
	void clear() { q->clearEvents(); }
	bool emptyQueue() { return q->emptyQueue(); }
	void wait() { q->wait(); }
	bool waitFor(int64_t ns) { return q->waitFor(std::chrono::nanoseconds(ns)); }
	void * makeDqn() { return nullptr; }
	void * copyDqn(void *) { return nullptr; }
	void freeDqn(void *) {}
	void * makeDqnOther() { return nullptr; }
	void assignDqn(void *, void *) {}
};

// ------------------------------------------------------------------------------------------- harness
enum ConsumeHow { H_NONE = 0, H_DISPATCHED = 1, H_TAKEN = 2, H_CLEARED = 3, H_DISCARDED = 4 };

struct EvRec
{
	bool planned, enqStarted, enqReturned, asInt;
	int key, producer;
	long enqInv, enqRet;
	int how;            // ConsumeHow
	int byTask;
	long consStart;     // dispatch began / take or clear call invoked
	long consEnd;       // listener returned / take or clear call returned
	long callEnd;       // the library call that consumed it returned (0: not yet)
	int dispatchCount, takeCount;
	EvRec() : planned(false), enqStarted(false), enqReturned(false), asInt(false), key(0), producer(-1), enqInv(0), enqRet(0), how(H_NONE), byTask(-1),
		consStart(0), consEnd(0), callEnd(0), dispatchCount(0), takeCount(0) {}
};

struct OpRec { int task, kind; long inv, ret; bool result; int64_t simStart, simEnd, durNs; };
struct DqnRec { long ctorRet, dtorInv; };

template <typename A>
struct Harness : ListenerSink, EvHooks
{
	const Plan & plan;
	const int mode; // 6, 7, 11
	A ad;
	typename A::Q * q;
	alignas(64) char storage[sizeof(typename A::Q)];
	EvRec ev[MAXEV];
	std::vector<OpRec> ops;        // observer / wait calls
	std::vector<DqnRec> dqns;
	std::vector<int> consumeOrder; // event ids in consumption order (dispatch start / take)
	std::vector<int> consumeTask;
	std::vector<std::pair<long, long> > declines[MAXEV]; // per event: (invocation stamp of the processIf call, stamp of the decline)
	long dispatchCallInv[MAXEV]; int dispatchCallKind[MAXEV];
	std::vector<int> inCall[MAXT];  // events consumed by the library call in progress, per task
	std::vector<std::pair<long, long> > procCalls; // [invoked, returned] of every processing call (returned < 0: in progress)
	int openProc[MAXT];
	con::Stamp stamp;
	int curOpKind[MAXT];
	long curOpInv[MAXT];
	bool unwinding[MAXT];
	int faultEvent[MAXT];
	std::vector<void *> dqnStack[MAXT];
	std::vector<size_t> dqnIndex[MAXT];
	bool stop;
	int liveDqn;
	std::string error, errorClass;
	int nKeys;
	bool sawClear;
	bool waiterBurnedOut;
	long takenByLoops;

	Harness(const Plan & p, int m) : plan(p), mode(m), q(nullptr), stop(false), liveDqn(0), sawClear(false), waiterBurnedOut(false), takenByLoops(0)
	{
		for(int i = 0; i < MAXT; ++i) { curOpKind[i] = 0; curOpInv[i] = 0; unwinding[i] = false; faultEvent[i] = -1; openProc[i] = -1; }
		for(int i = 0; i < MAXEV; ++i) { dispatchCallInv[i] = -1; dispatchCallKind[i] = 0; }
		nKeys = std::max(1, std::min(3, plan.user(U_KEYS)));
	}

	void flag(const char * cls, const std::string & d)
	{
		if(errorClass.empty()) { errorClass = cls; error = d; }
	}
	int me() const { const int t = S().current(); return t >= 0 ? t : MAXT - 1; }

	// ---- ListenerSink
	void onDispatch(int key, int id, const Ev * e) override
	{
		Sched & s = S();
		s.point("listener.enter");
		if(id == STOP_ID) return;
		if(id < 0 || id >= MAXEV || !ev[id].enqStarted) { flag("dispatched-unknown-event", "listener received event id " + std::to_string(id) + " that was never enqueued"); return; }
		EvRec & r = ev[id];
		if(e) {
			e->id == id ? (void)0 : flag("payload-corrupt", "event id mismatch");
			if(!ledger().use(e, T_EV, "listener argument")) flag("payload-dead", "listener received a destroyed payload for event " + std::to_string(id));
			if(e->val != checksum(id)) flag("payload-corrupt", "event " + std::to_string(id) + " arrived with value " + std::to_string(e->val));
		}
		if(key != r.key) flag("dispatched-to-wrong-listener", "event " + std::to_string(id) + " of key " + std::to_string(r.key) + " reached the listener of key " + std::to_string(key));
		++r.dispatchCount;
		if(r.how != H_NONE) {
			flag("consumed-twice", "event " + std::to_string(id) + " dispatched although already " + howName(r.how) + "; " + render());
		}
		else {
			r.how = H_DISPATCHED; r.byTask = me(); r.consStart = stamp.next();
			dispatchCallInv[id] = curOpInv[me()]; dispatchCallKind[id] = curOpKind[me()];
			consumeOrder.push_back(id); consumeTask.push_back(me());
			inCall[me()].push_back(id);
			if(s.phaseChecked) ++counters.dispatched; else ++counters.endPhaseDispatched;
		}
		const int t = me();
		if(s.active() && faultEvent[t] == id) {
			faultEvent[t] = -1;
			unwinding[t] = true;
			++counters.listenerFaultsFired;
			r.consEnd = stamp.next();
			throw InjectedFault(F_CALL);
		}
		s.point("listener.exit");
		r.consEnd = stamp.next();
	}

	bool onPredicate(int id, const Ev * e, int mask) override
	{
		S().point("predicate");
		if(e && e->val != checksum(id)) flag("payload-corrupt", "predicate saw event " + std::to_string(id) + " with value " + std::to_string(e->val));
		if(id == STOP_ID) return true;
		const bool verdict = ((mask >> (id & 7)) & 1) != 0;
		// processIf keeps what its predicate declines: the only legitimate way for a newer event to overtake this one (see the FIFO check)
		if(!verdict && id >= 0 && id < MAXEV && curOpKind[me()] == O_PROCESS_IF) declines[id].push_back(std::make_pair(curOpInv[me()], stamp.next()));
		return verdict;
	}

	// ---- EvHooks: a library-held instance of an event's payload was destroyed (last: no other is left)
	// Inside a clearEvents call (or while a listener exception unwinds a processing call) the only payload instances
	// destroyed on that task are those of the queued events the call discards.
	void libInstanceDestroyed(int id, bool last) override
	{
		if(id < 0 || id >= MAXEV || id == STOP_ID) return;
		EvRec & r = ev[id];
		if(!r.enqStarted || r.how != H_NONE) return;
		const int t = me();
		if(curOpKind[t] == O_CLEAR) {
			r.how = H_CLEARED; r.byTask = t; r.consStart = curOpInv[t]; r.consEnd = stamp.next();
			++counters.cleared;
			return;
		}
		if(unwinding[t]) {
			r.how = H_DISCARDED; r.byTask = t; r.consStart = curOpInv[t]; r.consEnd = stamp.next();
			++counters.discardedByFault;
			return;
		}
		if(!last) return;
		if(curOpKind[t] == O_ENQ && r.producer == t) return; // the producer's own temporaries
		if(curOpKind[t] == O_TAKE) return;                     // takeEvent moved the payload out; attributed when the call returns
		if(S().phaseChecked || S().active()) {
			flag("event-destroyed-unconsumed", "payload of event " + std::to_string(id) + " destroyed without being dispatched, taken or cleared (during " + opName(curOpKind[t]) + "); " + render());
		}
	}

	static const char * howName(int h)
	{
		static const char * n[] = { "unconsumed", "dispatched", "taken", "cleared", "discarded" };
		return n[h];
	}

	std::string render() const
	{
		std::ostringstream o;
		for(int i = 0; i < MAXEV; ++i) {
			if(!ev[i].enqStarted) continue;
			o << "e" << i << "(k" << ev[i].key << ",p" << ev[i].producer << ",enq[" << ev[i].enqInv << "," << ev[i].enqRet << "]," << howName(ev[i].how);
			if(ev[i].how != H_NONE) o << " by t" << ev[i].byTask << "[" << ev[i].consStart << "," << ev[i].consEnd << "]";
			o << ") ";
		}
		for(size_t i = 0; i < ops.size(); ++i) {
			o << "t" << ops[i].task << ":" << opName(ops[i].kind) << "=" << (ops[i].result ? "T" : "F") << "[" << ops[i].inv << "," << ops[i].ret << "] ";
		}
		for(size_t i = 0; i < dqns.size(); ++i) o << "dqn[" << dqns[i].ctorRet << "," << dqns[i].dtorInv << "] ";
		return o.str();
	}

	// ---- operations
	void closeDqn(int task)
	{
		if(dqnStack[task].empty()) return;
		void * p = dqnStack[task].back(); dqnStack[task].pop_back();
		const size_t idx = dqnIndex[task].back(); dqnIndex[task].pop_back();
		bool pending = false;
		for(int i = 0; i < MAXEV; ++i) if(ev[i].enqReturned && ev[i].how == H_NONE) pending = true;
		if(pending && liveDqn == 1) ++counters.dqnDestroyedWithPending;
		dqns[idx].dtorInv = stamp.next();
		--liveDqn;
		ad.freeDqn(p);
	}
	void openDqn(int task, bool copyOfTop = false)
	{
		void * p = copyOfTop && !dqnStack[task].empty() ? ad.copyDqn(dqnStack[task].back()) : ad.makeDqn();
		if(!p) return;
		++liveDqn; ++counters.dqnScopes;
		DqnRec r; r.ctorRet = stamp.next(); r.dtorInv = -1;
		dqns.push_back(r);
		dqnStack[task].push_back(p); dqnIndex[task].push_back(dqns.size() - 1);
	}

	void callBegins(int task)
	{
		procCalls.push_back(std::make_pair(stamp.next(), -1L));
		openProc[task] = (int)procCalls.size() - 1;
	}

	void callReturned(int task)
	{
		const long st = stamp.next();
		if(openProc[task] >= 0) { procCalls[(size_t)openProc[task]].second = st; openProc[task] = -1; }
		for(size_t i = 0; i < inCall[task].size(); ++i) ev[inCall[task][i]].callEnd = st;
		inCall[task].clear();
	}

	void consumeCall(int task, const Op & op)
	{
		// processing calls; an injected listener exception is caught here, as a caller would
		faultEvent[task] = op.d > 0 ? op.d - 1 : -1;
		callBegins(task);
		try {
			switch(op.k) {
			case O_PROCESS: ad.process(); break;
			case O_PROCESS_ONE: ad.processOne(); break;
			case O_PROCESS_IF: ad.processIf(this, op.a); break;
			case O_PROCESS_UNTIL: ad.processUntil(this, op.a); break;
			}
		}
		catch(const InjectedFault &) {
		}
		callReturned(task);
		unwinding[task] = false;
		faultEvent[task] = -1;
	}

	void doOp(const Op & op, int task)
	{
		if(!A::supports(op.k)) return;
		OpScope scope;
		curOpKind[task] = op.k;
		curOpInv[task] = stamp.next();
		switch(op.k) {
		case O_ENQ: {
			const int id = op.a;
			if(id < 0 || id >= STOP_ID || ev[id].enqStarted) break;
			EvRec & r = ev[id];
			r.key = ((op.d % nKeys) + nKeys) % nKeys; r.producer = task; r.asInt = (A::kind == OBJ_HETER) && op.c == 1;
			// b: 0 none, 1 / 2 nested DisableQueueNotify scopes around the enqueue, 3: one scope and a copy-constructed copy of it
			//    4: one scope; after the enqueue a DisableQueueNotify of ANOTHER queue is assigned onto it (the assignment releases this queue);
			//    5: two scopes; after the enqueue the second is assigned onto the first (same queue: nothing is released)
			const int depth = op.b == 3 || op.b == 5 ? 2 : op.b == 4 ? 1 : std::max(0, std::min(2, op.b));
			for(int i = 0; i < depth; ++i) openDqn(task, op.b == 3 && i == 1);
			{
				Ev payload(id);
				r.enqStarted = true; r.enqInv = stamp.next();
				ad.enqueue(r.key, payload, op.c == 1);
				r.enqRet = stamp.next(); r.enqReturned = true;
				++counters.eventsEnqueued;
			}
			if(op.b == 4 && !dqnStack[task].empty()) {
				if(void * foreign = ad.makeDqnOther()) {
					void * mine = dqnStack[task].back(); dqnStack[task].pop_back();
					const size_t idx = dqnIndex[task].back(); dqnIndex[task].pop_back();
					++counters.dqnRetargeted;
					dqns[idx].dtorInv = stamp.next();   // the assignment releases this queue, as a destructor would
					--liveDqn;
					ad.assignDqn(mine, foreign);
					ad.freeDqn(foreign); ad.freeDqn(mine);   // both guard the other queue now
				}
			}
			else if(op.b == 5 && dqnStack[task].size() >= 2) {
				++counters.dqnAssignedSameQueue;
				ad.assignDqn(dqnStack[task][dqnStack[task].size() - 2], dqnStack[task].back());
			}
			for(int i = 0; i < depth && !dqnStack[task].empty(); ++i) closeDqn(task);
			break;
		}
		case O_PROCESS: case O_PROCESS_ONE: case O_PROCESS_IF: case O_PROCESS_UNTIL:
			consumeCall(task, op);
			break;
		case O_TAKE: {
			int id = -1, val = 0;
			if(ad.take(id, val)) {
				if(id == STOP_ID) break;
				if(id < 0 || id >= MAXEV || !ev[id].enqStarted) { flag("took-unknown-event", "takeEvent returned event id " + std::to_string(id)); break; }
				if(val != checksum(id)) flag("payload-corrupt", "takeEvent returned event " + std::to_string(id) + " with value " + std::to_string(val));
				EvRec & r = ev[id];
				++r.takeCount;
				if(r.how != H_NONE) flag("consumed-twice", "event " + std::to_string(id) + " taken although already " + howName(r.how) + "; " + render());
				else { r.how = H_TAKEN; r.byTask = task; r.consStart = curOpInv[task]; r.consEnd = stamp.next(); consumeOrder.push_back(id); consumeTask.push_back(task); ++counters.taken; }
			}
			break;
		}
		case O_PEEK: {
			int id = -1, val = 0;
			if(ad.peek(id, val)) {
				++counters.peeks;
				if(id != STOP_ID) {
					if(id < 0 || id >= MAXEV || !ev[id].enqStarted) flag("peeked-unknown-event", "peekEvent returned event id " + std::to_string(id));
					else if(val != checksum(id)) flag("payload-corrupt", "peekEvent returned event " + std::to_string(id) + " with value " + std::to_string(val));
				}
			}
			break;
		}
		case O_CLEAR:
			sawClear = true;
			ad.clear();
			break;
		case O_EMPTYQ: {
			OpRec r; r.task = task; r.kind = O_EMPTYQ; r.simStart = S().now; r.durNs = 0;
			r.inv = stamp.next();
			r.result = ad.emptyQueue();
			r.ret = stamp.next(); r.simEnd = S().now;
			ops.push_back(r);
			break;
		}
		case O_WAITFOR: {
			OpRec r; r.task = task; r.kind = O_WAITFOR; r.simStart = S().now; r.durNs = durationNs(op.a);
			r.inv = stamp.next();
			r.result = ad.waitFor(r.durNs);
			r.ret = stamp.next(); r.simEnd = S().now;
			ops.push_back(r);
			break;
		}
		case O_DQN_OPEN: openDqn(task); break;
		case O_DQN_CLOSE: closeDqn(task); break;
		case O_WAITLOOP: {
			int guard = 0, idle = 0;
			while(!stop && idle < 10) {
				if(++guard >= 120) { waiterBurnedOut = true; break; }   // gave up polling: the terminal-state oracle is inconclusive for this run
				const size_t consumedBefore = consumeOrder.size() + (size_t)takenByLoops;
				OpRec r; r.task = task; r.kind = op.a == 0 ? (int)O_WAITLOOP : (int)O_WAITFOR; r.simStart = S().now; r.durNs = op.a == 0 ? -1 : durationNs(op.b);
				r.inv = stamp.next();
				if(op.a == 0) { ad.wait(); r.result = true; }
				else r.result = ad.waitFor(r.durNs);
				r.ret = stamp.next(); r.simEnd = S().now;
				if(S().phaseChecked) ops.push_back(r);
				if(stop) break;
				if(!r.result) { ++idle; continue; }   // a waitFor waiter gives up after 10 consecutive timeouts
				idle = 0;
				curOpKind[task] = op.c == 0 ? O_PROCESS : op.c == 1 ? O_PROCESS_ONE : O_TAKE;
				if(op.c == 0) { callBegins(task); ad.process(); callReturned(task); }
				else if(op.c == 1) { int n = 0; for(;;) { callBegins(task); const bool r1 = ad.processOne(); callReturned(task); if(!r1 || ++n >= 100) break; } }
				else {
					int n = 0;
					for(;;) {
						curOpInv[task] = stamp.next();
						int id = -1, val = 0;
						if(!ad.take(id, val) || ++n > 100) break;
						if(id == STOP_ID || id < 0 || id >= MAXEV) continue;
						EvRec & e = ev[id];
						if(e.how != H_NONE) flag("consumed-twice", "event " + std::to_string(id) + " taken although already " + howName(e.how));
						else { e.how = H_TAKEN; e.byTask = task; e.consStart = curOpInv[task]; e.consEnd = stamp.next(); ++counters.taken; ++takenByLoops; }
					}
				}
				curOpKind[task] = O_WAITLOOP;
				// woken (or never blocked) but nothing to consume - another thread's call holds the events: poll politely
				if(!stop && consumeOrder.size() + (size_t)takenByLoops == consumedBefore) S().spinYield("waiter.fruitless");
			}
			break;
		}
		default: break;
		}
		curOpKind[task] = 0;
	}

	bool anyPendingReturned() const
	{
		for(int i = 0; i < MAXEV; ++i) if(ev[i].enqReturned && ev[i].how == H_NONE) return true;
		return false;
	}

	// ---- the run
	void run(RunOut & out)
	{
		Sched & s = S();
		ledger().reset();
		std::memset(g_libLive, 0, sizeof(g_libLive));
		g_evHooks = this;
		s.beginRun(con::runCfgFromPlan(plan));
		std::memset(storage, plan.user(U_FILL) == 1 ? 0xff : plan.user(U_FILL) == 2 ? 0x00 : 0x5a, sizeof(storage));
		q = new (storage) typename A::Q();
		ad.q = q;
		ad.setup(this, nKeys);
		s.watch(q, sizeof(typename A::Q));

		const int nTasks = std::min((int)plan.tasks.size(), (int)MAXT - 2);
		for(int t = 0; t < nTasks; ++t) {
			const OpList * opl = &plan.tasks[t];
			s.spawn([this, opl, t]() {
				for(size_t i = 0; i < opl->size(); ++i) doOp((*opl)[i], t);
				while(!dqnStack[t].empty()) closeDqn(t);
			});
		}
		bool done = s.run();
		out.steps = s.steps;
		out.choices = s.choices;
		out.caseHash = s.ileaveHash;
		out.nontrivial = s.runPreemptInOp > 0;
		if(out.nontrivial) ++counters.overlapRuns;

		if(s.failed) out.fail(s.failClass, s.failDetail);
		else if(ledger().hasError()) out.fail(ledger().errorClass, ledger().error);
		else if(!errorClass.empty()) out.fail(errorClass, error);

		if(!out.violation && !done) {
			// terminal state: nothing runnable, no timer pending, some task unfinished
			bool waiterBlocked = false, otherBlocked = false;
			for(int t = 0; t < s.taskCount(); ++t) {
				if(s.task(t).st == T_CV && !s.task(t).hasTimer) waiterBlocked = true;
				else if(s.task(t).st != T_DONE) otherBlocked = true;
			}
			if(otherBlocked) out.fail("deadlock", "a task is blocked outside wait() with nothing runnable; " + render());
			else if(waiterBlocked) {
				++counters.terminalWithBlockedWaiter;
				if(waiterBurnedOut) ++counters.terminalInconclusive;   // a polling waiter gave up: "woken consumers drain the queue" does not hold for this run
				else if(anyPendingReturned() && liveDqn == 0) {
					out.fail("lost-wakeup", "every waiter is blocked in wait() while an enqueued event is pending and notification is enabled; " + render());
				}
				else ++counters.terminalBlockedLegit;
			}
		}

		uint64_t lh = s.logHash;
		for(int i = 0; i < MAXEV; ++i) if(ev[i].enqStarted) lh = hashMix(lh, (uint64_t)i * 1315423911u + (uint64_t)ev[i].how * 31 + (uint64_t)ev[i].consStart * 7 + (uint64_t)ev[i].enqRet);
		for(size_t i = 0; i < ops.size(); ++i) lh = hashMix(lh, (uint64_t)ops[i].inv * 131 + (uint64_t)ops[i].ret * 7 + (ops[i].result ? 1 : 0));
		out.logHash = lh;

		if(!out.violation) checkHistories(out);
		if(!out.violation) endPhase(out);
		if(!out.violation) checkConservation(out);

		s.accumulateStats();
		g_evHooks = nullptr;
		if(!out.violation) {
			q->~EventQueueType();
			q = nullptr;
			if(ledger().hasError()) out.fail(ledger().errorClass, ledger().error);
			else if(ledger().liveTotal() != 0) out.fail("leak", "payload instances alive after the queue was destroyed: event " + std::to_string(ledger().anyLiveId(T_EV)));
		}
	}

	using EventQueueType = typename A::Q;

	// oracles over the recorded history of the checked phase
	void checkHistories(RunOut & out)
	{
		const long horizon = stamp.v + 1;
		for(size_t i = 0; i < ops.size() && !out.violation; ++i) {
			const OpRec & o = ops[i];
			// C07 (3): waitFor returns false only after its timeout
			if(o.kind == O_WAITFOR && !o.result) {
				++counters.waitForFalse;
				if(o.simEnd < o.simStart + o.durNs) {
					out.fail("waitfor-false-before-timeout", "waitFor returned false after " + std::to_string(o.simEnd - o.simStart) + "ns of a " + std::to_string(o.durNs) + "ns timeout; " + render());
					break;
				}
			}
			const bool returnedAvailable = (o.kind == O_WAITLOOP) || (o.kind == O_WAITFOR && o.result);
			if(returnedAvailable && mode == 7) {
				// C07 (2): some step of the call saw, possibly, a pending event with notification possibly enabled
				if(o.kind == O_WAITLOOP) ++counters.waitsReturned; else ++counters.waitForTrue;
				++counters.earlyReturnChecks;
				bool ok = false;
				for(long st = o.inv; st <= o.ret && !ok; ++st) {
					bool pending = false;
					for(int e = 0; e < MAXEV && !pending; ++e) {
						if(!ev[e].enqStarted) continue;
						long end = horizon;
						if(ev[e].how == H_DISPATCHED) end = ev[e].callEnd > 0 ? ev[e].callEnd : horizon;
						else if(ev[e].how != H_NONE) end = ev[e].consEnd;
						if(ev[e].enqInv <= st && st <= end) pending = true;
					}
					// a processing call in progress also makes the queue report non-empty (its busy counter)
					for(size_t c = 0; c < procCalls.size() && !pending; ++c) {
						const long end = procCalls[c].second < 0 ? horizon : procCalls[c].second;
						if(procCalls[c].first <= st && st <= end) pending = true;
					}
					if(!pending) continue;
					bool disabled = false;
					for(size_t d = 0; d < dqns.size() && !disabled; ++d) {
						const long end = dqns[d].dtorInv < 0 ? horizon : dqns[d].dtorInv;
						// strictly inside the object's life: at the stamps of construction-return and destruction-invoke themselves
						// notification may (still / already) be enabled
						if(dqns[d].ctorRet < st && st < end) disabled = true;
					}
					if(!disabled) ok = true;
				}
				if(!ok) {
					out.fail("wait-returned-early", std::string(o.kind == O_WAITLOOP ? "wait" : "waitFor") + " returned at [" + std::to_string(o.inv) + "," + std::to_string(o.ret)
						+ "] although at no step of the call an event was pending with notification enabled; " + render());
					break;
				}
			}
			// C11: emptyQueue()==true / waitFor()==false imply every event enqueued before the call began is fully consumed
			const bool saysEmpty = (o.kind == O_EMPTYQ && o.result) || (o.kind == O_WAITFOR && !o.result);
			if(o.kind == O_EMPTYQ || o.kind == O_WAITFOR) ++counters.observations;
			// (the property quantifies over process/processOne/takeEvent/clearEvents only: checked in the c11 plans, which contain
			// no processIf/processUntil and no DisableQueueNotify)
			if(saysEmpty && mode == 11 && liveDqnEver() == 0) {
				++counters.observedEmptyTrue;
				for(int e = 0; e < MAXEV; ++e) {
					const EvRec & r = ev[e];
					if(!r.enqReturned || r.enqRet >= o.inv) continue;
					++counters.oracleEventsChecked;
					bool ok;
					if(r.how == H_NONE) ok = false;
					else if(r.how == H_DISPATCHED) ok = r.consEnd <= o.ret && r.consEnd > 0;
					else ok = r.consStart <= o.ret; // take / clear / discard: the call that got it had been invoked
					if(!ok) {
						out.fail("reported-empty-while-pending", std::string(o.kind == O_EMPTYQ ? "emptyQueue()==true" : "waitFor()==false") + " at [" + std::to_string(o.inv) + "," + std::to_string(o.ret)
							+ "] by t" + std::to_string(o.task) + " while event " + std::to_string(e) + " (enqueue returned at " + std::to_string(r.enqRet) + ") was " + howName(r.how)
							+ (r.how == H_NONE ? "" : " at [" + std::to_string(r.consStart) + "," + std::to_string(r.consEnd) + "]") + "; " + render());
						break;
					}
				}
			}
		}
	}

	size_t liveDqnEver() const { return dqns.size(); }

	// release blocked waiters, drain what is left; oracles are off
	void endPhase(RunOut & out)
	{
		Sched & s = S();
		s.phaseChecked = false;
		s.setStrategy(STRAT_SERIAL);
		stop = true;
		for(int round = 0; round < 24 && !s.allDone(); ++round) {
			Ev e(STOP_ID);
			ad.enqueue(1000, e, false);
			s.run();
			if(s.failed) { out.fail(s.failClass, s.failDetail); return; }
		}
		if(!s.allDone()) {
			out.fail("waiter-stuck-after-faults-stopped", "a waiter is still blocked after 24 further enqueues with notification enabled; " + render());
			return;
		}
		// drain
		curOpKind[MAXT - 1] = O_PROCESS;
		for(int n = 0; n < 200; ++n) {
			bool progressed = false;
			try { progressed = ad.process(); } catch(const InjectedFault &) { progressed = true; }
			callReturned(MAXT - 1);
			if(!progressed) break;
		}
		curOpKind[MAXT - 1] = 0;
		if(!ad.emptyQueue()) out.fail("not-empty-after-drain", "emptyQueue() is false after the queue was drained with no call in progress; " + render());
		if(!errorClass.empty()) out.fail(errorClass, error);
		if(ledger().hasError()) out.fail(ledger().errorClass, ledger().error);
	}

	void checkConservation(RunOut & out)
	{
		// every event whose enqueue returned is in exactly one class
		for(int e = 0; e < MAXEV; ++e) {
			const EvRec & r = ev[e];
			if(!r.enqReturned) continue;
			if(r.dispatchCount + r.takeCount > 1) { out.fail("consumed-twice", "event " + std::to_string(e) + " consumed " + std::to_string(r.dispatchCount + r.takeCount) + " times; " + render()); return; }
			if(r.how == H_NONE) {
				out.fail("event-lost", "event " + std::to_string(e) + " was enqueued but never dispatched, taken or cleared; " + render());
				return;
			}
		}
		// per producer/consumer pair FIFO (exactly one task issues consuming calls; with several consumers cross-task order is not promised).
		// A newer event b may be consumed before an older event a of the same producer only if b was dispatched by a processIf call whose
		// predicate had declined a earlier in that same call (sequentially: pending := declined ++ newer arrivals, so nothing else reorders).
		std::set<int> consumers;
		for(size_t t = 0; t < plan.tasks.size(); ++t) for(size_t i = 0; i < plan.tasks[t].size(); ++i) {
			const int k = plan.tasks[t][i].k;
			if(k == O_PROCESS || k == O_PROCESS_ONE || k == O_PROCESS_IF || k == O_PROCESS_UNTIL || k == O_TAKE || k == O_CLEAR) consumers.insert((int)t);
		}
		if(consumers.size() == 1 && mode == 6 && (A::kind == OBJ_EVENTQUEUE || A::kind == OBJ_SPIN)) {   // (an ordered queue list dispatches by key, not by arrival)
			++counters.fifoChecked;
			for(size_t i = 0; i < consumeOrder.size(); ++i) for(size_t j = i + 1; j < consumeOrder.size(); ++j) {
				const int b = consumeOrder[i], a = consumeOrder[j];   // b consumed first
				if(ev[a].producer != ev[b].producer || ev[a].producer < 0) continue;
				if(!(ev[a].enqRet < ev[b].enqInv)) continue;           // a's enqueue had returned before b's was invoked
				bool excused = false;
				if(ev[b].how == H_DISPATCHED && dispatchCallKind[b] == O_PROCESS_IF) {
					for(size_t d = 0; d < declines[a].size() && !excused; ++d) if(declines[a][d].first == dispatchCallInv[b] && declines[a][d].second < ev[b].consStart) excused = true;
				}
				if(!excused) {
					out.fail("fifo-violated", "event " + std::to_string(b) + " consumed before event " + std::to_string(a) + " of the same producer although enqueued after it"
						+ (dispatchCallKind[b] == O_PROCESS_IF ? " (and the processIf call that dispatched it had not declined the older one)" : "") + "; " + render());
					return;
				}
			}
		}
	}
};

template <typename A>
void runWith(const Plan & plan, int mode, RunOut & out)
{
	Harness<A> * h = new Harness<A>(plan, mode);
	h->run(out);
	if(!out.violation) delete h;
}

int modeNumber()
{
	if(engine::mode == "c07") return 7;
	if(engine::mode == "c11") return 11;
	return 6;
}

} // namespace

namespace engine {

const char * const kName = "con_queue";
std::string mode = "c06";

bool wantsPilot(const Plan & plan)
{
	return plan.cfg[CFG_STRATEGY] == STRAT_PCT || plan.cfg[CFG_STRATEGY] == STRAT_PREEMPT;
}

static Op consumerOp(Rng & rng, int m, bool heter, int nextId)
{
	// returns a consuming op appropriate for the mode
	const uint32_t r = rng.below(100);
	Op op;
	if(m == 11) {
		op.k = r < 35 ? O_PROCESS : r < 65 ? O_PROCESS_ONE : r < 85 ? O_TAKE : O_CLEAR;
	}
	else if(m == 7) {
		// processIf / processUntil put declined events back without any notification: the waiters' predicate must still see them
		op.k = r < 30 ? O_PROCESS : r < 55 ? O_PROCESS_ONE : r < 70 ? O_TAKE : r < 86 ? O_PROCESS_IF : O_PROCESS_UNTIL;
		if(op.k == O_PROCESS_IF || op.k == O_PROCESS_UNTIL) op.a = (int)rng.below(256);
	}
	else {
		op.k = r < 22 ? O_PROCESS : r < 42 ? O_PROCESS_ONE : r < 57 ? O_PROCESS_IF : r < 69 ? O_PROCESS_UNTIL : r < 82 ? O_TAKE : r < 89 ? O_PEEK : r < 95 ? O_CLEAR : O_EMPTYQ;
		if(op.k == O_PROCESS_IF || op.k == O_PROCESS_UNTIL) op.a = (int)rng.below(256);
		if(op.k >= O_PROCESS && op.k <= O_PROCESS_UNTIL && nextId > 0 && rng.chance(1, 25)) op.d = 1 + (int)rng.below((uint32_t)nextId); // listener fault
	}
	if(heter && (op.k == O_TAKE || op.k == O_PEEK || op.k == O_PROCESS_UNTIL)) op.k = O_PROCESS_ONE;
	return op;
}

void generate(uint64_t seed, Plan & plan)
{
	Rng rng(seed);
	con::chooseStrategy(rng, plan);
	const int m = modeNumber();
	const uint32_t objr = rng.below(100);
	const bool heter = objr < 25;
	plan.user(U_OBJ) = heter ? OBJ_HETER : objr < 38 ? OBJ_ORDERED : objr < 52 ? OBJ_SPIN : OBJ_EVENTQUEUE;
	plan.user(U_KEYS) = 1 + (int)rng.below(2);
	plan.user(U_FILL) = (int)rng.below(3);
	plan.cfg[CFG_QUANTUM] = (int)rng.below(3);
	int nextId = 0;
	if(m == 6) {
		const int producers = 1 + (int)rng.below(3), consumers = 1 + (int)rng.below(3);
		for(int p = 0; p < producers; ++p) {
			OpList l;
			const int n = 1 + (int)rng.below(4);
			for(int i = 0; i < n; ++i) {
				const uint32_t r = rng.below(100);
				l.push_back(Op(O_ENQ, nextId++, r < 12 ? 1 : r < 16 ? 2 : 0, (int)rng.below(2), (int)rng.below(2)));
			}
			plan.tasks.push_back(l);
		}
		for(int c = 0; c < consumers; ++c) {
			OpList l;
			const int n = 1 + (int)rng.below(4);
			for(int i = 0; i < n; ++i) l.push_back(consumerOp(rng, m, heter, nextId));
			plan.tasks.push_back(l);
		}
		// sometimes a task both produces and consumes
		if(rng.chance(1, 5) && plan.tasks.size() < 5) {
			OpList l;
			l.push_back(Op(O_ENQ, nextId++, 0, 0, 0));
			l.push_back(consumerOp(rng, m, heter, nextId));
			l.push_back(Op(O_ENQ, nextId++, 0, 0, 1));
			plan.tasks.push_back(l);
		}
	}
	else if(m == 7) {
		plan.cfg[CFG_SPURIOUS] = rng.chance(1, 3) ? 1 : 0;
		const int waiters = 1 + (int)rng.below(3), enqueuers = 1 + (int)rng.below(2);
		for(int w = 0; w < waiters; ++w) {
			OpList l;
			int style = (int)rng.below(3);
			if(heter && style == 2) style = 1;
			l.push_back(Op(O_WAITLOOP, rng.chance(1, 4) ? 1 : 0, 1 + (int)rng.below(4), style));
			plan.tasks.push_back(l);
		}
		for(int e = 0; e < enqueuers; ++e) {
			OpList l;
			const int n = 1 + (int)rng.below(3);
			int open = 0;
			for(int i = 0; i < n; ++i) {
				const uint32_t r = rng.below(100);
				if(!heter && r < 22 && open < 2) { l.push_back(Op(O_DQN_OPEN)); ++open; }
				l.push_back(Op(O_ENQ, nextId++, (!heter && rng.chance(1, 3)) ? 1 + (int)rng.below(5) : 0, (int)rng.below(2), (int)rng.below(2)));
				if(open > 0 && rng.chance(1, 2)) { l.push_back(Op(O_DQN_CLOSE)); --open; }
			}
			while(open-- > 0) l.push_back(Op(O_DQN_CLOSE));
			plan.tasks.push_back(l);
		}
		if(rng.chance(3, 5)) {
			OpList l;
			const int n = 1 + (int)rng.below(3);
			for(int i = 0; i < n; ++i) l.push_back(consumerOp(rng, m, heter, nextId));
			plan.tasks.push_back(l);
		}
	}
	else {
		const int observers = 1 + (int)rng.below(2), enqueuers = 1 + (int)rng.below(2), processors = 1 + (int)rng.below(2);
		for(int e = 0; e < enqueuers; ++e) {
			OpList l;
			const int n = 1 + (int)rng.below(3);
			for(int i = 0; i < n; ++i) l.push_back(Op(O_ENQ, nextId++, 0, (int)rng.below(2), (int)rng.below(2)));
			plan.tasks.push_back(l);
		}
		for(int p = 0; p < processors; ++p) {
			OpList l;
			const int n = 1 + (int)rng.below(3);
			for(int i = 0; i < n; ++i) l.push_back(consumerOp(rng, m, heter, nextId));
			plan.tasks.push_back(l);
		}
		for(int o = 0; o < observers; ++o) {
			OpList l;
			const int n = 1 + (int)rng.below(4);
			for(int i = 0; i < n; ++i) {
				if(rng.chance(3, 4)) l.push_back(Op(O_EMPTYQ));
				else l.push_back(Op(O_WAITFOR, (int)rng.below(4)));
			}
			plan.tasks.push_back(l);
		}
	}
	plan.user(U_TASKS) = (int)plan.tasks.size();
}

void execute(const Plan & plan, RunOut & out)
{
	con::installHooks();
	const int m = modeNumber();
	if(plan.user(U_OBJ) == OBJ_HETER) runWith<HQAdapter>(plan, m, out);
	else if(plan.user(U_OBJ) == OBJ_ORDERED) runWith<EQOrderedAdapter>(plan, m, out);
	else if(plan.user(U_OBJ) == OBJ_SPIN) runWith<EQSpinAdapter>(plan, m, out);
	else runWith<EQAdapter>(plan, m, out);
	++counters.runs[m == 6 ? 0 : m == 7 ? 1 : 2];
	++counters.perObj[plan.user(U_OBJ) >= 0 && plan.user(U_OBJ) <= 3 ? plan.user(U_OBJ) : 0];
}

std::string describe(const Plan & plan)
{
	std::ostringstream o;
	o << (plan.user(U_OBJ) == OBJ_HETER ? "HeterEventQueue" : plan.user(U_OBJ) == OBJ_ORDERED ? "EventQueue/OrderedQueueList behind the list seam" : plan.user(U_OBJ) == OBJ_SPIN ? "EventQueue/SimList/real SpinLock" : "EventQueue/SimList") << " strat=" << plan.cfg[CFG_STRATEGY] << "/" << plan.cfg[CFG_DEPTH]
	  << " quantum=" << plan.cfg[CFG_QUANTUM] << (plan.cfg[CFG_SPURIOUS] ? " spurious" : "");
	for(size_t t = 0; t < plan.tasks.size(); ++t) {
		o << " | t" << t << ":";
		for(size_t i = 0; i < plan.tasks[t].size(); ++i) {
			const Op & op = plan.tasks[t][i];
			o << " " << opName(op.k);
			if(op.k == O_ENQ) { o << "(e" << op.a; if(op.b) o << ",dqn*" << op.b; o << ")"; }
			else if(op.k == O_PROCESS_IF || op.k == O_PROCESS_UNTIL) o << "(mask " << op.a << ")";
			else if(op.k == O_WAITLOOP) o << "(" << (op.a ? "waitFor" : "wait") << ",drain" << op.c << ")";
			else if(op.k == O_WAITFOR) o << "(" << durationNs(op.a) << "ns)";
			if(op.k >= O_PROCESS && op.k <= O_PROCESS_UNTIL && op.d > 0) o << "{listener throws on e" << op.d - 1 << "}";
		}
	}
	return o.str();
}

void statsJson(std::string & out)
{
	Sched & s = S();
	std::ostringstream o;
	o << ",\"sched_points\":" << s.totSteps << ",\"switches\":" << s.totSwitches << ",\"preempt_inside_op\":" << s.totPreemptInOp << ",\"sim_ns\":" << s.totSimNs
	  << ",\"faults\":{\"spurious_wakeup\":" << s.totSpurious << ",\"late_timer\":" << s.totLateTimer << ",\"timer_fired\":" << s.totTimerFired
	  << ",\"clock_jump_to_deadline\":" << s.totClockJumps << ",\"listener_exception\":" << counters.listenerFaultsFired << ",\"notify_with_no_waiter\":" << s.totLostNotify << "}"
	  << ",\"probes\":{\"events_enqueued\":" << counters.eventsEnqueued << ",\"dispatched\":" << counters.dispatched << ",\"taken\":" << counters.taken
	  << ",\"cleared\":" << counters.cleared << ",\"discarded_by_listener_exception\":" << counters.discardedByFault << ",\"peeks\":" << counters.peeks
	  << ",\"dispatched_in_end_phase\":" << counters.endPhaseDispatched << ",\"fifo_histories_checked\":" << counters.fifoChecked
	  << ",\"waits_returned\":" << counters.waitsReturned << ",\"waitfor_true\":" << counters.waitForTrue << ",\"waitfor_false\":" << counters.waitForFalse
	  << ",\"terminal_states_with_blocked_waiter\":" << counters.terminalWithBlockedWaiter << ",\"terminal_blocked_legitimately\":" << counters.terminalBlockedLegit << ",\"terminal_inconclusive_polling_waiter_gave_up\":" << counters.terminalInconclusive
	  << ",\"early_return_checks\":" << counters.earlyReturnChecks << ",\"dqn_scopes\":" << counters.dqnScopes << ",\"dqn_assigned_from_another_queue\":" << counters.dqnRetargeted << ",\"dqn_assigned_same_queue\":" << counters.dqnAssignedSameQueue
	  << ",\"last_dqn_destroyed_with_event_pending\":" << counters.dqnDestroyedWithPending
	  << ",\"preempted_between_predicate_and_block\":" << probes().cvPreBlockPreempted << ",\"notify_chose_among_several_waiters\":" << probes().notifyChoseAmongSeveral
	  << ",\"observations\":" << counters.observations << ",\"observed_empty\":" << counters.observedEmptyTrue << ",\"oracle_events_checked\":" << counters.oracleEventsChecked
	  << ",\"runs_with_overlap\":" << counters.overlapRuns << ",\"mutex_contended\":" << probes().mutexContended << "}"
	  << ",\"per_object\":[" << counters.perObj[0] << "," << counters.perObj[1] << "," << counters.perObj[2] << "," << counters.perObj[3] << "]";
	out += o.str();
}

} // namespace engine

int main(int argc, char ** argv) { return sim::workerMain(argc, argv); }
