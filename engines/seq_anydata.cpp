// SEQ / FLT engine for C17: AnyData<N> over a compile-time sweep of capacities and stored types (trivial, tracked non-trivial,
// move-only, shared-ownership; sizes from 1 byte to beyond the capacity incl. capacity and capacity + 1), through chains of moves
// and EventQueue round trips. One translation unit per N (-DSEQ_VARIANT=index).
#ifdef SEQ_MAIN
#define VERIF_REPLACE_NEW
#endif
#include "seq_common.h"

#include <eventpp/utilities/anydata.h>

#include <cstring>
#include <memory>

using namespace sim;

namespace sa {

enum { NSLOT = 4, NN = 5 };
static const int kN[NN] = { 1, 8, 16, 24, 64 };
enum OpKind { O_MAKE_L = 1, O_MAKE_R = 2, O_MOVE = 3, O_READ = 4, O_ISTYPE = 5, O_DROP = 6, O_QUEUE = 7, O_KINDS = 8 };
// Op fields: a = slot, b = value seed / destination slot (move) / queue style (0 process, 1 takeEvent + dispatch), c unused
enum { U_N = 0, U_TYPE = 1 };
enum { TYPES_PER_N = 22 + 10 + 10 + 6 };

struct Counters
{
	uint64_t plans, ops, made, movedChains, reads, isTypeChecks, queueRoundTrips, largeStored, inlineStored, atCapacity, onePastCapacity,
		faultRuns, faultsInjected, faultsByKind[F_KINDS], opsFailedByFault;
	uint64_t perN[NN];
	uint64_t kindCounts[5];
};
extern Counters counters;

typedef void (*RunFn)(const Plan &, const std::vector<int> &, seq::Violation &, std::vector<long> *, uint64_t *);
struct Entry { RunFn fn; int size; int kind; const char * name; };

void registerN0(std::vector<Entry> &); void registerN1(std::vector<Entry> &); void registerN2(std::vector<Entry> &);
void registerN3(std::vector<Entry> &); void registerN4(std::vector<Entry> &);

} // namespace sa

#if defined(SEQ_VARIANT)
namespace sa {

// ---------------------------------------------------------------- stored types
template <int K, int TAG>
struct Triv
{
	unsigned char b[K];
	static Triv make(int v) { Triv t; for(int i = 0; i < K; ++i) t.b[i] = (unsigned char)(v * 13 + i * 7 + TAG); return t; }
	bool is(int v) const { for(int i = 0; i < K; ++i) if(b[i] != (unsigned char)(v * 13 + i * 7 + TAG)) return false; return true; }
	bool alive() const { return true; }
	enum { kind = 0 };
};

template <int PAD, int TAG>
struct Trk : Tracked<seq::T_PAY, false>
{
	unsigned char pad[PAD > 0 ? PAD : 1];
	explicit Trk(int v) : Tracked<seq::T_PAY, false>(TAG, v) { fill(v); }
	static Trk make(int v) { return Trk(v); }
	void fill(int v) { for(int i = 0; i < (PAD > 0 ? PAD : 1); ++i) pad[i] = (unsigned char)(v + i); }
	bool is(int v) const { if(val != v) return false; for(int i = 0; i < (PAD > 0 ? PAD : 1); ++i) if(pad[i] != (unsigned char)(v + i)) return false; return true; }
	bool alive() const { return Tracked<seq::T_PAY, false>::alive("stored object read"); }
	enum { kind = 1 };
};

template <int PAD, int TAG>
struct MoveOnly : Tracked<seq::T_PAY, false>
{
	unsigned char pad[PAD > 0 ? PAD : 1];
	explicit MoveOnly(int v) : Tracked<seq::T_PAY, false>(TAG, v) { for(int i = 0; i < (PAD > 0 ? PAD : 1); ++i) pad[i] = (unsigned char)(v + i); }
	MoveOnly(const MoveOnly &) = delete;
	MoveOnly & operator = (const MoveOnly &) = delete;
	MoveOnly(MoveOnly && o) : Tracked<seq::T_PAY, false>(std::move(o)) { std::memcpy(pad, o.pad, sizeof(pad)); }
	static MoveOnly make(int v) { return MoveOnly(v); }
	bool is(int v) const { if(val != v) return false; for(int i = 0; i < (PAD > 0 ? PAD : 1); ++i) if(pad[i] != (unsigned char)(v + i)) return false; return true; }
	bool alive() const { return Tracked<seq::T_PAY, false>::alive("stored object read"); }
	enum { kind = 2 };
};

template <int PAD, int TAG>
struct Shared
{
	std::shared_ptr<Tracked<seq::T_BIG, false> > p;
	unsigned char pad[PAD > 0 ? PAD : 1];
	explicit Shared(int v) : p(std::make_shared<Tracked<seq::T_BIG, false> >(TAG, v)) { for(int i = 0; i < (PAD > 0 ? PAD : 1); ++i) pad[i] = (unsigned char)(v + i); }
	static Shared make(int v) { return Shared(v); }
	bool is(int v) const { if(!p || p->val != v) return false; for(int i = 0; i < (PAD > 0 ? PAD : 1); ++i) if(pad[i] != (unsigned char)(v + i)) return false; return true; }
	bool alive() const { return p && p->alive("shared object read"); }
	enum { kind = 3 };
};

// trivially destructible, yet not trivially movable: the object knows its own address and a move marks its source, so a
// byte-wise relocation (or a move that bypasses the move constructor) is visible
extern long g_userCopies;   // copy constructions of stored types that have no fault point of their own

template <int PAD, int TAG>
struct SelfRef
{
	const SelfRef * self;
	int val;
	unsigned char pad[PAD > 0 ? PAD : 1];
	explicit SelfRef(int v) : self(this), val(v) { for(int i = 0; i < (PAD > 0 ? PAD : 1); ++i) pad[i] = (unsigned char)(v + i + TAG); }
	SelfRef(const SelfRef & o) : self(this), val(o.val) { std::memcpy(pad, o.pad, sizeof(pad)); ++g_userCopies; }
	SelfRef(SelfRef && o) : self(this), val(o.val) { std::memcpy(pad, o.pad, sizeof(pad)); o.val = -1; }
	SelfRef & operator = (const SelfRef &) = delete;
	static SelfRef make(int v) { return SelfRef(v); }
	bool is(int v) const { if(val != v) return false; for(int i = 0; i < (PAD > 0 ? PAD : 1); ++i) if(pad[i] != (unsigned char)(v + i + TAG)) return false; return true; }
	bool alive() const { return self == this; }
	enum { kind = 4 };
};

template <typename T> struct IsCopyable { enum { value = std::is_copy_constructible<T>::value }; };

// ---------------------------------------------------------------- runner
template <int N, typename T, typename Other>
struct Runner
{
	typedef eventpp::AnyData<N> Any;
	typedef eventpp::EventQueue<int, void (int, const Any &)> Queue;
	enum { capacity = (N < (int)sizeof(eventpp::anydata_internal_::LargeData)) ? (int)sizeof(eventpp::anydata_internal_::LargeData) : N };

	struct Slot { typename std::aligned_storage<sizeof(Any), alignof(Any)>::type buf; int state; int value; Slot() : state(0), value(0) {} Any * any() { return reinterpret_cast<Any *>(&buf); } };
	// state: 0 empty, 1 holds 'value', 2 moved-from (alive holder, content unspecified)

	static void check(Any & a, int v, seq::Violation & viol, const char * when)
	{
		FaultOff off;
		const void * addr = a.getAddress();
		const T & byGet = a.template get<T>();
		const T & byRef = static_cast<T &>(a);
		const T * byPtr = static_cast<T *>(a);
		if(addr != &byGet || addr != &byRef || addr != byPtr || addr != a.getAddress()) { viol.raise("anydata-address-unstable", std::string(when) + ": get / reference / pointer / getAddress disagree or change between reads"); return; }
		if(!byGet.alive()) { viol.raise("anydata-dead-object", std::string(when) + ": the held object is not alive"); return; }
		if(!byGet.is(v)) { viol.raise("anydata-value-mismatch", std::string(when) + ": reading the held object back does not yield the stored value"); return; }
		if(!a.template isType<T>()) { viol.raise("anydata-istype", std::string(when) + ": isType<T>() is false for the stored type"); return; }
		if(a.template isType<Other>()) { viol.raise("anydata-istype", std::string(when) + ": isType<Other>() is true for a different type of the same size and kind"); return; }
		if(a.template isType<int>() && !std::is_same<T, int>::value) { viol.raise("anydata-istype", std::string(when) + ": isType<int>() is true"); return; }
		const bool inlineStored = (const char *)addr >= (const char *)&a && (const char *)addr < (const char *)&a + sizeof(Any);
		if(inlineStored != ((int)sizeof(T) <= capacity)) { viol.raise("anydata-storage-split", std::string(when) + ": an object of " + std::to_string(sizeof(T)) + " bytes is stored " + (inlineStored ? "inline" : "on the heap") + " with capacity " + std::to_string((int)capacity)); return; }
	}

	template <typename Q = T>
	static typename std::enable_if<IsCopyable<Q>::value>::type makeL(Slot & s, int v) { Q obj = Q::make(v); FaultArm arm; new (s.any()) Any(obj); }
	template <typename Q = T>
	static typename std::enable_if<!IsCopyable<Q>::value>::type makeL(Slot & s, int v) { Q obj = Q::make(v); FaultArm arm; new (s.any()) Any(std::move(obj)); }

	static void run(const Plan & plan, const std::vector<int> & faults, seq::Violation & viol, std::vector<long> * passedOut, uint64_t * logHashOut)
	{
		FaultCtl & fc = faultCtl();
		fc.countdown = 0; fc.passed = 0; fc.lastFired = -1;
		ledger().reset();
		uint64_t lh = kHashInit;
		{
			Slot slots[NSLOT];
			Queue queue;
			int lastSeen = -1; bool listenerOk = true; std::string listenerWhy;
			queue.appendListener(1, [&](int a, const Any & any) {
				FaultOff off;
				lastSeen = a;
				seq::Violation v;
				check(const_cast<Any &>(any), a, v, "inside the listener of a queued event");
				if(v.set) { listenerOk = false; listenerWhy = v.cls + ": " + v.detail; }
			});
			const OpList none;
			const OpList & ops = plan.tasks.empty() ? none : plan.tasks[0];
			std::vector<long> passed(ops.size(), 0);
			for(size_t i = 0; i < ops.size() && !viol.set; ++i) {
				const Op & op = ops[i];
				long arm = 0;
				for(size_t f = 0; f + 1 < faults.size(); f += 2) if(faults[f] == (int)i) arm = faults[f + 1];
				fc.countdown = arm; fc.lastFired = -1;
				const long before = fc.passed;
				bool threw = false;
				Slot & s = slots[((op.a % NSLOT) + NSLOT) % NSLOT];
				++counters.ops;
				lh = hashMix(lh, (uint64_t)op.k * 131 + (uint64_t)(uint32_t)op.a * 7 + (uint64_t)(uint32_t)op.b);
				try {
					switch(op.k) {
					case O_MAKE_L: case O_MAKE_R: {
						if(s.state != 0) break;
						const int v = 1 + (op.b % 1000);
						if(op.k == O_MAKE_L) makeL(s, v);
						else { FaultArm arm2; new (s.any()) Any(T::make(v)); }
						s.state = 1; s.value = v;
						++counters.made;
						if((int)sizeof(T) > capacity) ++counters.largeStored; else ++counters.inlineStored;
						check(*s.any(), v, viol, "right after construction");
						break;
					}
					case O_MOVE: {
						Slot & d = slots[((op.b % NSLOT) + NSLOT) % NSLOT];
						if(s.state != 1 || d.state != 0 || &s == &d) break;
						const long copiesBefore = fc.passedKind[F_COPY] + g_userCopies;
						{ FaultArm arm2; new (d.any()) Any(std::move(*s.any())); }
						if(fc.passedKind[F_COPY] + g_userCopies != copiesBefore) viol.raise("anydata-copied-on-move", "moving an AnyData copy-constructed the held object instead of moving it");
						d.state = 1; d.value = s.value; s.state = 2;
						++counters.movedChains;
						check(*d.any(), d.value, viol, "after a move construction");
						break;
					}
					case O_READ: case O_ISTYPE: {
						if(s.state != 1) break;
						++counters.reads;
						check(*s.any(), s.value, viol, "on a later read");
						break;
					}
					case O_DROP: {
						if(s.state == 0) break;
						s.any()->~Any();
						s.state = 0;
						break;
					}
					case O_QUEUE: {
						if(s.state != 1) break;
						const int v = s.value;
						s.state = 2;
						const long copiesBefore = fc.passedKind[F_COPY] + g_userCopies;
						{ FaultArm arm2; queue.enqueue(1, v, std::move(*s.any())); }
						if(fc.passedKind[F_COPY] + g_userCopies != copiesBefore) viol.raise("anydata-copied-on-move", "enqueueing an rvalue AnyData copy-constructed the held object instead of moving it");
						++counters.queueRoundTrips;
						lastSeen = -1;
						// (takeEvent needs a move-assignable QueuedEvent; AnyData deletes move assignment, so only process() can consume it)
						{
							FaultArm arm2;
							if(op.b & 1) queue.processOne(); else queue.process();
						}
						if(!viol.set && lastSeen != v) viol.raise("anydata-queue", "the listener did not receive the queued AnyData");
						if(!listenerOk) viol.raise("anydata-queue", listenerWhy);
						break;
					}
					default: break;
					}
				}
				catch(const InjectedFault &) { threw = true; }
				catch(const std::bad_alloc &) { threw = true; }
				passed[i] = fc.passed - before;
				const bool fired = fc.lastFired >= 0;
				fc.countdown = 0;
				if(threw && !fired) viol.raise("unexpected-exception", "operation " + std::to_string(i) + " threw although no fault was injected");
				if(fired && !threw) viol.raise("fault-swallowed", "a fault was injected into operation " + std::to_string(i) + " but the call returned normally");
				if(fired) { ++counters.opsFailedByFault; queue.clearEvents(); }
				if(ledger().hasError()) viol.raise(ledger().errorClass, ledger().error);
			}
			if(passedOut) *passedOut = passed;
			if(viol.set) { for(int i = 0; i < NSLOT; ++i) slots[i].state = 0; }
			for(int i = 0; i < NSLOT; ++i) if(slots[i].state != 0) slots[i].any()->~Any();
		}
		if(logHashOut) *logHashOut = lh;
		if(viol.set) return;
		if(ledger().hasError()) viol.raise(ledger().errorClass, ledger().error);
		else if(ledger().liveTotal() != 0) viol.raise("leak", "held objects alive after every AnyData and the queue were destroyed: " + std::to_string(ledger().liveTotal()));
	}
};

template <int N, typename T, typename Other>
void add(std::vector<Entry> & v, const char * name)
{
	Entry e; e.fn = &Runner<N, T, Other>::run; e.size = (int)sizeof(T); e.kind = T::kind; e.name = name;
	v.push_back(e);
}

#define TRIV(K) add<N, Triv<K, 1>, Triv<K, 2> >(v, "trivial " #K " bytes");
#define TRK(P) add<N, Trk<P, 1>, Trk<P, 2> >(v, "tracked non-trivial, pad " #P);
#define MO(P) add<N, MoveOnly<P, 1>, MoveOnly<P, 2> >(v, "move-only, pad " #P);
#define SH(P) add<N, Shared<P, 1>, Shared<P, 2> >(v, "shared-ownership, pad " #P);
#define SR(P) add<N, SelfRef<P, 1>, SelfRef<P, 2> >(v, "self-referential trivially destructible, pad " #P);

template <int N>
void registerAll(std::vector<Entry> & v)
{
	TRIV(1) TRIV(2) TRIV(3) TRIV(4) TRIV(7) TRIV(8) TRIV(9) TRIV(15) TRIV(16) TRIV(17) TRIV(18) TRIV(23) TRIV(24) TRIV(25) TRIV(26) TRIV(33) TRIV(63) TRIV(64) TRIV(65) TRIV(66) TRIV(81) TRIV(200)
	TRK(0) TRK(4) TRK(8) TRK(12) TRK(16) TRK(20) TRK(56) TRK(60) TRK(64) TRK(100)
	MO(0) MO(4) MO(8) MO(12) MO(16) MO(20) MO(56) MO(60) MO(64) MO(100)
	SH(0) SH(8) SH(16) SH(48) SH(56) SH(100)
	SR(0) SR(4) SR(5) SR(12) SR(13) SR(52) SR(53) SR(100)
}

#if SEQ_VARIANT == 0
void registerN0(std::vector<Entry> & v) { registerAll<1>(v); }
#elif SEQ_VARIANT == 1
void registerN1(std::vector<Entry> & v) { registerAll<8>(v); }
#elif SEQ_VARIANT == 2
void registerN2(std::vector<Entry> & v) { registerAll<16>(v); }
#elif SEQ_VARIANT == 3
void registerN3(std::vector<Entry> & v) { registerAll<24>(v); }
#elif SEQ_VARIANT == 4
void registerN4(std::vector<Entry> & v) { registerAll<64>(v); }
#endif

} // namespace sa
#endif // SEQ_VARIANT

#if defined(SEQ_MAIN)
namespace sa {
Counters counters;
long g_userCopies = 0;
static std::vector<Entry> g_table[NN];
static void ensureTable()
{
	if(!g_table[0].empty()) return;
	registerN0(g_table[0]); registerN1(g_table[1]); registerN2(g_table[2]); registerN3(g_table[3]); registerN4(g_table[4]);
}
}

namespace engine {

const char * const kName = "seq_anydata";
std::string mode = "c17";

bool wantsPilot(const Plan &) { return false; }

void generate(uint64_t seed, Plan & plan)
{
	using namespace sa;
	ensureTable();
	Rng rng(seed);
	plan.setSchedSeed(rng.next());
	const int n = (int)rng.below(NN);
	plan.user(U_N) = n;
	plan.user(U_TYPE) = (int)rng.below((uint32_t)g_table[n].size());
	plan.tasks.assign(1, OpList());
	OpList & ops = plan.tasks[0];
	const int len = mode == "c09" ? 3 + (int)rng.below(6) : 6 + (int)rng.below(20);
	for(int i = 0; i < len; ++i) {
		const uint32_t r = rng.below(100);
		const int slot = (int)rng.below(NSLOT);
		if(r < 25) { const int v = (int)rng.below(1000); ops.push_back(Op(rng.chance(1, 2) ? O_MAKE_L : O_MAKE_R, slot, v)); }
		else if(r < 55) { const int dst = (int)rng.below(NSLOT); ops.push_back(Op(O_MOVE, slot, dst)); }
		else if(r < 70) ops.push_back(Op(O_READ, slot));
		else if(r < 80) ops.push_back(Op(O_DROP, slot));
		else { const int style = (int)rng.below(2); ops.push_back(Op(O_QUEUE, slot, style)); }
	}
}

void execute(const Plan & plan, RunOut & out)
{
	using namespace sa;
	ensureTable();
	const int n = ((plan.user(U_N) % NN) + NN) % NN;
	const std::vector<Entry> & tab = g_table[n];
	const Entry & e = tab[(size_t)(((plan.user(U_TYPE) % (int)tab.size()) + (int)tab.size()) % (int)tab.size())];
	const bool faultMode = mode == "c09";
	seq::Violation viol;
	std::vector<long> passed;
	uint64_t lh = 0;
	long subRuns = 1;
	e.fn(plan, plan.faults, viol, &passed, &lh);
	if(viol.set) out.fail(viol.cls, viol.detail);
	out.logHash = lh;
	if(faultMode && plan.faults.empty() && !out.violation) {
		for(size_t i = 0; i < passed.size() && !out.violation; ++i) {
			for(long k = 1; k <= passed[i] && !out.violation; ++k) {
				std::vector<int> f; f.push_back((int)i); f.push_back((int)k);
				seq::Violation v2;
				e.fn(plan, f, v2, nullptr, nullptr);
				++subRuns; ++counters.faultRuns;
				if(v2.set) { out.fail(v2.cls, v2.detail); out.faults = f; }
			}
		}
	}
	for(int kd = 0; kd < F_KINDS; ++kd) { counters.faultsByKind[kd] += (uint64_t)faultCtl().firedKind[kd]; counters.faultsInjected += (uint64_t)faultCtl().firedKind[kd]; faultCtl().firedKind[kd] = 0; }
	const int capacity = kN[n] < 16 ? 16 : kN[n];
	if(e.size == capacity) ++counters.atCapacity;
	if(e.size == capacity + 1) ++counters.onePastCapacity;
	++counters.plans; ++counters.perN[n]; ++counters.kindCounts[e.kind % 5];
	out.subRuns = subRuns;
	out.steps = (long)(plan.tasks.empty() ? 0 : plan.tasks[0].size());
	uint64_t ch = kHashInit;
	if(!plan.tasks.empty()) for(size_t i = 0; i < plan.tasks[0].size(); ++i) { const Op & op = plan.tasks[0][i]; ch = hashMix(ch, (uint64_t)op.k * 131 + (uint64_t)(uint32_t)op.a * 31 + (uint64_t)(uint32_t)op.b * 17); }
	out.caseHash = hashMix(hashMix(ch, (uint64_t)n), (uint64_t)plan.user(U_TYPE));
	bool focus = false;
	if(!plan.tasks.empty()) for(size_t i = 0; i < plan.tasks[0].size(); ++i) if(plan.tasks[0][i].k == O_MOVE || plan.tasks[0][i].k == O_QUEUE) focus = true;
	out.nontrivial = focus;
}

std::string describe(const Plan & plan)
{
	using namespace sa;
	ensureTable();
	static const char * names[] = { "?", "constructFromLvalue", "constructFromRvalue", "moveTo", "read", "isType", "destroy", "queueRoundTrip" };
	const int n = ((plan.user(U_N) % NN) + NN) % NN;
	const std::vector<Entry> & tab = g_table[n];
	const Entry & e = tab[(size_t)(((plan.user(U_TYPE) % (int)tab.size()) + (int)tab.size()) % (int)tab.size())];
	std::ostringstream o;
	o << "AnyData<" << kN[n] << "> holding " << e.name << " (sizeof " << e.size << ") :";
	if(!plan.tasks.empty()) for(size_t i = 0; i < plan.tasks[0].size(); ++i) {
		const Op & op = plan.tasks[0][i];
		o << " " << (op.k >= 1 && op.k < O_KINDS ? names[op.k] : "?") << "(s" << ((op.a % NSLOT + NSLOT) % NSLOT);
		if(op.k == O_MOVE) o << "->s" << ((op.b % NSLOT + NSLOT) % NSLOT);
		if(op.k == O_QUEUE) o << (op.b & 1 ? ",processOne" : ",process");
		o << ")";
	}
	if(!plan.faults.empty()) o << " | faults " << seq::join(plan.faults);
	return o.str();
}

void statsJson(std::string & out)
{
	const sa::Counters & c = sa::counters;
	std::ostringstream o;
	o << ",\"probes\":{\"ops\":" << c.ops << ",\"constructed\":" << c.made << ",\"move_constructions\":" << c.movedChains << ",\"reads\":" << c.reads << ",\"queue_round_trips\":" << c.queueRoundTrips
	  << ",\"stored_on_heap\":" << c.largeStored << ",\"stored_inline\":" << c.inlineStored << ",\"plans_with_size_equal_to_capacity\":" << c.atCapacity << ",\"plans_with_size_one_past_capacity\":" << c.onePastCapacity
	  << ",\"kind_counts_trivial_tracked_moveonly_shared_selfref\":[" << c.kindCounts[0] << "," << c.kindCounts[1] << "," << c.kindCounts[2] << "," << c.kindCounts[3] << "," << c.kindCounts[4] << "]}"
	  << ",\"faults\":{\"fault_runs\":" << c.faultRuns << ",\"injected_total\":" << c.faultsInjected << ",\"alloc\":" << c.faultsByKind[F_ALLOC] << ",\"copy\":" << c.faultsByKind[F_COPY]
	  << ",\"move\":" << c.faultsByKind[F_MOVE] << ",\"call\":" << c.faultsByKind[F_CALL] << ",\"operations_failed_by_fault\":" << c.opsFailedByFault << "}"
	  << ",\"per_variant\":[" << c.perN[0] << "," << c.perN[1] << "," << c.perN[2] << "," << c.perN[3] << "," << c.perN[4] << "]";
	out += o.str();
}

} // namespace engine

int main(int argc, char ** argv) { return sim::workerMain(argc, argv); }
#endif
