// Shared pieces of the SEQ / FLT engines (C++11-clean: these sources are also built across the C20 matrix).
#ifndef VERIF_SEQ_COMMON_H
#define VERIF_SEQ_COMMON_H

#ifndef EVENTPP_VERIF
#error "the engines must be built with -DEVENTPP_VERIF"
#endif

#include "../sim/sched.h"
#include "../sim/sync.h"
#include "../sim/containers.h"
#include "../sim/ledger.h"
#include "../sim/plan.h"
#include "../sim/worker.h"

#include <eventpp/callbacklist.h>
#include <eventpp/eventdispatcher.h>
#include <eventpp/eventqueue.h>

#include <sstream>
#include <string>
#include <vector>

namespace seq {

enum { T_FN = 1, T_PAY = 2, T_KEY = 3, T_COND = 4, T_BIG = 5 };

// Threading with the real eventpp::SpinLock, schedulable through its hook (used inside a single simulated task
// so that spinning on one's own lock is a deterministic violation instead of a hang)
struct SimSpinThreading
{
	typedef eventpp::SpinLock Mutex;
	template <typename T> using Atomic = sim::SimAtomic<T>;
	typedef sim::SimCondVar ConditionVariable;
	static void verifPoint(const char * tag) { sim::S().point(tag); }
	static void verifAccess(const void * obj, bool write, const char * what) { sim::S().access(obj, write, what); }
};

inline void installHooks()
{
	eventpp::verif_::spinHook() = &sim::spinLockHook;
}

// Storage for an object under test: filled with a pattern before every construction (the injected
// "what did the memory hold before" fault).
template <typename T>
struct DirtyStorage
{
	typename std::aligned_storage<sizeof(T), alignof(T)>::type buffer;
	bool alive;
	DirtyStorage() : alive(false) {}
	T * ptr() { return reinterpret_cast<T *>(&buffer); }
	void fill(int pattern, sim::Rng & rng)
	{
		unsigned char * p = reinterpret_cast<unsigned char *>(&buffer);
		if(pattern == 3) return; // keep the previous occupant's bytes
		for(size_t i = 0; i < sizeof(T); ++i) p[i] = pattern == 0 ? (unsigned char)rng.below(256) : pattern == 1 ? 0xff : 0x00;
	}
};

struct Violation
{
	bool set;
	std::string cls, detail;
	Violation() : set(false) {}
	void raise(const std::string & c, const std::string & d) { if(!set) { set = true; cls = c; detail = d; } }
};

inline std::string join(const std::vector<int> & v)
{
	std::ostringstream o;
	o << "[";
	for(size_t i = 0; i < v.size(); ++i) { if(i) o << ","; o << v[i]; }
	o << "]";
	return o.str();
}

// running one function inside a single simulated task (self-deadlock on SimMutex / SpinLock becomes a violation)
template <typename F>
inline bool runInOneTask(F f, std::string & failClass, std::string & failDetail)
{
	sim::Sched & s = sim::S();
	sim::RunCfg cfg;
	cfg.strategy = sim::STRAT_SERIAL;
	cfg.stepCap = 2000000;
	s.beginRun(cfg);
	s.spawn(f);
	const bool done = s.run();
	if(s.failed) { failClass = s.failClass; failDetail = s.failDetail; return false; }
	if(!done) { failClass = "deadlock"; failDetail = "the single task blocked"; return false; }
	return true;
}

} // namespace seq

#endif
