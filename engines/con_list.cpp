// CON engine for C03: concurrent listener management and traversal on CallbackList / EventDispatcher
// under the controlled scheduler; linearizability + traversal conditions + happens-before + drain.
#include "con_common.h"
#include <eventpp/hetercallbacklist.h>
#include <eventpp/hetereventdispatcher.h>

#include <set>
#include <sstream>

using namespace sim;

namespace {

enum OpKind { O_APPEND = 1, O_PREPEND = 2, O_INSERT = 3, O_REMOVE = 4, O_OWNS = 5, O_EMPTY = 6, O_INVOKE = 7, O_FOREACH = 8, O_FOREACHIF = 9 };
// Op fields: a = callback id (adds) / argument (invoke); b = slot of the handle used (remove/owns/insert-before);
//            c = script of the added callback (0 none, 1 remove itself, 2 append a new callback) / stop count (forEachIf);
//            d = event key
enum { U_TASKS = 0, U_PRE = 1, U_OBJ = 2, U_EVENTS = 3, U_PRESCRIPT = 4 /* bit pairs per pre-populated callback */,
	U_WARP = 5 /* callback lists only: k + 1 = the generation counter is set k additions before its wrap before the tasks start (clock-jump fault) */ };
enum { OBJ_LIST_MX = 0, OBJ_LIST_SPIN = 1, OBJ_DISP_MAP_MX = 2, OBJ_DISP_HASH_MX = 3, OBJ_DISP_MAP_SPIN = 4, OBJ_DISP_HASH_SPIN = 5, OBJ_KINDS = 6,
	OBJ_HLIST_MX = 6, OBJ_HLIST_SPIN = 7, OBJ_HDISP_MAP_MX = 8, OBJ_HDISP_HASH_MX = 9, OBJ_ALL_KINDS = 10 /* mode c03h: the heterogeneous classes */ };
enum { MAXCB = 32, SCRIPT_CB_BASE = 16, T_FN = 1 };

const char * opName(int k)
{
	static const char * n[] = { "?", "append", "prepend", "insert", "remove", "owns", "empty", "invoke", "forEach", "forEachIf" };
	return k >= 1 && k <= 9 ? n[k] : "?";
}

struct Fn : Tracked<T_FN, true>
{
	explicit Fn(int id) : Tracked<T_FN, true>(id) {}
	void operator() (int arg) const;
};

void (*g_onCall)(const Fn &, int) = nullptr;

void Fn::operator() (int arg) const { g_onCall(*this, arg); }

struct HistOp { int task, kind, cb, usedCb, ev; bool result; long inv, ret; };
struct Trav { int task, ev; long inv, ret; std::vector<int> visits; bool complete; };

struct Counters
{
	uint64_t linChecked = 0, linOps = 0, linNodes = 0, travChecked = 0, travVisits = 0, overlapRuns = 0, warpedRuns = 0, foreignOwnsQueries = 0, removeRaces = 0, insertBeforeRemoved = 0,
		travSteppedRemoved = 0, drainRemovals = 0, nestedOps = 0, linBudgetExhausted = 0, linSkippedTooLong = 0;
	uint64_t perObj[OBJ_ALL_KINDS] = { 0, 0, 0, 0, 0, 0, 0, 0, 0, 0 };
} counters;

// ------------------------------------------------------------------------------------------- adapters
struct PolMx { using Threading = sim::SimThreading; };
struct PolSpin { using Threading = con::SimSpinThreading; };
struct PolMapMx { using Threading = sim::SimThreading; template <typename K, typename V> using Map = sim::SimOrderedMap<K, V>; };
struct PolHashMx { using Threading = sim::SimThreading; template <typename K, typename V> using Map = sim::SimHashMap<K, V>; };
struct PolMapSpin { using Threading = con::SimSpinThreading; template <typename K, typename V> using Map = sim::SimOrderedMap<K, V>; };
struct PolHashSpin { using Threading = con::SimSpinThreading; template <typename K, typename V> using Map = sim::SimHashMap<K, V>; };

template <typename Pol>
struct ListObj
{
	using CL = eventpp::CallbackList<void (int), Pol>;
	using Handle = typename CL::Handle;
	using Callback = typename CL::Callback;
	CL obj;
	Handle append(int, const Fn & f) { return obj.append(f); }
	Handle prepend(int, const Fn & f) { return obj.prepend(f); }
	Handle insert(int, const Fn & f, const Handle & before) { return obj.insert(f, before); }
	bool remove(int, const Handle & h) { return obj.remove(h); }
	bool owns(int, const Handle & h) { return obj.ownsHandle(h); }
	bool isEmpty(int) { return obj.empty(); }
	void warp(unsigned k) { const unsigned target = 0xffffffffu - k; if(target > obj.verifGetCurrentCounter()) obj.verifSetCurrentCounter(target); }
	void invoke(int, int arg) { obj(arg); }
	template <typename F> void forEach(int, F && f) { obj.forEach(std::forward<F>(f)); }
	template <typename F> bool forEachIf(int, F && f) { return obj.forEachIf(std::forward<F>(f)); }
};

template <typename Pol>
struct DispObj
{
	using D = eventpp::EventDispatcher<int, void (int), Pol>;
	using Handle = typename D::Handle;
	using Callback = typename D::Callback;
	D obj;
	Handle append(int ev, const Fn & f) { return obj.appendListener(ev, f); }
	Handle prepend(int ev, const Fn & f) { return obj.prependListener(ev, f); }
	Handle insert(int ev, const Fn & f, const Handle & before) { return obj.insertListener(ev, f, before); }
	bool remove(int ev, const Handle & h) { return obj.removeListener(ev, h); }
	bool owns(int ev, const Handle & h) { return obj.ownsHandle(ev, h); }
	bool isEmpty(int ev) { return !obj.hasAnyListener(ev); }
	void warp(unsigned) {}
	void invoke(int ev, int arg) { obj.dispatch(ev, arg); }
	template <typename F> void forEach(int ev, F && f) { obj.forEach(ev, std::forward<F>(f)); }
	template <typename F> bool forEachIf(int ev, F && f) { return obj.forEachIf(ev, std::forward<F>(f)); }
};

// The heterogeneous classes (mode c03h). Their own mutexes (callbackListListMutex guarding the lazily created per-prototype lists,
// listenerMutex guarding the event map) and the map come from the policies and are simulated; the per-prototype lists inside are
// CallbackLists with DEFAULT policies (hard-wired by the library), i.e. real std::mutex critical sections without a scheduling point in
// them - each is one atomic step here. What the scheduler explores is the heterogeneous layer: lazy creation of a prototype's list
// racing with its first uses, map insertion racing with lookups, handles crossing prototypes.
// A model "event" e is a (key, prototype) pair: e = 0 -> (key 0, void (int)); 1 -> (key 0, void (int, Tag)); 2 -> (key 1, void (int)).
struct Tag { explicit Tag() {} };
struct Fn1
{
	Fn inner;
	explicit Fn1(const Fn & f) : inner(f) {}
	void operator() (int arg, Tag) const { inner(arg); }
};
using HProtos = eventpp::HeterTuple<void (int), void (int, Tag)>;

template <typename Self, typename H>
struct HeterEnum
{
	using Handle = H;
	using Callback = std::function<void (int)>;
	template <typename F> static void call(F & f, const Handle & h, const Callback & cb)
	{
		if constexpr(std::is_invocable_v<F &, const Handle &, const Callback &>) f(h, cb); else f(cb);
	}
	template <typename F> static bool callIf(F & f, const Handle & h, const Callback & cb)
	{
		if constexpr(std::is_invocable_v<F &, const Handle &, const Callback &>) return f(h, cb); else return f(cb);
	}
	static Callback unwrap(const std::function<void (int, Tag)> & cb)
	{
		const Fn1 * p = cb.template target<Fn1>();
		return p ? Callback(p->inner) : Callback();
	}
};

template <typename Pol>
struct HeterListObj : HeterEnum<HeterListObj<Pol>, typename eventpp::HeterCallbackList<HProtos, Pol>::Handle>
{
	using CL = eventpp::HeterCallbackList<HProtos, Pol>;
	using Handle = typename CL::Handle;
	using Callback = std::function<void (int)>;
	using E = HeterEnum<HeterListObj<Pol>, Handle>;
	enum { heter = 1 };
	CL obj;
	Handle append(int e, const Fn & f) { return (e & 1) ? obj.append(Fn1(f)) : obj.append(f); }
	Handle prepend(int e, const Fn & f) { return (e & 1) ? obj.prepend(Fn1(f)) : obj.prepend(f); }
	Handle insert(int e, const Fn & f, const Handle & before) { return (e & 1) ? obj.insert(Fn1(f), before) : obj.insert(f, before); }
	bool remove(int, const Handle & h) { return obj.remove(h); }
	bool owns(int, const Handle &) { return false; }
	bool isEmpty(int) { return obj.empty(); }   // of the whole object: used by the drain check only
	void warp(unsigned) {}
	void invoke(int e, int arg) { if(e & 1) obj(arg, Tag()); else obj(arg); }
	template <typename F> void forEach(int e, F && f)
	{
		if(e & 1) obj.template forEach<void (int, Tag)>([&f](const Handle & h, const std::function<void (int, Tag)> & cb) { E::call(f, h, E::unwrap(cb)); });
		else obj.template forEach<void (int)>(std::forward<F>(f));
	}
	template <typename F> bool forEachIf(int e, F && f)
	{
		if(e & 1) return obj.template forEachIf<void (int, Tag)>([&f](const Handle & h, const std::function<void (int, Tag)> & cb) -> bool { return E::callIf(f, h, E::unwrap(cb)); });
		return obj.template forEachIf<void (int)>(std::forward<F>(f));
	}
};

template <typename Pol>
struct HeterDispObj : HeterEnum<HeterDispObj<Pol>, typename eventpp::HeterEventDispatcher<int, HProtos, Pol>::Handle>
{
	using D = eventpp::HeterEventDispatcher<int, HProtos, Pol>;
	using Handle = typename D::Handle;
	using Callback = std::function<void (int)>;
	using E = HeterEnum<HeterDispObj<Pol>, Handle>;
	enum { heter = 1 };
	D obj;
	static int key(int e) { return e >> 1; }
	Handle append(int e, const Fn & f) { return (e & 1) ? obj.appendListener(key(e), Fn1(f)) : obj.appendListener(key(e), f); }
	Handle prepend(int e, const Fn & f) { return (e & 1) ? obj.prependListener(key(e), Fn1(f)) : obj.prependListener(key(e), f); }
	Handle insert(int e, const Fn & f, const Handle & before) { return (e & 1) ? obj.insertListener(key(e), Fn1(f), before) : obj.insertListener(key(e), f, before); }
	bool remove(int e, const Handle & h) { return obj.removeListener(key(e), h); }
	bool owns(int, const Handle &) { return false; }
	bool isEmpty(int e) { return !obj.hasAnyListener(key(e)); }   // of the whole key: used by the drain check only
	void warp(unsigned) {}
	void invoke(int e, int arg) { if(e & 1) obj.dispatch(key(e), arg, Tag()); else obj.dispatch(key(e), arg); }
	template <typename F> void forEach(int e, F && f)
	{
		if(e & 1) obj.template forEach<void (int, Tag)>(key(e), [&f](const Handle & h, const std::function<void (int, Tag)> & cb) { E::call(f, h, E::unwrap(cb)); });
		else obj.template forEach<void (int)>(key(e), std::forward<F>(f));
	}
	template <typename F> bool forEachIf(int e, F && f)
	{
		if(e & 1) return obj.template forEachIf<void (int, Tag)>(key(e), [&f](const Handle & h, const std::function<void (int, Tag)> & cb) -> bool { return E::callIf(f, h, E::unwrap(cb)); });
		return obj.template forEachIf<void (int)>(key(e), std::forward<F>(f));
	}
};

// ------------------------------------------------------------------------------------------- harness
template <typename Obj>
struct Harness
{
	using Handle = typename Obj::Handle;
	using Callback = typename Obj::Callback;

	const Plan & plan;
	Obj * obj;
	Handle handles[MAXCB];
	bool filled[MAXCB];
	int cbEvent[MAXCB];
	int cbScript[MAXCB];
	bool scriptDone[MAXCB];
	bool everAdded[MAXCB];
	std::vector<HistOp> hist;
	std::vector<Trav> travs;
	int activeTrav[MAXT];
	con::Stamp stamp;
	int nEvents;
	std::string harnessError;

	static Harness * self;

	explicit Harness(const Plan & p) : plan(p), obj(nullptr)
	{
		for(int i = 0; i < MAXCB; ++i) { filled[i] = false; cbEvent[i] = 0; cbScript[i] = 0; scriptDone[i] = false; everAdded[i] = false; }
		for(int i = 0; i < MAXT; ++i) activeTrav[i] = -1;
		nEvents = std::max(1, std::min(3, plan.user(U_EVENTS)));
	}

	static void onCall(const Fn & f, int arg)
	{
		self->called(f, arg);
	}

	void called(const Fn & f, int)
	{
		Sched & s = S();
		s.point("cb.enter");
		f.alive("callback invoked");
		const int id = f.id;
		const int t = s.current();
		if(t >= 0 && activeTrav[t] >= 0) travs[activeTrav[t]].visits.push_back(id);
		if(id >= 0 && id < MAXCB && s.phaseChecked) {
			if(cbScript[id] == 1) {
				++counters.nestedOps;
				doOp(Op(O_REMOVE, 0, id, 0, cbEvent[id]), t);
			}
			else if(cbScript[id] == 2 && !scriptDone[id] && id + SCRIPT_CB_BASE < MAXCB) {
				scriptDone[id] = true;
				++counters.nestedOps;
				doOp(Op(O_APPEND, id + SCRIPT_CB_BASE, 0, 0, cbEvent[id]), t);
			}
		}
		s.point("cb.exit");
	}

	int ev(const Op & op) const { return ((op.d % nEvents) + nEvents) % nEvents; }

	void doOp(const Op & op, int task)
	{
		HistOp h; h.task = task; h.kind = op.k; h.cb = -1; h.usedCb = -1; h.ev = ev(op); h.result = false; h.inv = h.ret = 0;
		const int e = h.ev;
		OpScope scope;
		switch(op.k) {
		case O_APPEND: case O_PREPEND: case O_INSERT: {
			const int cb = op.a;
			if(cb < 0 || cb >= MAXCB || everAdded[cb]) return; // ids are unique; a duplicated op (after plan edits) is skipped
			everAdded[cb] = true;
			cbEvent[cb] = e;
			if(cb < SCRIPT_CB_BASE) cbScript[cb] = op.c;
			h.cb = cb;
			Fn f(cb);
			Handle before;
			if(op.k == O_INSERT) {
				const int slot = op.b;
				if(slot >= 0 && slot < MAXCB && filled[slot] && cbEvent[slot] == e) { before = handles[slot]; h.usedCb = slot; }
			}
			h.inv = stamp.next();
			Handle hd = op.k == O_APPEND ? obj->append(e, f) : op.k == O_PREPEND ? obj->prepend(e, f) : obj->insert(e, f, before);
			h.ret = stamp.next();
			handles[cb] = hd; filled[cb] = true;
			hist.push_back(h);
			break;
		}
		case O_REMOVE: case O_OWNS: {
			Handle hd;
			const int slot = op.b;
			if(slot >= 0 && slot < MAXCB && filled[slot] && cbEvent[slot] == e) { hd = handles[slot]; h.usedCb = slot; }
			// ownsHandle(event, handle of ANOTHER event's listener) is a legitimate query (it must answer false); remove / insert
			// with a foreign handle are documented misuse and keep getting an empty handle instead
			else if(op.k == O_OWNS && slot >= 0 && slot < MAXCB && filled[slot]) { hd = handles[slot]; ++counters.foreignOwnsQueries; }
			h.inv = stamp.next();
			h.result = op.k == O_REMOVE ? obj->remove(e, hd) : obj->owns(e, hd);
			h.ret = stamp.next();
			hist.push_back(h);
			break;
		}
		case O_EMPTY: {
			h.inv = stamp.next();
			h.result = obj->isEmpty(e);
			h.ret = stamp.next();
			hist.push_back(h);
			break;
		}
		case O_INVOKE: case O_FOREACH: case O_FOREACHIF: {
			if(activeTrav[task] >= 0) return; // no nested traversals in these plans
			Trav tr; tr.task = task; tr.ev = e; tr.complete = true; tr.inv = stamp.next(); tr.ret = 0;
			travs.push_back(tr);
			const int idx = (int)travs.size() - 1;
			activeTrav[task] = idx;
			if(op.k == O_INVOKE) {
				obj->invoke(e, op.a);
			}
			else if(op.k == O_FOREACH) {
				if(op.a & 1) {
					obj->forEach(e, [this, idx](const Handle &, const Callback & cb) { enumerated(idx, cb); });
				}
				else {
					obj->forEach(e, [this, idx](const Callback & cb) { enumerated(idx, cb); });
				}
			}
			else {
				const int stopAfter = std::max(1, op.c);
				const bool r = obj->forEachIf(e, [this, idx, stopAfter](const Callback & cb) -> bool {
					enumerated(idx, cb);
					return (int)travs[idx].visits.size() < stopAfter;
				});
				if(!r) travs[idx].complete = false;
			}
			travs[idx].ret = stamp.next();
			activeTrav[task] = -1;
			break;
		}
		default: break;
		}
	}

	void enumerated(int idx, const Callback & cb)
	{
		S().point("enum.visit");
		const Fn * f = cb.template target<Fn>();
		if(!f) { harnessError = "enumeration yielded a callback that is not a harness functor"; return; }
		f->alive("callback enumerated");
		travs[idx].visits.push_back(f->id);
	}

	// ---------------------------------------------------------------- model + linearizability
	struct Model
	{
		std::vector<int> lists[3];
		bool has(int e, int cb) const { return std::find(lists[e].begin(), lists[e].end(), cb) != lists[e].end(); }
		uint64_t hash() const
		{
			uint64_t h = kHashInit;
			for(int e = 0; e < 3; ++e) { for(size_t i = 0; i < lists[e].size(); ++i) h = hashMix(h, (uint64_t)lists[e][i] + 1); h = hashMix(h, 0xffff); }
			return h;
		}
	};

	std::vector<const HistOp *> lops;
	bool before[MAXCB][MAXCB];
	std::set<std::pair<uint32_t, uint64_t> > deadEnds;
	Model finalObserved;
	long linBudget;

	bool orderOk(const Model & m, int e, int x) const
	{
		const std::vector<int> & l = m.lists[e];
		bool seen = false;
		for(size_t i = 0; i < l.size(); ++i) {
			if(l[i] == x) { seen = true; continue; }
			const int y = l[i];
			if(!seen && before[x][y]) return false; // y is ahead of x in the list but a traversal visited x before y
			if(seen && before[y][x]) return false;
		}
		return true;
	}

	bool applyOp(Model & m, const HistOp & h) const
	{
		std::vector<int> & l = m.lists[h.ev];
		switch(h.kind) {
		case O_APPEND: l.push_back(h.cb); return orderOk(m, h.ev, h.cb);
		case O_PREPEND: l.insert(l.begin(), h.cb); return orderOk(m, h.ev, h.cb);
		case O_INSERT: {
			std::vector<int>::iterator it = h.usedCb >= 0 ? std::find(l.begin(), l.end(), h.usedCb) : l.end();
			l.insert(it, h.cb);
			return orderOk(m, h.ev, h.cb);
		}
		case O_REMOVE: {
			std::vector<int>::iterator it = h.usedCb >= 0 ? std::find(l.begin(), l.end(), h.usedCb) : l.end();
			const bool present = it != l.end();
			if(present) l.erase(it);
			return present == h.result;
		}
		case O_OWNS: return (h.usedCb >= 0 && m.has(h.ev, h.usedCb)) == h.result;
		case O_EMPTY: return l.empty() == h.result;
		}
		return true;
	}

	bool search(uint32_t mask, const Model & m)
	{
		++counters.linNodes;
		if(--linBudget < 0) { if(linBudget == -1) ++counters.linBudgetExhausted; return true; } // budget exhausted: no verdict (counted, never an alarm)
		const size_t n = lops.size();
		if(mask == (n >= 32 ? 0xffffffffu : ((1u << n) - 1))) {
			for(int e = 0; e < 3; ++e) if(m.lists[e] != finalObserved.lists[e]) return false;
			return true;
		}
		const std::pair<uint32_t, uint64_t> key(mask, m.hash());
		if(deadEnds.count(key)) return false;
		// minimal return stamp among the pending ops: an op may go next only if it was invoked before that
		long minRet = -1;
		for(size_t i = 0; i < n; ++i) if(!(mask & (1u << i))) { if(minRet < 0 || lops[i]->ret < minRet) minRet = lops[i]->ret; }
		for(size_t i = 0; i < n; ++i) {
			if(mask & (1u << i)) continue;
			if(lops[i]->inv > minRet) continue;
			Model next = m;
			if(!applyOp(next, *lops[i])) continue;
			if(search(mask | (1u << i), next)) return true;
		}
		deadEnds.insert(key);
		return false;
	}

	std::string renderHistory() const
	{
		std::ostringstream o;
		for(size_t i = 0; i < hist.size(); ++i) {
			const HistOp & h = hist[i];
			o << "t" << h.task << ":" << opName(h.kind);
			if(h.cb >= 0) o << " cb" << h.cb;
			if(h.kind == O_INSERT || h.kind == O_REMOVE || h.kind == O_OWNS) o << " h" << h.usedCb;
			if(nEvents > 1) o << " ev" << h.ev;
			if(h.kind == O_REMOVE || h.kind == O_OWNS || h.kind == O_EMPTY) o << "=" << (h.result ? "T" : "F");
			o << "[" << h.inv << "," << h.ret << "] ";
		}
		for(size_t i = 0; i < travs.size(); ++i) {
			o << "trav t" << travs[i].task << "[" << travs[i].inv << "," << travs[i].ret << "]:";
			for(size_t j = 0; j < travs[i].visits.size(); ++j) o << travs[i].visits[j] << (j + 1 < travs[i].visits.size() ? "," : "");
			o << " ";
		}
		o << "final:";
		for(int e = 0; e < nEvents; ++e) { o << "("; for(size_t j = 0; j < finalObserved.lists[e].size(); ++j) o << finalObserved.lists[e][j] << (j + 1 < finalObserved.lists[e].size() ? "," : ""); o << ")"; }
		return o.str();
	}

	void observeFinal(Model & m)
	{
		for(int e = 0; e < nEvents; ++e) {
			m.lists[e].clear();
			std::vector<int> & l = m.lists[e];
			obj->forEach(e, [&l](const Callback & cb) {
				const Fn * f = cb.template target<Fn>();
				l.push_back(f ? f->id : -99);
			});
		}
	}

	// ---------------------------------------------------------------- the run
	void run(RunOut & out)
	{
		self = this;
		g_onCall = &Harness::onCall;
		Sched & s = S();
		ledger().reset();
		s.beginRun(con::runCfgFromPlan(plan));
		obj = new Obj();
		s.watch(obj, sizeof(Obj));

		Model initial;
		const int pre = std::max(0, std::min(4, plan.user(U_PRE)));
		for(int cb = 0; cb < pre; ++cb) {
			const int e = cb % nEvents;
			everAdded[cb] = true; cbEvent[cb] = e; cbScript[cb] = (plan.user(U_PRESCRIPT) >> (2 * cb)) & 3;
			Fn f(cb);
			handles[cb] = obj->append(e, f); filled[cb] = true;
			initial.lists[e].push_back(cb);
		}

		// clock-jump fault: the concurrent additions of this run straddle the wrap of the 32-bit generation counter
		if(plan.user(U_WARP) > 0) { obj->warp((unsigned)std::min(8, plan.user(U_WARP) - 1)); ++counters.warpedRuns; }

		const int nTasks = std::min((int)plan.tasks.size(), (int)MAXT - 2);
		for(int t = 0; t < nTasks; ++t) {
			const OpList * ops = &plan.tasks[t];
			s.spawn([this, ops, t]() {
				for(size_t i = 0; i < ops->size(); ++i) doOp((*ops)[i], t);
			});
		}
		const bool done = s.run();
		out.steps = s.steps;
		out.choices = s.choices;
		out.caseHash = s.ileaveHash;
		out.nontrivial = s.runPreemptInOp > 0;
		if(out.nontrivial) ++counters.overlapRuns;

		if(s.failed) out.fail(s.failClass, s.failDetail);
		else if(!done) out.fail("deadlock", "no task runnable while some task is unfinished");
		else if(ledger().hasError()) out.fail(ledger().errorClass, ledger().error);
		else if(!harnessError.empty()) out.fail("enumeration-corrupt", harnessError);

		if(!out.violation) checkAfterJoin(initial, out);

		uint64_t lh = s.logHash;
		for(size_t i = 0; i < hist.size(); ++i) lh = hashMix(lh, (uint64_t)hist[i].kind * 131 + (uint64_t)(hist[i].result ? 7 : 3) + (uint64_t)hist[i].inv * 1000003 + (uint64_t)hist[i].ret);
		for(size_t i = 0; i < travs.size(); ++i) for(size_t j = 0; j < travs[i].visits.size(); ++j) lh = hashMix(lh, (uint64_t)travs[i].visits[j] + 17);
		out.logHash = lh;

		s.accumulateStats();
		if(!out.violation) {
			delete obj; obj = nullptr;
			for(int i = 0; i < MAXCB; ++i) handles[i] = Handle();
			if(ledger().hasError()) out.fail(ledger().errorClass, ledger().error);
			else if(ledger().liveTotal() != 0) out.fail("leak", "callback objects alive after the list was destroyed: id " + std::to_string(ledger().anyLiveId(T_FN)));
		}
		// on violation the object is deliberately leaked: abandoned fibers may still reference it
	}

	void checkAfterJoin(const Model & initial, RunOut & out)
	{
		observeFinal(finalObserved);

		// traversal order constraints
		std::memset(before, 0, sizeof(before));
		for(size_t i = 0; i < travs.size(); ++i) {
			const std::vector<int> & v = travs[i].visits;
			for(size_t a = 0; a < v.size(); ++a) for(size_t b = a + 1; b < v.size(); ++b) {
				if(v[a] >= 0 && v[a] < MAXCB && v[b] >= 0 && v[b] < MAXCB && v[a] != v[b]) before[v[a]][v[b]] = true;
			}
		}

		// (5) traversal conditions
		for(size_t i = 0; i < travs.size() && !out.violation; ++i) {
			const Trav & t = travs[i];
			++counters.travChecked; counters.travVisits += t.visits.size();
			std::set<int> seen;
			for(size_t j = 0; j < t.visits.size(); ++j) {
				const int id = t.visits[j];
				if(!seen.insert(id).second) { out.fail("traversal-visited-twice", "callback " + std::to_string(id) + " visited twice by one traversal; " + renderHistory()); break; }
				if(id < 0 || id >= MAXCB || !everAdded[id] || cbEvent[id] != t.ev) { out.fail("traversal-visited-foreign", "callback " + std::to_string(id) + " is not a listener of the traversed list; " + renderHistory()); break; }
				long addInv = 0;
				bool removedBefore = false;
				for(size_t k = 0; k < hist.size(); ++k) {
					const HistOp & h = hist[k];
					if(h.cb == id) addInv = h.inv;
					if(h.kind == O_REMOVE && h.usedCb == id && h.result && h.ret < t.inv) removedBefore = true;
				}
				if(addInv > t.ret) { out.fail("traversal-visited-future", "callback " + std::to_string(id) + " visited before it was added; " + renderHistory()); break; }
				if(removedBefore) { out.fail("traversal-visited-removed", "callback " + std::to_string(id) + " visited although its removal had returned before the traversal began; " + renderHistory()); break; }
			}
			if(out.violation || !t.complete) continue;
			for(int id = 0; id < MAXCB; ++id) {
				if(!everAdded[id] || cbEvent[id] != t.ev) continue;
				long addRet = 0; // pre-populated: before everything
				bool removeOverlaps = false;
				for(size_t k = 0; k < hist.size(); ++k) {
					const HistOp & h = hist[k];
					if(h.cb == id) addRet = h.ret;
					if(h.kind == O_REMOVE && h.usedCb == id && h.result && h.inv < t.ret) removeOverlaps = true;
				}
				if(addRet < t.inv && !removeOverlaps && !seen.count(id)) {
					out.fail("traversal-missed", "callback " + std::to_string(id) + " stayed in the list for the whole traversal but was not visited; " + renderHistory());
					break;
				}
			}
		}
		if(out.violation) return;

		// (3) linearizability of the adding / removing / querying calls with the final order
		lops.clear();
		for(size_t i = 0; i < hist.size(); ++i) lops.push_back(&hist[i]);
		if(lops.size() > 24) ++counters.linSkippedTooLong;
		if(lops.size() <= 24) {
			deadEnds.clear();
			linBudget = 400000;
			++counters.linChecked; counters.linOps += lops.size();
			if(!search(0, initial)) {
				out.fail("not-linearizable", renderHistory());
				return;
			}
		}

		// probes
		for(size_t i = 0; i < hist.size(); ++i) {
			const HistOp & h = hist[i];
			if(h.kind == O_REMOVE && h.usedCb >= 0) {
				for(size_t k = 0; k < hist.size(); ++k) {
					if(k != i && hist[k].kind == O_REMOVE && hist[k].usedCb == h.usedCb && hist[k].inv < h.ret && h.inv < hist[k].ret) { ++counters.removeRaces; break; }
				}
			}
			if(h.kind == O_INSERT && h.usedCb >= 0) {
				for(size_t k = 0; k < hist.size(); ++k) {
					if(hist[k].kind == O_REMOVE && hist[k].usedCb == h.usedCb && hist[k].result && hist[k].inv < h.ret && h.inv < hist[k].ret) { ++counters.insertBeforeRemoved; break; }
				}
			}
		}

		// (4) drain: unlink every survivor one by one, enumerating after each
		Rng drainRng(plan.schedSeed() ^ 0x5bd1e995u);
		Model cur = finalObserved;
		for(;;) {
			int total = 0;
			for(int e = 0; e < nEvents; ++e) total += (int)cur.lists[e].size();
			if(total == 0) break;
			int pick = (int)drainRng.below((uint32_t)total);
			int e = 0;
			while(pick >= (int)cur.lists[e].size()) { pick -= (int)cur.lists[e].size(); ++e; }
			const int id = cur.lists[e][pick];
			if(id < 0 || id >= MAXCB || !filled[id]) { out.fail("drain-unknown-callback", renderHistory()); return; }
			++counters.drainRemovals;
			if(!obj->remove(e, handles[id])) { out.fail("drain-remove-failed", "removing surviving callback " + std::to_string(id) + " returned false; " + renderHistory()); return; }
			cur.lists[e].erase(cur.lists[e].begin() + pick);
			Model seenNow;
			observeFinal(seenNow);
			for(int k = 0; k < nEvents; ++k) {
				if(seenNow.lists[k] != cur.lists[k]) {
					out.fail("drain-mismatch", "after removing callback " + std::to_string(id) + " the enumeration differs from the expected content; " + renderHistory());
					return;
				}
			}
			if(ledger().liveCount(T_FN, id) != 0) { out.fail("removed-callback-still-alive", "callback " + std::to_string(id) + " has live instances after its removal with no traversal in progress"); return; }
		}
		for(int e = 0; e < nEvents; ++e) {
			if(!obj->isEmpty(e)) { out.fail("drain-not-empty", "list reports non-empty after all callbacks were removed"); return; }
		}
	}
};

template <typename Obj> Harness<Obj> * Harness<Obj>::self = nullptr;

template <typename Obj>
void runWith(const Plan & plan, RunOut & out)
{
	Harness<Obj> * h = new Harness<Obj>(plan);
	h->run(out);
	if(!out.violation) delete h; // leaked on violation (fibers may reference it)
}

} // namespace

namespace engine {

const char * const kName = "con_list";
std::string mode = "c03";

bool wantsPilot(const Plan & plan)
{
	return plan.cfg[CFG_STRATEGY] == STRAT_PCT || plan.cfg[CFG_STRATEGY] == STRAT_PREEMPT;
}

void generate(uint64_t seed, Plan & plan)
{
	Rng rng(seed);
	con::chooseStrategy(rng, plan);
	const bool heter = mode == "c03h";
	const int objKind = heter ? OBJ_HLIST_MX + (int)rng.below(OBJ_ALL_KINDS - OBJ_HLIST_MX) : (int)rng.below(OBJ_KINDS);
	const bool disp = heter ? objKind >= OBJ_HDISP_MAP_MX : objKind >= OBJ_DISP_MAP_MX;
	const int nEvents = heter ? (disp ? 3 : 2) : disp ? 2 + (int)rng.below(2) : 1;
	const uint32_t tr = rng.below(100);
	const int nTasks = tr < 50 ? 2 : tr < 85 ? 3 : 4;
	const int pre = (int)rng.below(4);
	plan.user(U_TASKS) = nTasks;
	plan.user(U_PRE) = pre;
	plan.user(U_OBJ) = objKind;
	plan.user(U_EVENTS) = nEvents;
	int prescript = 0;
	for(int cb = 0; cb < pre; ++cb) {
		const uint32_t r = rng.below(100);
		prescript |= (r < 25 ? 1 : r < 35 ? 2 : 0) << (2 * cb);
	}
	plan.user(U_PRESCRIPT) = prescript;
	plan.user(U_WARP) = (!heter && !disp && rng.chance(1, 5)) ? 1 + (int)rng.below(5) : 0;

	int cbEvent[MAXCB];
	for(int cb = 0; cb < pre; ++cb) cbEvent[cb] = cb % nEvents;
	int nextCb = pre;
	int budget = 14;
	plan.tasks.assign((size_t)nTasks, OpList());
	std::vector<int> lens((size_t)nTasks);
	for(int t = 0; t < nTasks; ++t) lens[(size_t)t] = 2 + (int)rng.below(4);
	// round-robin generation so that slots used by one task may be created by another
	for(int round = 0; round < 5; ++round) {
		for(int t = 0; t < nTasks; ++t) {
			if(round >= lens[(size_t)t] || budget <= 0) continue;
			--budget;
			const uint32_t r = rng.below(100);
			Op op;
			const bool canAdd = nextCb < SCRIPT_CB_BASE;
			auto pickSlot = [&](int wantEvent) -> int {
				if(nextCb == 0) return (int)rng.below(4); // nothing there: an unfilled slot
				for(int tries = 0; tries < 6; ++tries) {
					const int sl = (int)rng.below((uint32_t)nextCb);
					if(wantEvent < 0 || cbEvent[sl] == wantEvent) return sl;
				}
				return (int)rng.below((uint32_t)nextCb);
			};
			if(r < 15 && canAdd) { op = Op(O_APPEND, nextCb, 0, 0, (int)rng.below((uint32_t)nEvents)); }
			else if(r < 25 && canAdd) { op = Op(O_PREPEND, nextCb, 0, 0, (int)rng.below((uint32_t)nEvents)); }
			else if(r < 45 && canAdd) { const int sl = pickSlot(-1); op = Op(O_INSERT, nextCb, sl, 0, sl < nextCb ? cbEvent[sl] : 0); }
			else if(r < 72) { const int sl = pickSlot(-1); op = Op(O_REMOVE, 0, sl, 0, sl < nextCb ? cbEvent[sl] : 0); }
			else if(r < 79) {
				const int sl = pickSlot(-1);
				int ev = sl < nextCb ? cbEvent[sl] : 0;
				if(nEvents > 1 && rng.chance(1, 2)) ev = (ev + 1 + (int)rng.below((uint32_t)nEvents - 1)) % nEvents;   // ask one event's list about another event's handle
				op = Op(O_OWNS, 0, sl, 0, ev);
			}
			else if(r < 84) { op = Op(O_EMPTY, 0, 0, 0, (int)rng.below((uint32_t)nEvents)); }
			else if(r < 95) { op = Op(O_INVOKE, (int)rng.below(100), 0, 0, (int)rng.below((uint32_t)nEvents)); }
			else if(r < 98) { op = Op(O_FOREACH, (int)rng.below(2), 0, 0, (int)rng.below((uint32_t)nEvents)); }
			else { op = Op(O_FOREACHIF, 0, 0, 1 + (int)rng.below(3), (int)rng.below((uint32_t)nEvents)); }
			if(op.k == O_APPEND || op.k == O_PREPEND || op.k == O_INSERT) {
				const uint32_t sr = rng.below(100);
				op.c = sr < 15 ? 1 : sr < 22 ? 2 : 0;
				cbEvent[nextCb] = op.d;
				++nextCb;
			}
			// the heterogeneous classes have no ownsHandle, and their emptiness queries span all prototypes: traversals instead
			if(heter && (op.k == O_OWNS || op.k == O_EMPTY)) op = Op(op.k == O_OWNS ? O_INVOKE : O_FOREACH, (int)rng.below(100), 0, 0, (int)rng.below((uint32_t)nEvents));
			plan.tasks[(size_t)t].push_back(op);
		}
	}
}

void execute(const Plan & plan, RunOut & out)
{
	con::installHooks();
	switch(plan.user(U_OBJ)) {
	case OBJ_LIST_MX: runWith<ListObj<PolMx> >(plan, out); break;
	case OBJ_LIST_SPIN: runWith<ListObj<PolSpin> >(plan, out); break;
	case OBJ_DISP_MAP_MX: runWith<DispObj<PolMapMx> >(plan, out); break;
	case OBJ_DISP_HASH_MX: runWith<DispObj<PolHashMx> >(plan, out); break;
	case OBJ_DISP_MAP_SPIN: runWith<DispObj<PolMapSpin> >(plan, out); break;
	case OBJ_DISP_HASH_SPIN: runWith<DispObj<PolHashSpin> >(plan, out); break;
	case OBJ_HLIST_MX: runWith<HeterListObj<PolMx> >(plan, out); break;
	case OBJ_HLIST_SPIN: runWith<HeterListObj<PolSpin> >(plan, out); break;
	case OBJ_HDISP_MAP_MX: runWith<HeterDispObj<PolMapMx> >(plan, out); break;
	default: runWith<HeterDispObj<PolHashMx> >(plan, out); break;
	}
	if(plan.user(U_OBJ) >= 0 && plan.user(U_OBJ) < OBJ_ALL_KINDS) ++counters.perObj[plan.user(U_OBJ)];
}

std::string describe(const Plan & plan)
{
	static const char * objNames[] = { "CallbackList/SimMutex", "CallbackList/SpinLock", "EventDispatcher/map/SimMutex", "EventDispatcher/unordered_map/SimMutex", "EventDispatcher/map/SpinLock", "EventDispatcher/unordered_map/SpinLock",
		"HeterCallbackList/SimMutex", "HeterCallbackList/SpinLock", "HeterEventDispatcher/map/SimMutex", "HeterEventDispatcher/unordered_map/SimMutex" };
	std::ostringstream o;
	const int k = plan.user(U_OBJ);
	o << (k >= 0 && k < OBJ_ALL_KINDS ? objNames[k] : "?") << " pre=" << plan.user(U_PRE) << (plan.user(U_WARP) > 0 ? " wrap-in-" + std::to_string(plan.user(U_WARP) - 1) : std::string()) << " strat=" << plan.cfg[CFG_STRATEGY] << "/" << plan.cfg[CFG_DEPTH];
	for(size_t t = 0; t < plan.tasks.size(); ++t) {
		o << " | t" << t << ":";
		for(size_t i = 0; i < plan.tasks[t].size(); ++i) {
			const Op & op = plan.tasks[t][i];
			o << " " << opName(op.k);
			if(op.k <= O_INSERT) o << "(cb" << op.a << (op.c == 1 ? ",rmself" : op.c == 2 ? ",appends" : "") << (op.k == O_INSERT ? ",before h" + std::to_string(op.b) : std::string()) << ")";
			else if(op.k == O_REMOVE || op.k == O_OWNS) o << "(h" << op.b << ")";
			if(plan.user(U_EVENTS) > 1) o << "@" << op.d;
		}
	}
	return o.str();
}

void statsJson(std::string & out)
{
	Sched & s = S();
	std::ostringstream o;
	o << ",\"sched_points\":" << s.totSteps << ",\"switches\":" << s.totSwitches << ",\"preempt_inside_op\":" << s.totPreemptInOp
	  << ",\"sim_ns\":" << s.totSimNs
	  << ",\"probes\":{\"lin_histories_checked\":" << counters.linChecked << ",\"lin_ops\":" << counters.linOps << ",\"lin_search_nodes\":" << counters.linNodes
	  << ",\"traversals_checked\":" << counters.travChecked << ",\"traversal_visits\":" << counters.travVisits
	  << ",\"runs_with_overlap\":" << counters.overlapRuns << ",\"runs_straddling_the_generation_wrap\":" << counters.warpedRuns << ",\"ownsHandle_queries_with_another_events_handle\":" << counters.foreignOwnsQueries << ",\"concurrent_removes_same_handle\":" << counters.removeRaces
	  << ",\"insert_before_concurrently_removed\":" << counters.insertBeforeRemoved << ",\"drain_removals\":" << counters.drainRemovals
	  << ",\"nested_ops_from_callbacks\":" << counters.nestedOps << ",\"lin_search_budget_exhausted\":" << counters.linBudgetExhausted << ",\"lin_histories_too_long_skipped\":" << counters.linSkippedTooLong
	  << ",\"mutex_contended\":" << probes().mutexContended << ",\"spin_contended\":" << probes().spinContended << "}"
	  << ",\"per_object\":[" << counters.perObj[0] << "," << counters.perObj[1] << "," << counters.perObj[2] << "," << counters.perObj[3] << "," << counters.perObj[4] << "," << counters.perObj[5] << "," << counters.perObj[6] << "," << counters.perObj[7] << "," << counters.perObj[8] << "," << counters.perObj[9] << "]";
	out += o.str();
}

} // namespace engine

int main(int argc, char ** argv) { return sim::workerMain(argc, argv); }
