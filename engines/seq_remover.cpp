// SEQ / FLT engine for the remover utilities.
// Modes: c15 (ScopedRemover lifecycle histories vs. a responsibility model), c16 (CounterRemover / ConditionalRemover
//        trigger histories incl. re-entrant triggers vs. a counting model), c09 (fault enumeration over both)
#ifdef SEQ_MAIN
#define VERIF_REPLACE_NEW
#endif
#include "seq_common.h"
#include <climits>

#include <eventpp/hetereventdispatcher.h>
#include <eventpp/utilities/scopedremover.h>
#include <eventpp/utilities/counterremover.h>
#include <eventpp/utilities/conditionalremover.h>

#include <set>

using namespace sim;

namespace sr {

enum { NTARGET = 2, NREMOVER = 3, NKEY = 2, MAXSLOT = 40 };
enum OpKind {
	// c15
	O_R_ADD = 1, O_D_ADD = 2, O_R_REMOVE = 3, O_D_REMOVE = 4, O_RESET = 5, O_SET_TARGET = 6, O_MOVE_CONSTRUCT = 7, O_MOVE_ASSIGN = 8, O_SWAP = 9, O_DESTROY = 10,
	O_CREATE = 11, O_TRIGGER = 12,
	// c16
	O_C_ADD = 13, O_X_ADD = 14, O_P_ADD = 15, O_QTRIGGER = 16, O_KINDS = 17
};
// Op fields (c15): d = remover * 8 + target * 4 + key... see code: a = callback id (= slot) / other remover, b = slot / how, c = how (0 append, 1 prepend, 2 insert before slot b)
// Op fields (c16): a = callback id, b = count (counter) or outcome pattern (conditional), c = flags (bit0-1 how, bit2 condition takes the argument, bit3 listener re-triggers its own key), d = target * 4 + key
enum { U_VARIANT = 0, U_FILL = 1 };
enum { V_LIST = 0, V_DISPATCHER = 1, V_QUEUE = 2, V_HETER = 3, V_HETER_REF = 4, V_LIST_SPIN = 5, V_COUNT = 6 };

struct Sink
{
	virtual bool listenerEnter(int cb, int arg) = 0;   // bookkeeping at the moment the wrapped listener is reached; false: stop
	virtual void listenerBody(int cb, int arg) = 0;    // what the listener itself does (re-trigger)
	virtual bool condition(int cb, bool hasArg, int arg, int ownCalls) = 0;
	virtual ~Sink() {}
};
extern Sink * g_sink;

struct Fn : Tracked<seq::T_FN, false>
{
	explicit Fn(int id) : Tracked<seq::T_FN, false>(id) {}
	void operator() (int arg) const
	{
		// the remover wrappers act (consume the count / evaluate the condition, detach) BEFORE the listener body runs:
		// the model is updated first, then the body may throw
		{ FaultOff off; this->alive("listener invoked"); if(!g_sink->listenerEnter(this->id, arg)) return; }
		faultPoint(F_CALL);
		FaultOff off;
		g_sink->listenerBody(this->id, arg);
	}
};
struct CondArg : Tracked<seq::T_COND, false>
{
	// the condition keeps state inside the callable (how often THIS object has been asked): the library must evaluate the stored
	// condition object itself on every trigger, not a copy of it
	mutable int calls;
	explicit CondArg(int id) : Tracked<seq::T_COND, false>(id), calls(0) {}
	// the result is an int whose truthy value is 4 ("flags & mask"): the library must convert it to bool, not compare it with true
	int operator() (int arg) const { faultPoint(F_CALL); FaultOff off; this->alive("condition evaluated"); return g_sink->condition(this->id, true, arg, calls++) ? 4 : 0; }
};
struct CondNoArg : Tracked<seq::T_COND, false>
{
	mutable int calls;
	explicit CondNoArg(int id) : Tracked<seq::T_COND, false>(id), calls(0) {}
	long operator() () const { faultPoint(F_CALL); FaultOff off; this->alive("condition evaluated"); return g_sink->condition(this->id, false, 0, calls++) ? 2L : 0L; }
};

// callable both with the trigger's argument and with none: "evaluated ... with the trigger's arguments if it accepts them" - the
// form with the argument is the one the library must use
struct CondBoth : Tracked<seq::T_COND, false>
{
	mutable int calls;
	explicit CondBoth(int id) : Tracked<seq::T_COND, false>(id), calls(0) {}
	bool operator() (int arg) const { faultPoint(F_CALL); FaultOff off; this->alive("condition evaluated"); return g_sink->condition(this->id, true, arg, calls++); }
	bool operator() () const { faultPoint(F_CALL); FaultOff off; this->alive("condition evaluated"); return g_sink->condition(this->id, false, 0, calls++); }
};

struct Counters
{
	uint64_t plans, ops, interruptedResets, dirtyConstructions, addsThroughRemover, removesThroughRemover, resets, retargets, moveAssignIntoNonEmpty, moveAssigns, moveConstructs, swaps, destroys, triggers, listenerCalls,
		limboItems, counterAdds, conditionalAdds, reentrantTriggers, conditionEvaluations, detachedByCount, detachedByCondition, queuedTriggers, nonPositiveCounts,
		faultRuns, faultsInjected, faultsByKind[F_KINDS], opsFailedByFault;
	uint64_t perVariant[V_COUNT];
};
extern Counters counters;

} // namespace sr

#if defined(SEQ_VARIANT)
namespace sr {

// ---------------------------------------------------------------- targets
// the event type of the dispatcher / queue targets: a key whose copies are fault points (the remover utilities keep copies of the
// event next to the handles they record; a throw there must leave nothing attached that the remover does not know about)
struct EvKey
{
	int v;
	EvKey(int v_) : v(v_) {}
	EvKey(const EvKey & o) : v(o.v) { faultPoint(F_COPY); }
	EvKey & operator = (const EvKey & o) { faultPoint(F_COPY); v = o.v; return *this; }
	bool operator < (const EvKey & o) const { return v < o.v; }
	// comparisons and the hash are user code as well (fault kind F_CMP; enabled for the add / remove operations only, see execute())
	bool operator == (const EvKey & o) const { faultPoint(F_CMP); return v == o.v; }
};
} // namespace sr
namespace std { template <> struct hash<sr::EvKey> { size_t operator() (const sr::EvKey & k) const { sim::faultPoint(sim::F_CMP); return std::hash<int>()(k.v); } }; }
namespace sr {
// the real SpinLock as the mutex of the list AND of the remover's own bookkeeping, run inside one simulated task: a lock that
// does not start out unlocked (the remover is built in dirtied storage) is a deterministic self-deadlock instead of a hang
struct PolDefault {};
struct PolSpinSim { typedef seq::SimSpinThreading Threading; };
template <typename POL, bool INSIM>
struct ListTargetT
{
	typedef eventpp::CallbackList<void (int), POL> T;
	typedef typename T::Handle Handle;
	typedef eventpp::ScopedRemover<T> Scoped;
	enum { keys = 1, queue = 0, heter = 0, inSim = INSIM ? 1 : 0, conditional = 1 };
	static Handle add(T & t, int, int how, const Fn & f, const Handle & b) { return how == 0 ? t.append(f) : how == 1 ? t.prepend(f) : t.insert(f, b); }
	static Handle radd(Scoped & r, int, int how, const Fn & f, const Handle & b) { return how == 0 ? r.append(f) : how == 1 ? r.prepend(f) : r.insert(f, b); }
	static bool remove(T & t, int, const Handle & h) { return t.remove(h); }
	static bool rremove(Scoped & r, int, const Handle & h) { return r.remove(h); }
	static void setTarget(Scoped & r, T & t) { r.setCallbackList(t); }
	static void trigger(T & t, int, int v) { t(v); }
	static void qtrigger(T & t, int, int v) { t(v); }
	template <typename F> static void forEach(T & t, int, F f) { t.forEach(f); }
	template <typename L> static Handle cadd(T & t, int, int how, const L & l, const Handle & b, int n)
	{ eventpp::CounterRemover<T> cr(t); return how == 0 ? eventpp::counterRemover(t).append(l, n) : how == 1 ? cr.prepend(l, n) : cr.insert(l, b, n); }   // (the factory function too)
	template <typename L, typename C> static Handle xadd(T & t, int, int how, const L & l, const Handle & b, const C & c)
	{ eventpp::ConditionalRemover<T> xr(t); return how == 0 ? eventpp::conditionalRemover(t).append(l, c) : how == 1 ? xr.prepend(l, c) : xr.insert(l, b, c); }
};
typedef ListTargetT<PolDefault, false> ListTarget;
typedef ListTargetT<PolSpinSim, true> SpinListTarget;

template <typename TT, bool QUEUE>
struct DispTargetT
{
	typedef TT T;
	typedef typename T::Handle Handle;
	typedef eventpp::ScopedRemover<T> Scoped;
	enum { keys = NKEY, queue = QUEUE ? 1 : 0, heter = 0, inSim = 0, conditional = 1 };
	static Handle add(T & t, int k, int how, const Fn & f, const Handle & b) { return how == 0 ? t.appendListener(k, f) : how == 1 ? t.prependListener(k, f) : t.insertListener(k, f, b); }
	static Handle radd(Scoped & r, int k, int how, const Fn & f, const Handle & b) { return how == 0 ? r.appendListener(k, f) : how == 1 ? r.prependListener(k, f) : r.insertListener(k, f, b); }
	static bool remove(T & t, int k, const Handle & h) { return t.removeListener(k, h); }
	static bool rremove(Scoped & r, int k, const Handle & h) { return r.removeListener(k, h); }
	static void setTarget(Scoped & r, T & t) { r.setDispatcher(t); }
	static void trigger(T & t, int k, int v) { t.dispatch(k, v); }
	static void qtrigger(T & t, int k, int v) { qtrig(t, k, v, (char (*)[queue + 1])nullptr); }
	template <typename F> static void forEach(T & t, int k, F f) { t.forEach(k, f); }
	template <typename L> static Handle cadd(T & t, int k, int how, const L & l, const Handle & b, int n)
	{ eventpp::CounterRemover<T> cr(t); return how == 0 ? cr.appendListener(k, l, n) : how == 1 ? eventpp::counterRemover(t).prependListener(k, l, n) : cr.insertListener(k, l, b, n); }
	template <typename L, typename C> static Handle xadd(T & t, int k, int how, const L & l, const Handle & b, const C & c)
	{ eventpp::ConditionalRemover<T> xr(t); return how == 0 ? xr.appendListener(k, l, c) : how == 1 ? eventpp::conditionalRemover(t).prependListener(k, l, c) : xr.insertListener(k, l, b, c); }
private:
	static void qtrig(T & t, int k, int v, char (*)[2]) { t.enqueue(k, v); t.process(); }
	static void qtrig(T & t, int k, int v, char (*)[1]) { t.dispatch(k, v); }
};
typedef DispTargetT<eventpp::EventDispatcher<EvKey, void (int)>, false> DispTarget;
typedef DispTargetT<eventpp::EventQueue<EvKey, void (int)>, true> QueueTarget;

// ScopedRemover is outside C15's quantifier for heterogeneous targets (and its removeListener does not compile for them): a stub
struct NoScoped
{
	NoScoped() {}
	template <typename X> explicit NoScoped(X &) {}
	void reset() {}
	void swap(NoScoped &) {}
};

struct HeterTarget
{
	typedef eventpp::HeterEventDispatcher<int, eventpp::HeterTuple<void (int), void ()> > T;
	typedef T::Handle Handle;
	typedef NoScoped Scoped;
	enum { keys = NKEY, queue = 0, heter = 1, inSim = 0, conditional = 1 };
	static Handle add(T & t, int k, int how, const Fn & f, const Handle & b) { return how == 0 ? t.appendListener(k, f) : how == 1 ? t.prependListener(k, f) : t.insertListener(k, f, b); }
	static Handle radd(Scoped &, int, int, const Fn &, const Handle &) { return Handle(); }
	static bool remove(T & t, int k, const Handle & h) { return t.removeListener(k, h); }
	static bool rremove(Scoped &, int, const Handle &) { return false; }
	static void setTarget(Scoped &, T &) {}
	static void trigger(T & t, int k, int v) { t.dispatch(k, v); }
	static void qtrigger(T & t, int k, int v) { t.dispatch(k, v); }
	template <typename F> static void forEach(T & t, int k, F f) { t.forEach<void (int)>(k, f); }
	template <typename L> static Handle cadd(T & t, int k, int how, const L & l, const Handle & b, int n)
	{ eventpp::CounterRemover<T> cr(t); return how == 0 ? cr.appendListener(k, l, n) : how == 1 ? cr.prependListener(k, l, n) : cr.insertListener(k, l, b, n); }
	template <typename L, typename C> static Handle xadd(T & t, int k, int how, const L & l, const Handle & b, const C & c)
	{ eventpp::ConditionalRemover<T> xr(t); return how == 0 ? xr.appendListener(k, l, c) : how == 1 ? xr.prependListener(k, l, c) : xr.insertListener(k, l, b, c); }
};

// A heterogeneous target whose first prototype takes a DERIVED object by value and whose second takes the BASE by non-const
// reference. A listener taking `Base &` can be called with the second prototype only (it cannot bind the first one's rvalue), and
// a wrapper around it must land in that same prototype slot: "its event or list ... for heterogeneous targets".
struct RBase { int v; explicit RBase(int v_) : v(v_) {} };
struct RDerived : RBase { explicit RDerived(int v_) : RBase(v_) {} };
struct FnRef
{
	Fn fn;
	explicit FnRef(const Fn & f) : fn(f) {}
	void operator() (RBase & b) const { fn(b.v); }
};
struct HeterRefTarget
{
	typedef eventpp::HeterEventDispatcher<int, eventpp::HeterTuple<void (RDerived), void (RBase &)> > T;
	typedef T::Handle Handle;
	typedef NoScoped Scoped;
	enum { keys = NKEY, queue = 0, heter = 1, inSim = 0, conditional = 0 };
	static Handle add(T & t, int k, int how, const Fn & f, const Handle & b) { const FnRef l(f); return how == 0 ? t.appendListener(k, l) : how == 1 ? t.prependListener(k, l) : t.insertListener(k, l, b); }
	static Handle radd(Scoped &, int, int, const Fn &, const Handle &) { return Handle(); }
	static bool remove(T & t, int k, const Handle & h) { return t.removeListener(k, h); }
	static bool rremove(Scoped &, int, const Handle &) { return false; }
	static void setTarget(Scoped &, T &) {}
	// a trigger of the OTHER prototype first (its argument value is one no listener of this engine expects), then the trigger proper
	static void trigger(T & t, int k, int v) { t.dispatch(k, RDerived(v + 100000)); RBase b(v); t.dispatch(k, b); }
	static void qtrigger(T & t, int k, int v) { RBase b(v); t.dispatch(k, b); t.dispatch(k, RDerived(v + 200000)); }
	template <typename F> static void forEach(T & t, int k, F f) { t.forEach<void (RBase &)>(k, f); }
	template <typename L> static Handle cadd(T & t, int k, int how, const L & l0, const Handle & b, int n)
	{ const FnRef l(l0); eventpp::CounterRemover<T> cr(t); return how == 0 ? cr.appendListener(k, l, n) : how == 1 ? cr.prependListener(k, l, n) : cr.insertListener(k, l, b, n); }
	// ConditionalRemover's wrapper is callable with whatever its condition accepts or, failing that, with anything: for this
	// prototype list it claims the first prototype and then does not compile around a `Base &` listener. A compile-time limit,
	// not a behaviour: conditional adds are not generated for this target (doOp skips them).
	template <typename L, typename C> static Handle xadd(T &, int, int, const L &, const Handle &, const C &) { return Handle(); }
};

// ---------------------------------------------------------------- interpreter
enum ItemKind { I_PLAIN = 0, I_COUNTER = 1, I_COND = 2 };

struct MItem
{
	int cb, kind, remaining, pattern, evals;
	bool condTakesArg, retrigger;
};

struct Frame { int target, key, arg; std::vector<int> snapshot, called; size_t pos; };

struct Limbo { int cb; std::set<int> involved; bool seenDetached; };

template <typename TG>
struct Interp : Sink
{
	typedef typename TG::T Target;
	typedef typename TG::Handle Handle;
	typedef typename TG::Scoped Scoped;

	const Plan & plan;
	const bool c16;
	seq::Violation viol;
	Target * targets[NTARGET];
	Scoped * removers[NREMOVER];
	int removerTarget[NREMOVER];          // -1: none
	std::vector<int> removerItems[NREMOVER];
	std::vector<MItem> lists[NTARGET][NKEY];
	Handle handles[MAXSLOT];
	int slotTarget[MAXSLOT], slotKey[MAXSLOT];
	bool slotUsed[MAXSLOT], slotIn[MAXSLOT], slotDropped[MAXSLOT];
	std::vector<Limbo> limbo;
	std::vector<Frame> frames;
	bool condPending[MAXSLOT], condDetach[MAXSLOT];
	int condArg[MAXSLOT];
	uint64_t logHash;
	std::vector<long> passedPerOp;
	int nKeys;
	int fuel;

	Interp(const Plan & p, bool c16_) : plan(p), c16(c16_), logHash(kHashInit), fuel(0), fillState(12345u + (uint32_t)p.user(U_FILL))
	{
		for(int i = 0; i < NTARGET; ++i) targets[i] = nullptr;
		for(int i = 0; i < NREMOVER; ++i) { removers[i] = nullptr; removerTarget[i] = -1; }
		for(int i = 0; i < MAXSLOT; ++i) { slotTarget[i] = -1; slotKey[i] = 0; slotUsed[i] = false; slotIn[i] = false; slotDropped[i] = false; condPending[i] = false; condDetach[i] = false; condArg[i] = 0; handles[i] = Handle(); }
		nKeys = TG::keys;
	}
	void log(uint64_t v) { logHash = hashMix(logHash, v); }
	int findItem(int t, int k, int cb) const { for(size_t i = 0; i < lists[t][k].size(); ++i) if(lists[t][k][i].cb == cb) return (int)i; return -1; }
	bool isLimbo(int cb) const { for(size_t i = 0; i < limbo.size(); ++i) if(limbo[i].cb == cb) return true; return false; }
	std::string render(int t, int k) const { std::vector<int> v; for(size_t i = 0; i < lists[t][k].size(); ++i) v.push_back(lists[t][k][i].cb); return seq::join(v); }

	void detachModel(int slot)
	{
		if(slot < 0 || slot >= MAXSLOT || !slotIn[slot]) return;
		const int i = findItem(slotTarget[slot], slotKey[slot], slot);
		if(i >= 0) lists[slotTarget[slot]][slotKey[slot]].erase(lists[slotTarget[slot]][slotKey[slot]].begin() + i);
		slotIn[slot] = false;
	}

	// ---- Sink
	bool retrigPending;
	bool listenerEnter(int cb, int arg) override
	{
		retrigPending = false;
		listenerImpl(cb, arg);
		return !viol.set;
	}
	void listenerBody(int, int) override
	{
		if(retrigPending && !frames.empty()) {
			retrigPending = false;
			Frame & fr = frames.back();
			--fuel;
			++counters.reentrantTriggers;
			doTrigger(fr.target, fr.key, fr.arg + 1, false);
		}
	}
	void listenerImpl(int cb, int arg)
	{
		++counters.listenerCalls;
		log((uint64_t)cb * 2654435761u + (uint64_t)(uint32_t)arg);
		if(isLimbo(cb)) return; // displaced by a move assignment: may or may not still be attached
		if(frames.empty()) { viol.raise("listener-outside-trigger", "listener " + std::to_string(cb) + " invoked outside any trigger"); return; }
		Frame & fr = frames.back();
		if(arg != fr.arg) { viol.raise("argument-mismatch", "listener " + std::to_string(cb) + " received " + std::to_string(arg) + " instead of " + std::to_string(fr.arg)); return; }
		const int idx = findItem(fr.target, fr.key, cb);
		// expected next: the next snapshot entry still present (limbo entries are not in the model lists)
		if(std::find(fr.called.begin(), fr.called.end(), cb) != fr.called.end()) { viol.raise("called-twice", "listener " + std::to_string(cb) + " called twice by one trigger"); return; }
		size_t q = fr.pos;
		while(q < fr.snapshot.size() && findItem(fr.target, fr.key, fr.snapshot[q]) < 0) ++q;
		if(q >= fr.snapshot.size() || fr.snapshot[q] != cb || idx < 0) {
			viol.raise("unexpected-listener", "listener " + std::to_string(cb) + " was invoked by a trigger of target " + std::to_string(fr.target) + "/key " + std::to_string(fr.key) + " but the model expects "
				+ (q < fr.snapshot.size() ? std::to_string(fr.snapshot[q]) : std::string("no further listener")) + "; attached now " + render(fr.target, fr.key) + (idx < 0 ? " (it was detached before this trigger reached it, or never attached)" : ""));
			return;
		}
		fr.pos = q + 1; fr.called.push_back(cb);
		MItem item = lists[fr.target][fr.key][(size_t)idx];
		if(item.kind == I_COUNTER) {
			// the count is consumed, and the listener detached, BEFORE the listener body runs
			MItem & m = lists[fr.target][fr.key][(size_t)idx];
			if(--m.remaining <= 0) { ++counters.detachedByCount; detachModel(cb); }
		}
		else if(item.kind == I_COND) {
			if(!condPending[cb]) { viol.raise("condition-not-evaluated", "conditional listener " + std::to_string(cb) + " was invoked without its condition having been evaluated for this trigger"); return; }
			condPending[cb] = false;
			if(condDetach[cb]) { condDetach[cb] = false; detachModel(cb); }
		}
		if(item.retrigger && fuel > 0 && frames.size() < 4) retrigPending = true;
	}

	bool condition(int cb, bool hasArg, int arg, int ownCalls) override
	{
		++counters.conditionEvaluations;
		if(frames.empty()) { viol.raise("condition-outside-trigger", "condition of listener " + std::to_string(cb) + " evaluated outside any trigger"); return false; }
		Frame & fr = frames.back();
		const int idx = findItem(fr.target, fr.key, cb);
		if(idx < 0) { viol.raise("condition-of-detached-listener", "condition of listener " + std::to_string(cb) + " evaluated although the listener is detached"); return false; }
		if(condPending[cb]) { viol.raise("condition-evaluated-twice", "condition of listener " + std::to_string(cb) + " evaluated twice for one trigger"); return false; }
		if(hasArg && arg != fr.arg) { viol.raise("condition-argument-mismatch", "condition of listener " + std::to_string(cb) + " received " + std::to_string(arg) + " instead of the trigger's argument " + std::to_string(fr.arg)); return false; }
		MItem & m = lists[fr.target][fr.key][(size_t)idx];
		if(hasArg != m.condTakesArg) { viol.raise("condition-wrong-overload", "condition of listener " + std::to_string(cb) + " was called " + (hasArg ? "with" : "without") + " the trigger's arguments"); return false; }
		if(ownCalls != m.evals) { viol.raise("condition-state-lost", "the condition object of listener " + std::to_string(cb) + " says it has been evaluated " + std::to_string(ownCalls) + " times before, but " + std::to_string(m.evals) + " triggers have evaluated it: a copy is being evaluated instead of the stored condition"); return false; }
		const bool verdict = ((m.pattern >> (m.evals & 7)) & 1) != 0;
		++m.evals;
		condPending[cb] = true;
		log((uint64_t)cb * 31 + (verdict ? 1 : 0));
		// the listener is still invoked for this trigger ("up to and including"); it leaves the list right before its body runs
		if(verdict) { ++counters.detachedByCondition; condDetach[cb] = true; }
		return verdict;
	}

	void doTrigger(int t, int k, int arg, bool queued)
	{
		Frame fr; fr.target = t; fr.key = k; fr.arg = arg; fr.pos = 0;
		for(size_t i = 0; i < lists[t][k].size(); ++i) fr.snapshot.push_back(lists[t][k][i].cb);
		frames.push_back(fr);
		const size_t depth = frames.size();
		try {
			FaultArm arm;
			if(queued) TG::qtrigger(*targets[t], k, arg); else TG::trigger(*targets[t], k, arg);
		}
		catch(...) { frames.resize(depth - 1); throw; }
		Frame & f2 = frames.back();
		for(size_t q = f2.pos; q < f2.snapshot.size() && !viol.set; ++q) {
			if(findItem(t, k, f2.snapshot[q]) >= 0) viol.raise("missed-listener", "listener " + std::to_string(f2.snapshot[q]) + " is attached to target " + std::to_string(t) + "/key " + std::to_string(k) + " and was not invoked by a trigger; attached " + render(t, k));
		}
		frames.pop_back();
	}

	// the storage a remover is built in holds a pattern chosen by the plan ("what the object's memory held before construction")
	typename std::aligned_storage<sizeof(Scoped), alignof(Scoped)>::type removerStorage[NREMOVER];
	uint32_t fillState;
	void * dirty(int r)
	{
		unsigned char * p = reinterpret_cast<unsigned char *>(&removerStorage[r]);
		const int pattern = plan.user(U_FILL) & 3;
		for(size_t i = 0; i < sizeof(Scoped); ++i) {
			fillState = fillState * 1664525u + 1013904223u;
			p[i] = pattern == 0 ? 0x00 : pattern == 1 ? 0xff : pattern == 2 ? 0x5a : (unsigned char)(fillState >> 24);
		}
		++counters.dirtyConstructions;
		return p;
	}

	// ---- c15 helpers
	void resetModel(int r)
	{
		if(removerTarget[r] >= 0) for(size_t i = 0; i < removerItems[r].size(); ++i) detachModel(removerItems[r][i]);
		removerItems[r].clear();
	}
	// reset() (direct or inside setDispatcher) left by an exception: every listener of the remover is attached or detached, the
	// remover is still alive and stays involved; once it is gone the listeners must be gone (the limbo rule)
	void interruptedReset(int r)
	{
		++counters.interruptedResets;
		if(removerTarget[r] < 0) return;
		for(size_t i = 0; i < removerItems[r].size(); ++i) {
			const int cb = removerItems[r][i];
			if(!slotIn[cb]) continue;
			Limbo l; l.cb = cb; l.involved.insert(r); l.seenDetached = false;
			limbo.push_back(l);
			++counters.limboItems;
			const int i2 = findItem(slotTarget[cb], slotKey[cb], cb);
			if(i2 >= 0) lists[slotTarget[cb]][slotKey[cb]].erase(lists[slotTarget[cb]][slotKey[cb]].begin() + i2);
			slotIn[cb] = false;
		}
		removerItems[r].clear();
	}
	void limboRename(int from, int to) { for(size_t i = 0; i < limbo.size(); ++i) if(limbo[i].involved.count(from)) limbo[i].involved.insert(to); }
	void removerGone(int r)
	{
		for(size_t i = 0; i < limbo.size(); ++i) limbo[i].involved.erase(r);
	}

	void doOp(const Op & op)
	{
		if(viol.set) return;
		log((uint64_t)op.k * 1000003 + (uint64_t)(uint32_t)op.a * 31 + (uint64_t)(uint32_t)op.b * 17 + (uint64_t)(uint32_t)op.d);
		const int k = ((op.d & 3) % nKeys);
		const int t = (op.d >> 2) & 1;
		const int r = ((op.d >> 3) & 3) % NREMOVER;
		switch(op.k) {
		case O_R_ADD: case O_D_ADD: {
			const int cb = op.a;
			if(cb < 0 || cb >= MAXSLOT - 2 || slotUsed[cb]) return;
			const int how = ((op.c % 3) + 3) % 3;
			int before = op.b;
			if(before < 0 || before >= MAXSLOT) before = MAXSLOT - 1;
			int tt = t;
			if(op.k == O_R_ADD) {
				if(!removers[r] || removerTarget[r] < 0) return; // adding through a remover without a target is a null dereference by contract
				tt = removerTarget[r];
			}
			if(how == 2 && slotUsed[before] && slotIn[before] && !(slotTarget[before] == tt && slotKey[before] == k)) return;
			if(how == 2 && (slotDropped[before] || isLimbo(before))) return;
			Fn f(cb);
			Handle h;
			{
				FaultArm arm;
				if(op.k == O_R_ADD) h = TG::radd(*removers[r], k, how, f, handles[before]);
				else h = TG::add(*targets[tt], k, how, f, handles[before]);
			}
			slotUsed[cb] = true; slotIn[cb] = true; slotTarget[cb] = tt; slotKey[cb] = k; handles[cb] = h;
			MItem it; it.cb = cb; it.kind = I_PLAIN; it.remaining = 0; it.pattern = 0; it.evals = 0; it.condTakesArg = false; it.retrigger = false;
			std::vector<MItem> & l = lists[tt][k];
			if(how == 1) l.insert(l.begin(), it);
			else if(how == 2 && slotUsed[before] && slotIn[before] && slotTarget[before] == tt && slotKey[before] == k) l.insert(l.begin() + findItem(tt, k, before), it);
			else l.push_back(it);
			if(op.k == O_R_ADD) { removerItems[r].push_back(cb); ++counters.addsThroughRemover; }
			break;
		}
		case O_R_REMOVE: {
			if(!removers[r] || removerTarget[r] < 0) return;
			int slot = op.b;
			if(slot < 0 || slot >= MAXSLOT) slot = MAXSLOT - 1;
			if(slotDropped[slot] || isLimbo(slot)) return;
			if(slotUsed[slot] && slotIn[slot] && !(slotTarget[slot] == removerTarget[r] && slotKey[slot] == k)) return;
			std::vector<int> & items = removerItems[r];
			const bool mine = std::find(items.begin(), items.end(), slot) != items.end();
			const bool expected = mine && slotUsed[slot] && slotIn[slot];
			bool got;
			{ FaultArm arm; got = TG::rremove(*removers[r], k, handles[slot]); }
			++counters.removesThroughRemover;
			if(mine && slotUsed[slot] && slotIn[slot]) { detachModel(slot); items.erase(std::find(items.begin(), items.end(), slot)); }
			else if(mine && slotUsed[slot] && !slotIn[slot]) {
				// already detached directly: the handle is expired, the remover reports false and may keep or drop its record
			}
			if(got != expected) viol.raise("remover-remove-result", "removing listener " + std::to_string(slot) + " through remover " + std::to_string(r) + " returned " + (got ? "true" : "false") + " but it was "
				+ (expected ? "attached and added through this remover" : "not an attached listener of this remover"));
			break;
		}
		case O_D_REMOVE: {
			int slot = op.b;
			if(slot < 0 || slot >= MAXSLOT) slot = MAXSLOT - 1;
			if(!slotUsed[slot] || slotDropped[slot] || isLimbo(slot)) return;
			const int tt = slotTarget[slot], kk = slotKey[slot];
			const bool expected = slotIn[slot];
			bool got;
			{ FaultArm arm; got = TG::remove(*targets[tt], kk, handles[slot]); }
			if(expected) detachModel(slot);
			if(got != expected) viol.raise("remove-result", "direct removal of listener " + std::to_string(slot) + " returned " + (got ? "true" : "false"));
			break;
		}
		case O_RESET: {
			if(!removers[r]) return;
			// looking the event up is user code (hash, ==) and may throw out of reset(): the remover then stays responsible for
			// whatever it had not detached yet - at the latest its destruction detaches it
			try { FaultArm arm; removers[r]->reset(); }
			catch(...) { interruptedReset(r); throw; }
			++counters.resets;
			resetModel(r);
			break;
		}
		case O_SET_TARGET: {
			if(!removers[r]) return;
			try { FaultArm arm; TG::setTarget(*removers[r], *targets[t]); }
			catch(...) { interruptedReset(r); throw; }
			++counters.retargets;
			if(removerTarget[r] != t) { resetModel(r); removerTarget[r] = t; }
			break;
		}
		case O_CREATE: {
			if(removers[r]) return;
			void * mem = dirty(r);
			FaultArm arm;
			if(op.a & 1) { removers[r] = new (mem) Scoped(); removerTarget[r] = -1; }
			else { removers[r] = new (mem) Scoped(*targets[t]); removerTarget[r] = t; }
			removerItems[r].clear();
			break;
		}
		case O_MOVE_CONSTRUCT: {
			const int src = op.a % NREMOVER;
			if(removers[r] || !removers[src] || src == r) return;
			{ void * mem = dirty(r); FaultArm arm; removers[r] = new (mem) Scoped(std::move(*removers[src])); }
			++counters.moveConstructs;
			removerTarget[r] = removerTarget[src];
			removerItems[r] = removerItems[src];
			removerItems[src].clear();
			limboRename(src, r);
			break;
		}
		case O_MOVE_ASSIGN: {
			const int src = op.a % NREMOVER;
			if(!removers[r] || !removers[src] || src == r) return; // self-move-assignment is not generated
			++counters.moveAssigns;
			if(!removerItems[r].empty() && removerTarget[r] >= 0) ++counters.moveAssignIntoNonEmpty;
			{ FaultArm arm; *removers[r] = std::move(*removers[src]); }
			// what the destination was responsible for: a window is allowed - attached or detached until all removers involved are gone
			if(removerTarget[r] >= 0) {
				for(size_t i = 0; i < removerItems[r].size(); ++i) {
					const int cb = removerItems[r][i];
					if(!slotIn[cb]) continue;
					Limbo l; l.cb = cb; l.involved.insert(r); l.involved.insert(src); l.seenDetached = false;
					limbo.push_back(l);
					++counters.limboItems;
					// out of the strict model
					const int i2 = findItem(slotTarget[cb], slotKey[cb], cb);
					if(i2 >= 0) lists[slotTarget[cb]][slotKey[cb]].erase(lists[slotTarget[cb]][slotKey[cb]].begin() + i2);
					slotIn[cb] = false;
				}
			}
			removerTarget[r] = removerTarget[src];
			removerItems[r] = removerItems[src];
			removerItems[src].clear();
			limboRename(src, r);
			break;
		}
		case O_SWAP: {
			const int other = op.a % NREMOVER;
			if(!removers[r] || !removers[other]) return;
			{ FaultArm arm; removers[r]->swap(*removers[other]); }
			++counters.swaps;
			if(other != r) {
				std::swap(removerTarget[r], removerTarget[other]);
				removerItems[r].swap(removerItems[other]);
				limboRename(r, other); limboRename(other, r);
			}
			break;
		}
		case O_DESTROY: {
			if(!removers[r]) return;
			removers[r]->~Scoped(); removers[r] = nullptr;
			++counters.destroys;
			resetModel(r);
			removerTarget[r] = -1;
			removerGone(r);
			break;
		}
		case O_TRIGGER: case O_QTRIGGER: {
			++counters.triggers;
			if(op.k == O_QTRIGGER) ++counters.queuedTriggers;
			fuel = 3;
			doTrigger(t, k, 500 + (op.a % 400), op.k == O_QTRIGGER);
			break;
		}
		case O_C_ADD: case O_X_ADD: case O_P_ADD: {
			const int cb = op.a;
			if(cb < 0 || cb >= MAXSLOT - 2 || slotUsed[cb]) return;
			if(op.k == O_X_ADD && !TG::conditional) return;
			const int how = op.c & 3, howc = how > 2 ? 0 : how;
			int before = (op.c >> 8) & 63;
			if(before >= MAXSLOT) before = MAXSLOT - 1;
			if(howc == 2 && slotUsed[before] && slotIn[before] && !(slotTarget[before] == t && slotKey[before] == k)) return;
			const bool both = op.k == O_X_ADD && (op.c & 16) != 0;
			const bool takesArg = (op.c & 4) != 0 || both, retrig = (op.c & 8) != 0;
			Fn f(cb);
			Handle h;
			MItem it; it.cb = cb; it.evals = 0; it.pattern = 0; it.remaining = 0; it.condTakesArg = takesArg; it.retrigger = retrig;
			if(op.k == O_C_ADD) {
				const int n = op.b;
				it.kind = I_COUNTER; it.remaining = n < 1 ? 1 : n;
				if(n < 1) ++counters.nonPositiveCounts;
				++counters.counterAdds;
				FaultArm arm;
				h = TG::cadd(*targets[t], k, howc, f, handles[before], n);
			}
			else if(op.k == O_X_ADD) {
				it.kind = I_COND; it.pattern = op.b;
				++counters.conditionalAdds;
				if(both) { CondBoth c(cb); FaultArm arm; h = TG::xadd(*targets[t], k, howc, f, handles[before], c); }
				else if(takesArg) { CondArg c(cb); FaultArm arm; h = TG::xadd(*targets[t], k, howc, f, handles[before], c); }
				else { CondNoArg c(cb); FaultArm arm; h = TG::xadd(*targets[t], k, howc, f, handles[before], c); }
			}
			else {
				it.kind = I_PLAIN;
				FaultArm arm;
				h = TG::add(*targets[t], k, howc, f, handles[before]);
			}
			slotUsed[cb] = true; slotIn[cb] = true; slotTarget[cb] = t; slotKey[cb] = k; handles[cb] = h;
			std::vector<MItem> & l = lists[t][k];
			if(howc == 1) l.insert(l.begin(), it);
			else if(howc == 2 && slotUsed[before] && slotIn[before] && slotTarget[before] == t && slotKey[before] == k) l.insert(l.begin() + findItem(t, k, before), it);
			else l.push_back(it);
			break;
		}
		default: break;
		}
	}

	// what is attached, by enumeration
	void observe(const char * when)
	{
		if(viol.set) return;
		// (wrapped listeners of CounterRemover / ConditionalRemover cannot be identified by enumeration: c16 relies on the triggers)
		for(int t = 0; t < NTARGET && !viol.set && !c16; ++t) for(int k = 0; k < nKeys && !viol.set; ++k) {
			std::vector<int> seen;
			TG::forEach(*targets[t], k, Enum(seen));
			std::vector<int> strict, want;
			for(size_t i = 0; i < seen.size(); ++i) {
				bool lim = false;
				for(size_t j = 0; j < limbo.size(); ++j) if(limbo[j].cb == seen[i]) { lim = true; if(limbo[j].seenDetached) viol.raise("displaced-listener-reattached", "listener " + std::to_string(seen[i]) + " was seen detached and is attached again"); }
				if(!lim) strict.push_back(seen[i]);
			}
			for(size_t i = 0; i < lists[t][k].size(); ++i) want.push_back(lists[t][k][i].cb);
			if(strict != want) viol.raise("attached-mismatch", std::string(when) + ": target " + std::to_string(t) + "/key " + std::to_string(k) + " has listeners " + seq::join(strict) + " attached but the model says " + seq::join(want)
				+ " (a listener added through a remover must stay while a responsible remover lives and be gone once it is destroyed, reset or re-targeted; others are never touched)");
			for(size_t i = 0; i < seen.size(); ++i) log((uint64_t)seen[i] + 91);
			// limbo bookkeeping
			for(size_t j = 0; j < limbo.size(); ++j) {
				if(slotTarget[limbo[j].cb] != t || slotKey[limbo[j].cb] != k) continue;
				const bool attached = std::find(seen.begin(), seen.end(), limbo[j].cb) != seen.end();
				if(!attached) limbo[j].seenDetached = true;
				if(attached && limbo[j].involved.empty()) {
					viol.raise("listener-outlives-removers", std::string(when) + ": listener " + std::to_string(limbo[j].cb) + " was added through a remover, that remover was the destination of a move assignment or had a reset() interrupted by an exception, and all removers involved are gone, yet the listener is still attached");
				}
			}
		}
		if(ledger().hasError()) viol.raise(ledger().errorClass, ledger().error);
	}
	struct Enum
	{
		std::vector<int> & seen;
		explicit Enum(std::vector<int> & s) : seen(s) {}
		template <typename CB> void operator() (const CB & cb) const { FaultOff off; const Fn * f = cb.template target<Fn>(); seen.push_back(f ? f->id : -1); }
	};

	void execute(const std::vector<int> & faults)
	{
		FaultCtl & fc = faultCtl();
		fc.countdown = 0; fc.passed = 0; fc.lastFired = -1;
		ledger().reset();
		for(int t = 0; t < NTARGET; ++t) targets[t] = new Target();
		const OpList none;
		const OpList & ops = plan.tasks.empty() ? none : plan.tasks[0];
		passedPerOp.assign(ops.size(), 0);
		for(size_t i = 0; i < ops.size() && !viol.set; ++i) {
			long arm = 0;
			for(size_t f = 0; f + 1 < faults.size(); f += 2) if(faults[f] == (int)i) arm = faults[f + 1];
			fc.countdown = arm; fc.lastFired = -1;
			{
				// throwing comparisons / hashes of the event type: injected into the listener-management operations (which must leave
				// everything as it was) and into reset / re-targeting (which may stop half way but must not lose responsibility),
				// not into triggers, moves and destructions (the latter are noexcept by design)
				const int kd = ops[i].k;
				const bool mgmt = kd == O_R_ADD || kd == O_D_ADD || kd == O_R_REMOVE || kd == O_D_REMOVE || kd == O_C_ADD || kd == O_X_ADD || kd == O_P_ADD || kd == O_RESET || kd == O_SET_TARGET;
				fc.mask = mgmt ? 0x1fu : (0x1fu & ~(1u << F_CMP));
			}
			const long before = fc.passed;
			bool threw = false;
			const size_t depth = frames.size();
			try { ++counters.ops; doOp(ops[i]); }
			catch(const InjectedFault &) { threw = true; }
			catch(const std::bad_alloc &) { threw = true; }
			frames.resize(depth);
			for(int s = 0; s < MAXSLOT; ++s) { condPending[s] = false; if(condDetach[s]) { condDetach[s] = false; detachModel(s); } }
			passedPerOp[i] = fc.passed - before;
			const bool fired = fc.lastFired >= 0;
			fc.countdown = 0;
			if(threw && !fired) viol.raise("unexpected-exception", "operation " + std::to_string(i) + " threw although no fault was injected");
			if(fired && !threw) viol.raise("fault-swallowed", "a fault was injected into operation " + std::to_string(i) + " but the call returned normally");
			if(fired) ++counters.opsFailedByFault;
			observe(threw ? "after a failed operation" : "after an operation");
		}
		// c16: two closing rounds of triggers on every list - whoever is still attached must be exactly who the counting model says
		for(int round = 0; round < 2 && c16; ++round) for(int t = 0; t < NTARGET && !viol.set; ++t) for(int k = 0; k < nKeys && !viol.set; ++k) {
			fuel = 0;
			doTrigger(t, k, 900 + round, round == 1);
			for(int s = 0; s < MAXSLOT; ++s) condPending[s] = false;
		}
		if(viol.set) return;
		// destroy the removers one by one: everything they were responsible for must be gone, everything else must stay
		for(int r = 0; r < NREMOVER && !viol.set; ++r) {
			if(!removers[r]) continue;
			doOp(Op(O_DESTROY, 0, 0, 0, r * 8));
			observe("after destroying a remover");
		}
		if(viol.set) return;
		for(int t = 0; t < NTARGET; ++t) { delete targets[t]; targets[t] = nullptr; }
		for(int s = 0; s < MAXSLOT; ++s) handles[s] = Handle();
		if(ledger().hasError()) viol.raise(ledger().errorClass, ledger().error);
		else if(ledger().liveTotal() != 0) viol.raise("leak", "tracked objects alive after destroying every remover and target: " + std::to_string(ledger().liveTotal()));
	}
};

// the heterogeneous dispatcher stores callbacks as std::function<void(int)> inside its per-prototype list
template <typename TG>
void runTarget(const Plan & plan, RunOut & out)
{
	const bool faultMode = engine::mode == "c09" || engine::mode == "c15f";
	const bool c16 = engine::mode == "c16" || (faultMode && (plan.cfg[CFG_VARIANT] & 1));
	struct One
	{
		static void run(const Plan & plan, const std::vector<int> & faults, bool c16, RunOut & out, std::vector<long> * passed, uint64_t * lh)
		{
			Interp<TG> * in = new Interp<TG>(plan, c16);
			g_sink = in;
			if(TG::inSim) {
				std::string fc, fd;
				Interp<TG> * ip = in;
				const std::vector<int> * fp = &faults;
				if(!seq::runInOneTask([ip, fp]() { ip->execute(*fp); }, fc, fd)) { out.fail(fc, fd); g_sink = nullptr; return; } // leaked: the fiber may reference it
			}
			else in->execute(faults);
			if(in->viol.set) out.fail(in->viol.cls, in->viol.detail);
			if(passed) *passed = in->passedPerOp;
			if(lh) *lh = in->logHash;
			g_sink = nullptr;
			if(!out.violation) delete in;
		}
	};
	std::vector<long> passed;
	uint64_t lh = 0;
	long subRuns = 1;
	One::run(plan, plan.faults, c16, out, &passed, &lh);
	out.logHash = lh;
	if(faultMode && plan.faults.empty() && !out.violation) {
		for(size_t i = 0; i < passed.size() && !out.violation; ++i) {
			for(long k = 1; k <= passed[i] && !out.violation; ++k) {
				std::vector<int> f; f.push_back((int)i); f.push_back((int)k);
				RunOut sub;
				One::run(plan, f, c16, sub, nullptr, nullptr);
				++subRuns; ++counters.faultRuns;
				if(sub.violation) { out.fail(sub.cls, sub.detail); out.faults = f; }
			}
		}
	}
	for(int kd = 0; kd < F_KINDS; ++kd) { counters.faultsByKind[kd] += (uint64_t)faultCtl().firedKind[kd]; counters.faultsInjected += (uint64_t)faultCtl().firedKind[kd]; faultCtl().firedKind[kd] = 0; }
	out.subRuns = subRuns;
	out.steps = (long)(plan.tasks.empty() ? 0 : plan.tasks[0].size());
	uint64_t ch = kHashInit;
	if(!plan.tasks.empty()) for(size_t i = 0; i < plan.tasks[0].size(); ++i) { const Op & op = plan.tasks[0][i]; ch = hashMix(ch, (uint64_t)op.k * 131 + (uint64_t)(uint32_t)op.a * 31 + (uint64_t)(uint32_t)op.b * 17 + (uint64_t)(uint32_t)op.c * 7 + (uint64_t)(uint32_t)op.d); }
	out.caseHash = hashMix(ch, (uint64_t)plan.user(U_VARIANT));
}

#if SEQ_VARIANT == 0
void runVariant0(const Plan & p, RunOut & o) { runTarget<ListTarget>(p, o); }
#elif SEQ_VARIANT == 1
void runVariant1(const Plan & p, RunOut & o) { runTarget<DispTarget>(p, o); }
#elif SEQ_VARIANT == 2
void runVariant2(const Plan & p, RunOut & o) { runTarget<QueueTarget>(p, o); }
#elif SEQ_VARIANT == 3
void runVariant3(const Plan & p, RunOut & o) { runTarget<HeterTarget>(p, o); }
#elif SEQ_VARIANT == 4
void runVariant4(const Plan & p, RunOut & o) { runTarget<HeterRefTarget>(p, o); }
#elif SEQ_VARIANT == 5
void runVariant5(const Plan & p, RunOut & o) { runTarget<SpinListTarget>(p, o); }
#endif

} // namespace sr
#endif // SEQ_VARIANT

#if defined(SEQ_MAIN)
namespace sr {
Sink * g_sink = nullptr;
Counters counters;
void runVariant0(const Plan &, RunOut &); void runVariant1(const Plan &, RunOut &); void runVariant2(const Plan &, RunOut &); void runVariant3(const Plan &, RunOut &); void runVariant4(const Plan &, RunOut &); void runVariant5(const Plan &, RunOut &);
}

namespace engine {

const char * const kName = "seq_remover";
std::string mode = "c15";

bool wantsPilot(const Plan &) { return false; }

static void genC15(sim::Rng & rng, sim::Plan & plan, int len)
{
	using namespace sr;
	OpList & ops = plan.tasks[0];
	int nextCb = 0;
	std::vector<int> known;
	// start with one or two removers
	ops.push_back(Op(O_CREATE, 0, 0, 0, 0 * 8 + (int)rng.below(2) * 4));
	if(rng.chance(2, 3)) ops.push_back(Op(O_CREATE, (int)rng.below(4) == 0 ? 1 : 0, 0, 0, 1 * 8 + (int)rng.below(2) * 4));
	for(int i = 0; i < len; ++i) {
		const int r = (int)rng.below(NREMOVER), t = (int)rng.below(NTARGET), k = (int)rng.below(NKEY);
		const int d = r * 8 + t * 4 + k;
		const uint32_t q = rng.below(100);
		int slot = MAXSLOT - 1;
		if(!known.empty()) slot = known[rng.below((uint32_t)known.size())];
		if(q < 24 && nextCb < MAXSLOT - 4) { const int how = (int)rng.below(3); ops.push_back(Op(O_R_ADD, nextCb, slot, how, d)); known.push_back(nextCb++); }
		else if(q < 32 && nextCb < MAXSLOT - 4) { const int how = (int)rng.below(3); ops.push_back(Op(O_D_ADD, nextCb, slot, how, d)); known.push_back(nextCb++); }
		else if(q < 40) ops.push_back(Op(O_R_REMOVE, 0, slot, 0, d));
		else if(q < 45) ops.push_back(Op(O_D_REMOVE, 0, slot, 0, d));
		else if(q < 50) ops.push_back(Op(O_RESET, 0, 0, 0, d));
		else if(q < 56) ops.push_back(Op(O_SET_TARGET, 0, 0, 0, d));
		else if(q < 63) { const int src = (int)rng.below(NREMOVER); ops.push_back(Op(O_MOVE_CONSTRUCT, src, 0, 0, d)); }
		else if(q < 73) { const int src = (int)rng.below(NREMOVER); ops.push_back(Op(O_MOVE_ASSIGN, src, 0, 0, d)); }
		else if(q < 79) { const int other = (int)rng.below(NREMOVER); ops.push_back(Op(O_SWAP, other, 0, 0, d)); }
		else if(q < 86) ops.push_back(Op(O_DESTROY, 0, 0, 0, d));
		else if(q < 92) { const int noTarget = rng.chance(1, 5) ? 1 : 0; ops.push_back(Op(O_CREATE, noTarget, 0, 0, d)); }
		else { const int v = (int)rng.below(400); ops.push_back(Op(O_TRIGGER, v, 0, 0, d)); }
	}
}

static void genC16(sim::Rng & rng, sim::Plan & plan, int len, bool noCond)
{
	using namespace sr;
	OpList & ops = plan.tasks[0];
	int nextCb = 0;
	std::vector<int> known;
	for(int i = 0; i < len; ++i) {
		const int t = (int)rng.below(NTARGET), k = (int)rng.below(NKEY);
		const int d = t * 4 + k;
		const uint32_t q = rng.below(100);
		int slot = MAXSLOT - 1;
		if(!known.empty()) slot = known[rng.below((uint32_t)known.size())];
		const int how = (int)rng.below(3);
		const int retrig = rng.chance(1, 4) ? 8 : 0;
		if(q < 16 && nextCb < MAXSLOT - 4) { const uint32_t xr = rng.below(40); const int n = xr == 0 ? INT_MIN : xr == 1 ? INT_MIN + 1 : xr == 2 ? INT_MAX : (int)rng.below(9) - 3; ops.push_back(Op(O_C_ADD, nextCb, n, how | retrig | (slot << 8), d)); known.push_back(nextCb++); }
		else if(q < 30 && nextCb < MAXSLOT - 4 && noCond) { const int n = (int)rng.below(6) - 1; ops.push_back(Op(O_C_ADD, nextCb, n, how | retrig | (slot << 8), d)); known.push_back(nextCb++); }
		else if(q < 30 && nextCb < MAXSLOT - 4) { const int pattern = (int)rng.below(256); const int takesArg = rng.chance(1, 2) ? 4 : (rng.chance(1, 3) ? 16 : 0); ops.push_back(Op(O_X_ADD, nextCb, pattern, how | takesArg | retrig | (slot << 8), d)); known.push_back(nextCb++); }
		else if(q < 40 && nextCb < MAXSLOT - 4) { ops.push_back(Op(O_P_ADD, nextCb, 0, how | retrig | (slot << 8), d)); known.push_back(nextCb++); }
		else if(q < 47) ops.push_back(Op(O_D_REMOVE, 0, slot, 0, d));
		else if(q < 80) { const int v = (int)rng.below(400); ops.push_back(Op(O_TRIGGER, v, 0, 0, d)); }
		else { const int v = (int)rng.below(400); ops.push_back(Op(O_QTRIGGER, v, 0, 0, d)); }
	}
}

void generate(uint64_t seed, Plan & plan)
{
	using namespace sr;
	Rng rng(seed);
	plan.setSchedSeed(rng.next());
	const bool fault = mode == "c09" || mode == "c15f";
	const bool c16 = mode == "c16" || (mode == "c09" && rng.chance(1, 2));
	plan.cfg[CFG_VARIANT] = c16 ? 1 : 0;
	// Counter/ConditionalRemover: list, dispatcher, queue and the two heterogeneous targets; ScopedRemover: list, dispatcher, queue
	// and the list whose mutexes are real SpinLocks. Mode c20: the SpinLock variant only (its point is the storage fill).
	static const int v16[] = { V_LIST, V_DISPATCHER, V_QUEUE, V_HETER, V_HETER_REF }, v15[] = { V_LIST, V_DISPATCHER, V_QUEUE, V_LIST_SPIN };
	plan.user(U_VARIANT) = mode == "c20" ? (int)V_LIST_SPIN : c16 ? v16[rng.below(5)] : v15[rng.below(4)];
	plan.user(U_FILL) = (int)rng.below(4);
	plan.tasks.assign(1, OpList());
	const int len = fault ? 4 + (int)rng.below(8) : 10 + (int)rng.below(30);
	if(c16) genC16(rng, plan, len, plan.user(U_VARIANT) == V_HETER_REF); else genC15(rng, plan, len);
}

void execute(const Plan & plan, RunOut & out)
{
	seq::installHooks();
	const int v = plan.user(sr::U_VARIANT);
	switch(v) {
	case 0: sr::runVariant0(plan, out); break; case 1: sr::runVariant1(plan, out); break; case 2: sr::runVariant2(plan, out); break;
	case 4: sr::runVariant4(plan, out); break; case 5: sr::runVariant5(plan, out); break;
	default: sr::runVariant3(plan, out); break;
	}
	++sr::counters.plans;
	if(v >= 0 && v < sr::V_COUNT) ++sr::counters.perVariant[v];
	bool focus = false;
	if(!plan.tasks.empty()) for(size_t i = 0; i < plan.tasks[0].size(); ++i) {
		const int k = plan.tasks[0][i].k;
		if(k == sr::O_R_ADD || k == sr::O_C_ADD || k == sr::O_X_ADD) focus = true;
	}
	out.nontrivial = focus;
}

std::string describe(const Plan & plan)
{
	static const char * vn[] = { "CallbackList<void(int)>", "EventDispatcher<int,void(int)>", "EventQueue<int,void(int)>", "HeterEventDispatcher<int,{void(int),void()}>",
		"HeterEventDispatcher<int,{void(Derived),void(Base&)}>", "CallbackList<void(int)> with SpinLock mutexes, one simulated task" };
	static const char * names[] = { "?", "addThroughRemover", "addDirectly", "removeThroughRemover", "removeDirectly", "reset", "setTarget", "moveConstruct", "moveAssign", "swap", "destroyRemover",
		"createRemover", "trigger", "counterAdd", "conditionalAdd", "plainAdd", "queuedTrigger" };
	std::ostringstream o;
	const int v = plan.user(sr::U_VARIANT);
	static const char * fn[] = { "0x00", "0xff", "0x5a", "pseudo-random" };
	o << (plan.cfg[CFG_VARIANT] & 1 ? "Counter/ConditionalRemover on " : "ScopedRemover (built in storage filled with ") << ((plan.cfg[CFG_VARIANT] & 1) ? "" : fn[plan.user(sr::U_FILL) & 3]) << ((plan.cfg[CFG_VARIANT] & 1) ? "" : " bytes) on ") << (v >= 0 && v < sr::V_COUNT ? vn[v] : "?") << " :";
	if(!plan.tasks.empty()) for(size_t i = 0; i < plan.tasks[0].size(); ++i) {
		const Op & op = plan.tasks[0][i];
		o << " " << (op.k >= 1 && op.k < sr::O_KINDS ? names[op.k] : "?");
		if(op.k == sr::O_R_ADD || op.k == sr::O_D_ADD) o << "(cb" << op.a << ",how" << op.c << ")";
		else if(op.k == sr::O_R_REMOVE || op.k == sr::O_D_REMOVE) o << "(h" << op.b << ")";
		else if(op.k == sr::O_MOVE_CONSTRUCT || op.k == sr::O_MOVE_ASSIGN || op.k == sr::O_SWAP) o << "(r" << op.a % 3 << ")";
		else if(op.k == sr::O_C_ADD) o << "(cb" << op.a << ",n=" << op.b << ((op.c & 8) ? ",retrigger" : "") << ")";
		else if(op.k == sr::O_X_ADD) o << "(cb" << op.a << ",pattern" << op.b << ((op.c & 4) ? ",cond(arg)" : (op.c & 16) ? ",cond(arg)|cond()" : ",cond()") << ((op.c & 8) ? ",retrigger" : "") << ")";
		else if(op.k == sr::O_P_ADD) o << "(cb" << op.a << ")";
		if(plan.cfg[CFG_VARIANT] & 1) o << "@t" << ((op.d >> 2) & 1) << "k" << (op.d & 3);
		else o << "@r" << ((op.d >> 3) & 3) << "t" << ((op.d >> 2) & 1) << "k" << (op.d & 3);
	}
	if(!plan.faults.empty()) o << " | faults " << seq::join(plan.faults);
	return o.str();
}

void statsJson(std::string & out)
{
	const sr::Counters & c = sr::counters;
	std::ostringstream o;
	o << ",\"probes\":{\"ops\":" << c.ops << ",\"adds_through_remover\":" << c.addsThroughRemover << ",\"removes_through_remover\":" << c.removesThroughRemover << ",\"removers_built_in_dirtied_storage\":" << c.dirtyConstructions << ",\"resets\":" << c.resets << ",\"resets_interrupted_by_a_throwing_event_lookup\":" << c.interruptedResets
	  << ",\"retargets\":" << c.retargets << ",\"move_constructs\":" << c.moveConstructs << ",\"move_assigns\":" << c.moveAssigns << ",\"move_assign_into_non_empty_remover\":" << c.moveAssignIntoNonEmpty
	  << ",\"displaced_items_in_limbo\":" << c.limboItems << ",\"swaps\":" << c.swaps << ",\"remover_destructions\":" << c.destroys << ",\"triggers\":" << c.triggers << ",\"queued_triggers\":" << c.queuedTriggers
	  << ",\"listener_calls\":" << c.listenerCalls << ",\"counter_adds\":" << c.counterAdds << ",\"counts_zero_or_negative\":" << c.nonPositiveCounts << ",\"conditional_adds\":" << c.conditionalAdds
	  << ",\"reentrant_triggers_from_wrapped_listener\":" << c.reentrantTriggers << ",\"condition_evaluations\":" << c.conditionEvaluations << ",\"detached_by_count\":" << c.detachedByCount
	  << ",\"detached_by_condition\":" << c.detachedByCondition << "}"
	  << ",\"faults\":{\"fault_runs\":" << c.faultRuns << ",\"injected_total\":" << c.faultsInjected << ",\"alloc\":" << c.faultsByKind[F_ALLOC] << ",\"copy\":" << c.faultsByKind[F_COPY]
	  << ",\"move\":" << c.faultsByKind[F_MOVE] << ",\"call\":" << c.faultsByKind[F_CALL] << ",\"compare\":" << c.faultsByKind[F_CMP] << ",\"operations_failed_by_fault\":" << c.opsFailedByFault << "}"
	  << ",\"per_variant\":[";
	for(int i = 0; i < sr::V_COUNT; ++i) o << (i ? "," : "") << c.perVariant[i];
	o << "]";
	out += o.str();
}

} // namespace engine

int main(int argc, char ** argv) { return sim::workerMain(argc, argv); }
#endif
