// Shared pieces of the CON engines: policies handed to eventpp, run configuration from a plan.
#ifndef VERIF_CON_COMMON_H
#define VERIF_CON_COMMON_H

#ifndef EVENTPP_VERIF
#error "the CON engines must be built with -DEVENTPP_VERIF"
#endif

#include "../sim/sched.h"
#include "../sim/sync.h"
#include "../sim/containers.h"
#include "../sim/ledger.h"
#include "../sim/plan.h"
#include "../sim/worker.h"

#include <eventpp/callbacklist.h>
#include <eventpp/eventdispatcher.h>
#include <eventpp/eventqueue.h>
#include <eventpp/hetereventqueue.h>

namespace con {

// Threading with the real eventpp::SpinLock (made schedulable by its guarded hook)
struct SimSpinThreading
{
	using Mutex = eventpp::SpinLock;
	template <typename T> using Atomic = sim::SimAtomic<T>;
	using ConditionVariable = sim::SimCondVar;
	static void verifPoint(const char * tag) { sim::S().point(tag); }
	static void verifAccess(const void * obj, bool write, const char * what) { sim::S().access(obj, write, what); }
	static void verifForget(const void * obj) { sim::S().forget(obj); }
};

inline void installHooks()
{
	eventpp::verif_::spinHook() = &sim::spinLockHook;
}

inline int64_t quantumFromCode(int code)
{
	switch(code) { case 1: return 1000; case 2: return 1000000; default: return 0; }
}

inline sim::RunCfg runCfgFromPlan(const sim::Plan & plan)
{
	sim::RunCfg c;
	c.strategy = plan.useChoices ? (int)sim::STRAT_REPLAY : plan.cfg[sim::CFG_STRATEGY];
	c.depth = plan.cfg[sim::CFG_DEPTH];
	c.expectedLen = plan.cfg[sim::CFG_EXPECTED_LEN] > 0 ? plan.cfg[sim::CFG_EXPECTED_LEN] : 60;
	c.quantumNs = quantumFromCode(plan.cfg[sim::CFG_QUANTUM]);
	c.spurious = plan.cfg[sim::CFG_SPURIOUS] != 0;
	c.schedSeed = plan.schedSeed();
	c.replay = plan.useChoices ? &plan.choices : nullptr;
	return c;
}

// swarm: one scheduling strategy per run
inline void chooseStrategy(sim::Rng & rng, sim::Plan & plan)
{
	const uint32_t r = rng.below(100);
	if(r < 35) { plan.cfg[sim::CFG_STRATEGY] = sim::STRAT_RANDOM; plan.cfg[sim::CFG_DEPTH] = 0; }
	else if(r < 65) { plan.cfg[sim::CFG_STRATEGY] = sim::STRAT_PCT; plan.cfg[sim::CFG_DEPTH] = 1 + (int)rng.below(3); }
	else { plan.cfg[sim::CFG_STRATEGY] = sim::STRAT_PREEMPT; plan.cfg[sim::CFG_DEPTH] = (int)rng.below(4); }
	plan.setSchedSeed(rng.next());
}

struct Stamp
{
	long v;
	Stamp() : v(0) {}
	long next() { return ++v; }
};

} // namespace con

#endif
