// SEQ / FLT engine over a pool of CallbackList or EventDispatcher objects.
// Modes: c01 (plain histories), c02 (re-entrant scripts), c10 (copy/move/assign/swap pool, dirty storage),
//        c19 (generation-counter jump), c08 (ownership stress), c09 (k-th fault point enumeration), c20 (differential)
// One source, compiled once per policy variant (-DSEQ_VARIANT=n) plus once with -DSEQ_MAIN.
#ifdef SEQ_MAIN
#define VERIF_REPLACE_NEW   // the binary's single definition of the counting / failing operator new
#endif
#include "seq_common.h"

#include <eventpp/utilities/eventutil.h>

#include <set>

using namespace sim;

namespace sl {

enum { MAXOBJ = 4, MAXSLOT = 64, MAXEVT = 3, SELF = -1 };
enum OpKind {
	O_APPEND = 1, O_PREPEND = 2, O_INSERT = 3, O_REMOVE = 4, O_OWNS = 5, O_EMPTY = 6, O_INVOKE = 7, O_FOREACH = 8, O_FOREACHIF = 9,
	O_HAS_LISTENER = 10, O_REMOVE_LISTENER = 11, O_HAS_ANY = 12, O_REMOVE_NTH = 13,
	O_COPY_CONSTRUCT = 14, O_COPY_ASSIGN = 15, O_MOVE_CONSTRUCT = 16, O_MOVE_ASSIGN = 17, O_SWAP = 18, O_DESTROY = 19, O_CREATE = 20,
	O_WARP = 21, O_STEAL = 22, O_KINDS = 23
};
// Op fields: d = object * 4 + event.
//   adds: a = callback id (= handle slot), b = 'before' slot (insert), c = script index + 1 (0: none)
//   remove/owns: b = slot (SELF inside a script: the running callback's own slot)
//   invoke: a = argument value; forEach: a = functor variant; forEachIf: c = stop after n
//   hasListener/removeListener: b = callback id; removeNth: a = n
//   copy/move construct/assign: a = source object; swap: a = other object, c = 1: ADL swap
//   warp: a = k (additions left before the generation counter wraps)
//   steal (scripts only): the callback moves from its by-value argument
enum { U_VARIANT = 0, U_FUEL = 1, U_FILL = 2, U_OBJECTS = 3, U_EQMOD = 4 };
enum {
	V_LIST_SINGLE = 0, V_LIST_MULTI = 1, V_LIST_SPIN = 2, V_LIST_SIM = 3, V_LIST_CUSTOMCB = 4,
	V_DISP_DEFAULT = 5, V_DISP_SINGLE_MAP = 6, V_DISP_SIM = 7, V_DISP_CUSTOMCB = 8, V_COUNT = 9
};

typedef Tracked<seq::T_PAY, false> Payload;

struct Fn;
struct Sink { virtual void onCall(const Fn & f, int a, Payload & p) = 0; virtual ~Sink() {} };
extern Sink * g_sink;
// callbacks compare equal when their ids agree modulo g_eqMod (0: only with themselves): the eventutil helpers must act on
// the FIRST equal callback, which only shows when several equal ones are registered
extern int g_eqMod;
inline int eqClass(int id) { return g_eqMod > 0 ? id % g_eqMod : id; }

struct Fn : Tracked<seq::T_FN, false>
{
	explicit Fn(int id) : Tracked<seq::T_FN, false>(id) {}
	void operator() (int a, Payload p) const { g_sink->onCall(*this, a, p); }
	bool operator == (const Fn & o) const { faultPoint(F_CMP); return eqClass(id) == eqClass(o.id); }
};

struct Counters
{
	uint64_t plans, topOps, nestedOps, invocations, nestedInvocations, callbacksCalled, selfRemovals, staleHandleOps, poolOps, warps, wrapsObserved,
		wrapDuringInvocation, drains, faultRuns, faultsInjected, faultsByKind[F_KINDS], secondFaults, opsFailedByFault, observeSteps, maxDepthSeen, removedDuringInvocation,
		addedDuringInvocation, dirtyConstructions;
	uint64_t perVariant[V_COUNT];
};
extern Counters counters;

void runVariant(int variant, const Plan & plan, RunOut & out);

} // namespace sl

#if defined(SEQ_VARIANT)
// =====================================================================================================
namespace sl {

// ------------------------------------------------------------------------------------------- boxes
inline const Fn * fnOf(const std::function<void (int, Payload)> & cb) { return cb.target<Fn>(); }
inline const Fn * fnOf(const Fn & f) { return &f; }

template <typename Pol, bool CUSTOM>
struct ListBox
{
	typedef eventpp::CallbackList<void (int, Payload), Pol> T;
	typedef typename T::Handle Handle;
	typedef typename T::Callback Callback;
	enum { isDispatcher = 0, hasUtil = CUSTOM ? 1 : 0, canWarp = 1 };
	static Handle append(T & o, int, const Fn & f) { return o.append(f); }
	static Handle prepend(T & o, int, const Fn & f) { return o.prepend(f); }
	static Handle insert(T & o, int, const Fn & f, const Handle & b) { return o.insert(f, b); }
	static bool remove(T & o, int, const Handle & h) { return o.remove(h); }
	static bool owns(const T & o, int, const Handle & h) { return o.ownsHandle(h); }
	// empty() and operator bool must be each other's negation; if not, report the value that contradicts the model
	static bool isEmpty(const T & o, int) { const bool e = o.empty(); if(e == (bool)o) return !e; return e; }
	static void invoke(T & o, int, int a, const Payload & p) { o(a, p); }
	template <typename F> static void forEach(const T & o, int, F f) { o.forEach(f); }
	template <typename F> static bool forEachIf(const T & o, int, F f) { return o.forEachIf(f); }
	static unsigned counter(const T & o, int) { return o.verifGetCurrentCounter(); }
	static void warp(T & o, int, unsigned v) { o.verifSetCurrentCounter(v); }
	static bool utilHas(T & o, int, const Fn & f) { return utilHasImpl(o, f, (char (*)[hasUtil + 1])nullptr); }
	static bool utilRemove(T & o, int, const Fn & f) { return utilRemoveImpl(o, f, (char (*)[hasUtil + 1])nullptr); }
	static bool utilHasAny(T & o, int) { return eventpp::hasAnyListener(o); }
private:
	static bool utilHasImpl(T & o, const Fn & f, char (*)[2]) { return eventpp::hasListener(o, f); }
	static bool utilHasImpl(T &, const Fn &, char (*)[1]) { return false; }
	static bool utilRemoveImpl(T & o, const Fn & f, char (*)[2]) { return eventpp::removeListener(o, f); }
	static bool utilRemoveImpl(T &, const Fn &, char (*)[1]) { return false; }
};

template <typename Pol, bool CUSTOM>
struct DispBox
{
	typedef eventpp::EventDispatcher<int, void (int, Payload), Pol> T;
	typedef typename T::Handle Handle;
	typedef typename T::Callback Callback;
	enum { isDispatcher = 1, hasUtil = CUSTOM ? 1 : 0, canWarp = 0 };
	static Handle append(T & o, int e, const Fn & f) { return o.appendListener(e, f); }
	static Handle prepend(T & o, int e, const Fn & f) { return o.prependListener(e, f); }
	static Handle insert(T & o, int e, const Fn & f, const Handle & b) { return o.insertListener(e, f, b); }
	static bool remove(T & o, int e, const Handle & h) { return o.removeListener(e, h); }
	static bool owns(const T & o, int e, const Handle & h) { return o.ownsHandle(e, h); }
	static bool isEmpty(const T & o, int e) { return !o.hasAnyListener(e); }
	static void invoke(T & o, int e, int a, const Payload & p) { o.dispatch(e, a, p); }
	template <typename F> static void forEach(const T & o, int e, F f) { o.forEach(e, f); }
	template <typename F> static bool forEachIf(const T & o, int e, F f) { return o.forEachIf(e, f); }
	static unsigned counter(const T &, int) { return 0; }
	static void warp(T &, int, unsigned) {}
	static bool utilHas(T & o, int e, const Fn & f) { return utilHasImpl(o, e, f, (char (*)[hasUtil + 1])nullptr); }
	static bool utilRemove(T & o, int e, const Fn & f) { return utilRemoveImpl(o, e, f, (char (*)[hasUtil + 1])nullptr); }
	static bool utilHasAny(T & o, int e) { return eventpp::hasAnyListener(o, e); }
private:
	static bool utilHasImpl(T & o, int e, const Fn & f, char (*)[2]) { return eventpp::hasListener(o, e, f); }
	static bool utilHasImpl(T &, int, const Fn &, char (*)[1]) { return false; }
	static bool utilRemoveImpl(T & o, int e, const Fn & f, char (*)[2]) { return eventpp::removeListener(o, e, f); }
	static bool utilRemoveImpl(T &, int, const Fn &, char (*)[1]) { return false; }
};

// ------------------------------------------------------------------------------------------- interpreter
struct MItem { int cb; int slot; };

struct Frame
{
	int obj, ev, kind;
	std::vector<int> snapshot;
	size_t pos;
	std::vector<int> called;
	std::vector<int> addedDuring;
	bool relaxed;
	int argA, argVal, stopAfter;
	bool stopped;
};

template <typename Box>
struct Interp : Sink
{
	typedef typename Box::T Obj;
	typedef typename Box::Handle Handle;
	typedef typename Box::Callback Callback;

	const Plan & plan;
	const bool faultMode;
	seq::Violation viol;
	seq::DirtyStorage<Obj> store[MAXOBJ];
	std::vector<MItem> model[MAXOBJ][MAXEVT];
	Handle handles[MAXSLOT];
	int slotObj[MAXSLOT], slotEv[MAXSLOT];
	bool slotUsed[MAXSLOT], slotUnusable[MAXSLOT];
	int cbScript[MAXSLOT];
	std::vector<Frame> frames;
	int fuel;
	uint64_t logHash;
	Rng aux, fillRng;
	int nEvents;
	bool sawWrapRelaxation;
	std::vector<long> passedPerOp;   // fault points passed by each top-level operation (fault-free run)
	int depthMax;

	Interp(const Plan & p, bool fm) : plan(p), faultMode(fm), fuel(0), logHash(kHashInit), aux(p.schedSeed() ^ 0x1234567), fillRng(p.schedSeed() ^ 0xf111), sawWrapRelaxation(false), depthMax(0)
	{
		for(int i = 0; i < MAXSLOT; ++i) { slotObj[i] = -1; slotEv[i] = 0; slotUsed[i] = false; slotUnusable[i] = false; cbScript[i] = 0; }
		nEvents = Box::isDispatcher ? MAXEVT : 1;
	}

	void log(uint64_t v) { logHash = hashMix(logHash, v); }
	int objOf(const Op & op) const { return (op.d >> 2) & 3; }
	int evOf(const Op & op) const { const int e = op.d & 3; return e >= nEvents ? 0 : e; }
	Obj & real(int o) { return *store[o].ptr(); }
	bool aliveObj(int o) const { return o >= 0 && o < MAXOBJ && store[o].alive; }
	bool frameOn(int o) const { for(size_t i = 0; i < frames.size(); ++i) if(frames[i].obj == o) return true; return false; }

	int findItem(int o, int e, int cb) const
	{
		const std::vector<MItem> & l = model[o][e];
		for(size_t i = 0; i < l.size(); ++i) if(l[i].cb == cb) return (int)i;
		return -1;
	}
	int findEqual(int o, int e, int cb) const
	{
		const std::vector<MItem> & l = model[o][e];
		for(size_t i = 0; i < l.size(); ++i) if(eqClass(l[i].cb) == eqClass(cb)) return (int)i;
		return -1;
	}
	bool slotPresentIn(int slot, int o, int e) const { return slot >= 0 && slot < MAXSLOT && slotUsed[slot] && slotObj[slot] == o && slotEv[slot] == e; }
	// a handle whose node is linked into ANOTHER live list: using it for insert/remove is documented misuse
	bool slotForeign(int slot, int o, int e) const
	{
		if(slot < 0 || slot >= MAXSLOT || !slotUsed[slot] || slotObj[slot] < 0) return false;
		return !(slotObj[slot] == o && slotEv[slot] == e);
	}

	// ---- callbacks
	void onCall(const Fn & f, int a, Payload & p) override
	{
		faultPoint(F_CALL);
		FaultOff off;
		++counters.callbacksCalled;
		if(!f.alive("callback invoked")) return;
		if(frames.empty()) { viol.raise("callback-outside-invocation", "callback " + std::to_string(f.id) + " invoked while no invocation is in progress"); return; }
		Frame & fr = frames.back();
		const int id = f.id;
		log((uint64_t)id * 2654435761u + (uint64_t)a * 97 + (uint64_t)(uint32_t)p.val);
		if(a != fr.argA || p.val != fr.argVal) {
			viol.raise("argument-mismatch", "callback " + std::to_string(id) + " received (" + std::to_string(a) + "," + std::to_string(p.val) + ") instead of ("
				+ std::to_string(fr.argA) + "," + std::to_string(fr.argVal) + ")");
			return;
		}
		expectCall(fr, id);
		if(viol.set) return;
		const int script = id >= 0 && id < MAXSLOT ? cbScript[id] : 0;
		if(script > 0 && script <= (int)plan.scripts.size()) {
			const OpList & ops = plan.scripts[(size_t)script - 1];
			const size_t myDepth = frames.size();
			for(size_t i = 0; i < ops.size() && !viol.set; ++i) {
				if(fuel <= 0) break;
				--fuel;
				if(ops[i].k == O_STEAL) { Payload stolen(std::move(p)); (void)stolen; continue; }
				++counters.nestedOps;
				doOp(ops[i], id);
				if(frames.size() != myDepth) { viol.raise("harness-error", "frame depth changed across a script operation"); return; }
			}
			// whatever the script did (removed this very callback, emptied or replaced the list): the invocation that is executing
			// this callback object keeps it alive until the call returns
			if(!viol.set && !f.alive("callback object at the end of its own call")) return;
		}
	}

	// the real code is about to run callback 'id' within frame fr: is that what snapshot semantics predicts?
	void expectCall(Frame & fr, int id)
	{
		if(std::find(fr.called.begin(), fr.called.end(), id) != fr.called.end()) {
			viol.raise("called-twice", "callback " + std::to_string(id) + " called twice by one invocation; " + renderFrame(fr));
			return;
		}
		// next snapshot entry that is still present
		size_t q = fr.pos;
		while(q < fr.snapshot.size() && findItem(fr.obj, fr.ev, fr.snapshot[q]) < 0) ++q;
		if(q < fr.snapshot.size() && fr.snapshot[q] == id) {
			fr.pos = q + 1;
			fr.called.push_back(id);
			return;
		}
		if(fr.relaxed && std::find(fr.addedDuring.begin(), fr.addedDuring.end(), id) != fr.addedDuring.end() && findItem(fr.obj, fr.ev, id) >= 0) {
			fr.called.push_back(id); // the statement's own relaxation: an invocation in progress at the wrap may call callbacks added during it
			sawWrapRelaxation = true;
			return;
		}
		std::string why;
		if(findItem(fr.obj, fr.ev, id) < 0) why = "it is not in the list (removed before its turn, or never added)";
		else if(std::find(fr.snapshot.begin(), fr.snapshot.end(), id) == fr.snapshot.end()) why = "it was added during this invocation";
		else why = "it is out of list order (expected " + (q < fr.snapshot.size() ? std::to_string(fr.snapshot[q]) : std::string("none")) + ")";
		viol.raise("unexpected-callback", "callback " + std::to_string(id) + " was called but " + why + "; " + renderFrame(fr));
	}

	std::string renderFrame(const Frame & fr) const
	{
		std::ostringstream o;
		o << "invocation on obj" << fr.obj << "/ev" << fr.ev << " depth " << frames.size() << " snapshot " << seq::join(fr.snapshot) << " called " << seq::join(fr.called)
		  << " now " << renderList(fr.obj, fr.ev);
		return o.str();
	}
	std::string renderList(int o, int e) const
	{
		std::vector<int> v;
		for(size_t i = 0; i < model[o][e].size(); ++i) v.push_back(model[o][e][i].cb);
		return seq::join(v);
	}

	void beginFrame(int o, int e, int kind, int a, int val, int stopAfter)
	{
		Frame fr; fr.obj = o; fr.ev = e; fr.kind = kind; fr.pos = 0; fr.relaxed = false; fr.argA = a; fr.argVal = val; fr.stopAfter = stopAfter; fr.stopped = false;
		for(size_t i = 0; i < model[o][e].size(); ++i) fr.snapshot.push_back(model[o][e][i].cb);
		frames.push_back(fr);
		if((int)frames.size() > depthMax) depthMax = (int)frames.size();
		if(frames.size() > 1) ++counters.nestedInvocations;
		++counters.invocations;
	}
	void endFrame()
	{
		Frame & fr = frames.back();
		if(!fr.stopped && !viol.set) {
			for(size_t q = fr.pos; q < fr.snapshot.size(); ++q) {
				if(findItem(fr.obj, fr.ev, fr.snapshot[q]) >= 0) {
					viol.raise("missed-callback", "callback " + std::to_string(fr.snapshot[q]) + " was in the list when the invocation started, is still there, and was not called; " + renderFrame(fr));
					break;
				}
			}
		}
		frames.pop_back();
	}

	void noteAdded(int o, int e, int cb)
	{
		for(size_t i = 0; i < frames.size(); ++i) if(frames[i].obj == o && frames[i].ev == e) { frames[i].addedDuring.push_back(cb); ++counters.addedDuringInvocation; }
	}

	// ---- model mutations
	void killSlotsOf(int o)
	{
		for(int s = 0; s < MAXSLOT; ++s) if(slotUsed[s] && slotObj[s] == o) slotObj[s] = -1;
	}
	void moveSlots(int from, int to)
	{
		for(int s = 0; s < MAXSLOT; ++s) if(slotUsed[s] && slotObj[s] == from) slotObj[s] = to;
	}
	void clearModel(int o) { for(int e = 0; e < MAXEVT; ++e) model[o][e].clear(); }

	// ---- one operation; selfSlot >= 0 when issued from the script of that callback
	void doOp(const Op & op, int selfSlot)
	{
		if(viol.set) return;
		const int o = objOf(op), e = evOf(op);
		log((uint64_t)op.k * 1000003 + (uint64_t)(uint32_t)op.a * 31 + (uint64_t)(uint32_t)op.d);
		switch(op.k) {
		case O_APPEND: case O_PREPEND: case O_INSERT: {
			if(!aliveObj(o)) return;
			const int cb = op.a;
			if(cb < 0 || cb >= MAXSLOT || slotUsed[cb]) return;
			int before = op.k == O_INSERT ? (op.b == SELF ? selfSlot : op.b) : -2;
			if(op.k == O_INSERT) {
				if(before < 0 || before >= MAXSLOT) before = MAXSLOT - 1; // an unfilled slot: default-constructed handle
				if(slotUnusable[before] || slotForeign(before, o, e)) return;
				if(!slotPresentIn(before, o, e)) ++counters.staleHandleOps;
			}
			const unsigned counterBefore = Box::canWarp ? Box::counter(real(o), e) : 0;
			Fn f(cb);
			Handle h;
			{
				FaultArm arm;
				if(op.k == O_APPEND) h = Box::append(real(o), e, f);
				else if(op.k == O_PREPEND) h = Box::prepend(real(o), e, f);
				else h = Box::insert(real(o), e, f, handles[before]);
			}
			// the call returned: apply to the model
			slotUsed[cb] = true; slotObj[cb] = o; slotEv[cb] = e; handles[cb] = h; cbScript[cb] = op.c;
			MItem it; it.cb = cb; it.slot = cb;
			std::vector<MItem> & l = model[o][e];
			if(op.k == O_PREPEND) l.insert(l.begin(), it);
			else if(op.k == O_INSERT && slotPresentIn(before, o, e) && before != cb) { l.insert(l.begin() + findItem(o, e, before), it); }
			else l.push_back(it);
			noteAdded(o, e, cb);
			if(Box::canWarp) {
				const unsigned counterAfter = Box::counter(real(o), e);
				if(counterAfter < counterBefore) {
					++counters.wrapsObserved;
					for(size_t i = 0; i < frames.size(); ++i) if(frames[i].obj == o) { frames[i].relaxed = true; ++counters.wrapDuringInvocation; }
				}
			}
			break;
		}
		case O_REMOVE: {
			if(!aliveObj(o)) return;
			int slot = op.b == SELF ? selfSlot : op.b;
			if(slot < 0 || slot >= MAXSLOT) slot = MAXSLOT - 1;
			if(slotUnusable[slot] || slotForeign(slot, o, e)) return;
			const bool expected = slotPresentIn(slot, o, e);
			if(!expected) ++counters.staleHandleOps;
			bool got;
			{ FaultArm arm; got = Box::remove(real(o), e, handles[slot]); }
			log(got ? 11 : 13);
			if(expected) {
				model[o][e].erase(model[o][e].begin() + findItem(o, e, slot));
				slotObj[slot] = -1;
				if(!frames.empty()) ++counters.removedDuringInvocation;
				if(slot == selfSlot) ++counters.selfRemovals;
			}
			if(got != expected) viol.raise("remove-result", "remove through the handle of callback " + std::to_string(slot) + " returned " + (got ? "true" : "false") + " but the callback was "
				+ (expected ? "in the list" : "not in the list (already removed, never added, or empty handle)") + "; list now " + renderList(o, e));
			break;
		}
		case O_OWNS: {
			if(!aliveObj(o)) return;
			int slot = op.b == SELF ? selfSlot : op.b;
			if(slot < 0 || slot >= MAXSLOT) slot = MAXSLOT - 1;
			if(slotUnusable[slot]) return;
			// a handle of another event's list of the same dispatcher / of another object is a legitimate question for ownsHandle
			const bool expected = slotPresentIn(slot, o, e);
			bool got;
			{ FaultArm arm; got = Box::owns(real(o), e, handles[slot]); }
			log(got ? 17 : 19);
			if(got != expected) viol.raise("ownsHandle-result", "ownsHandle for the handle of callback " + std::to_string(slot) + " returned " + (got ? "true" : "false") + " on obj" + std::to_string(o)
				+ " but it is " + (expected ? "" : "not ") + "in that list");
			break;
		}
		case O_EMPTY: {
			if(!aliveObj(o)) return;
			bool got;
			{ FaultArm arm; got = Box::isEmpty(real(o), e); }
			log(got ? 23 : 29);
			if(got != model[o][e].empty()) viol.raise("empty-result", std::string("empty() returned ") + (got ? "true" : "false") + " for list " + renderList(o, e));
			break;
		}
		case O_INVOKE: {
			if(!aliveObj(o) || frames.size() >= 5) return;
			const int a = op.a, val = op.a * 3 + 1;
			Payload p(1000 + (int)frames.size(), val);
			beginFrame(o, e, O_INVOKE, a, val, 0);
			const size_t depth = frames.size();
			try {
				FaultArm arm;
				Box::invoke(real(o), e, a, p);
			}
			catch(...) {
				frames.resize(depth - 1);
				throw;
			}
			if(p.val != val) viol.raise("argument-modified", "the caller's argument object changed during the invocation");
			endFrame();
			break;
		}
		case O_FOREACH: case O_FOREACHIF: {
			if(!aliveObj(o) || frames.size() >= 5) return;
			const int stopAfter = op.k == O_FOREACHIF ? std::max(1, op.c) : 0;
			beginFrame(o, e, op.k, 0, 0, stopAfter);
			const size_t depth = frames.size();
			bool result = true;
			try {
				FaultArm arm;
				if(op.k == O_FOREACH && (op.a & 1)) Box::forEach(real(o), e, EnumH(this));
				else if(op.k == O_FOREACH) Box::forEach(real(o), e, EnumC(this));
				else result = Box::forEachIf(real(o), e, EnumIf(this));
			}
			catch(...) {
				frames.resize(depth - 1);
				throw;
			}
			if(op.k == O_FOREACHIF) {
				const bool expectStop = frames.back().stopped;
				if(result == expectStop) viol.raise("forEachIf-result", std::string("forEachIf returned ") + (result ? "true" : "false") + " although the functor " + (expectStop ? "stopped" : "never stopped") + " the enumeration");
			}
			endFrame();
			break;
		}
		case O_HAS_LISTENER: case O_REMOVE_LISTENER: case O_HAS_ANY: {
			if(!aliveObj(o) || !Box::hasUtil) return;
			const int cb = op.b;
			const int idx = op.k == O_HAS_ANY ? (model[o][e].empty() ? -1 : 0) : findEqual(o, e, cb);
			const bool expected = idx >= 0;
			bool got;
			{
				Fn probe(cb);
				FaultArm arm;
				got = op.k == O_HAS_LISTENER ? Box::utilHas(real(o), e, probe) : op.k == O_REMOVE_LISTENER ? Box::utilRemove(real(o), e, probe) : Box::utilHasAny(real(o), e);
			}
			log(got ? 31 : 37);
			if(op.k == O_REMOVE_LISTENER && expected) {
				const int slot = model[o][e][(size_t)idx].slot;
				model[o][e].erase(model[o][e].begin() + idx);
				if(slot >= 0) slotObj[slot] = -1;
			}
			if(got != expected) viol.raise("eventutil-result", std::string(op.k == O_HAS_LISTENER ? "hasListener" : op.k == O_REMOVE_LISTENER ? "removeListener" : "hasAnyListener") + " returned "
				+ (got ? "true" : "false") + " for callback " + std::to_string(cb) + " with list " + renderList(o, e));
			break;
		}
		case O_REMOVE_NTH: {
			if(!aliveObj(o) || model[o][e].empty()) return;
			const int n = ((op.a % (int)model[o][e].size()) + (int)model[o][e].size()) % (int)model[o][e].size();
			removeNth(o, e, n);
			break;
		}
		case O_CREATE: {
			if(aliveObj(o) || o >= MAXOBJ) return;
			construct(o, -1, false);
			break;
		}
		case O_COPY_CONSTRUCT: case O_MOVE_CONSTRUCT: {
			const int src = op.a & 3;
			if(aliveObj(o) || !aliveObj(src) || frameOn(src)) return;
			++counters.poolOps;
			construct(o, src, op.k == O_MOVE_CONSTRUCT);
			break;
		}
		case O_COPY_ASSIGN: case O_MOVE_ASSIGN: {
			const int src = op.a & 3;
			if(!aliveObj(o) || !aliveObj(src) || frameOn(src) || frameOn(o)) return;
			if(op.k == O_MOVE_ASSIGN && src == o) return; // self-move-assignment is not generated
			++counters.poolOps;
			if(op.k == O_COPY_ASSIGN) {
				try {
					FaultArm arm;
					real(o) = real(src);
				}
				catch(...) {
					if(Box::isDispatcher) adoptAfterFailedAssign(o);
					throw;
				}
				if(src != o) {
					killSlotsOf(o);
					for(int ev = 0; ev < MAXEVT; ++ev) { model[o][ev] = model[src][ev]; for(size_t i = 0; i < model[o][ev].size(); ++i) model[o][ev][i].slot = -1; }
				}
			}
			else {
				{ FaultArm arm; real(o) = std::move(real(src)); }
				killSlotsOf(o);
				moveSlots(src, o);
				for(int ev = 0; ev < MAXEVT; ++ev) { model[o][ev] = model[src][ev]; model[src][ev].clear(); }
			}
			break;
		}
		case O_SWAP: {
			const int other = op.a & 3;
			if(!aliveObj(o) || !aliveObj(other) || frameOn(other) || frameOn(o)) return;
			++counters.poolOps;
			{
				FaultArm arm;
				if(op.c & 1) { using std::swap; swap(real(o), real(other)); }
				else real(o).swap(real(other));
			}
			if(other != o) {
				for(int s = 0; s < MAXSLOT; ++s) if(slotUsed[s]) { if(slotObj[s] == o) slotObj[s] = other; else if(slotObj[s] == other) slotObj[s] = o; }
				for(int ev = 0; ev < MAXEVT; ++ev) model[o][ev].swap(model[other][ev]);
			}
			break;
		}
		case O_DESTROY: {
			if(!aliveObj(o) || frameOn(o)) return;
			int aliveCount = 0;
			for(int i = 0; i < MAXOBJ; ++i) if(store[i].alive) ++aliveCount;
			if(aliveCount <= 1) return;
			++counters.poolOps;
			destroy(o);
			break;
		}
		case O_WARP: {
			if(!aliveObj(o) || !Box::canWarp) return;
			// a clock jump goes forward only: every existing callback keeps a generation not greater than the list's
			const unsigned k = (unsigned)std::max(0, std::min(6, op.a));
			const unsigned target = 0xffffffffu - k;
			if(target > Box::counter(real(o), e)) { Box::warp(real(o), e, target); ++counters.warps; }
			break;
		}
		default: break;
		}
	}

	struct EnumC
	{
		Interp * in;
		explicit EnumC(Interp * i) : in(i) {}
		void operator() (const Callback & cb) const { in->enumerated(cb); }
	};
	struct EnumH
	{
		Interp * in;
		explicit EnumH(Interp * i) : in(i) {}
		void operator() (const Handle & h, const Callback & cb) const { in->enumeratedWithHandle(h, cb); }
	};
	struct EnumIf
	{
		Interp * in;
		explicit EnumIf(Interp * i) : in(i) {}
		bool operator() (const Callback & cb) const { return in->enumerated(cb); }
	};

	bool enumerated(const Callback & cb)
	{
		faultPoint(F_CALL);
		FaultOff off;
		const Fn * f = fnOf(cb);
		if(!f) { viol.raise("enumeration-corrupt", "enumeration yielded something that is not a harness callback"); return false; }
		f->alive("callback enumerated");
		Frame & fr = frames.back();
		log((uint64_t)f->id * 40503 + 5);
		expectCall(fr, f->id);
		if(fr.stopAfter > 0 && (int)fr.called.size() >= fr.stopAfter) { fr.stopped = true; return false; }
		return true;
	}
	void enumeratedWithHandle(const Handle & h, const Callback & cb)
	{
		enumerated(cb);
		FaultOff off;
		const Fn * f = fnOf(cb);
		if(f && f->id >= 0 && f->id < MAXSLOT) {
			// the handle handed to the functor must be the callback's own handle
			const Frame & fr = frames.back();
			bool owns;
			{ FaultArm arm; owns = Box::owns(real(fr.obj), fr.ev, h); }
			if(!owns && findItem(fr.obj, fr.ev, f->id) >= 0) viol.raise("enumeration-handle", "forEach passed a handle that the list does not own for callback " + std::to_string(f->id));
		}
	}

	// remove the n-th callback of (o, e) through a handle obtained by enumeration (works for copies, which have no recorded handles)
	void removeNth(int o, int e, int n)
	{
		Handle found;
		int idx = 0;
		bool have = false;
		Box::forEachIf(real(o), e, [&](const Handle & h, const Callback &) -> bool {
			if(idx++ == n) { found = h; have = true; return false; }
			return true;
		});
		if(!have) { viol.raise("enumeration-short", "enumeration of " + renderList(o, e) + " ended before position " + std::to_string(n)); return; }
		bool got;
		{ FaultArm arm; got = Box::remove(real(o), e, found); }
		const int slot = model[o][e][(size_t)n].slot;
		model[o][e].erase(model[o][e].begin() + n);
		if(slot >= 0) slotObj[slot] = -1;
		if(!got) viol.raise("remove-result", "remove of the callback at position " + std::to_string(n) + " returned false");
	}

	void construct(int o, int src, bool move)
	{
		store[o].fill(plan.user(U_FILL) == 4 ? (int)fillRng.below(4) : plan.user(U_FILL), fillRng);   // its own stream: the fill pattern must not influence any other choice
		++counters.dirtyConstructions;
		{
			FaultArm arm;
			if(src < 0) new (store[o].ptr()) Obj();
			else if(move) new (store[o].ptr()) Obj(std::move(real(src)));
			else new (store[o].ptr()) Obj(real(src));
		}
		store[o].alive = true;
		clearModel(o);
		if(src >= 0) {
			for(int ev = 0; ev < MAXEVT; ++ev) {
				model[o][ev] = model[src][ev];
				if(move) model[src][ev].clear();
				else for(size_t i = 0; i < model[o][ev].size(); ++i) model[o][ev][i].slot = -1;
			}
			if(move) moveSlots(src, o);
		}
	}

	void destroy(int o)
	{
		real(o).~Obj();
		store[o].alive = false;
		killSlotsOf(o);
		clearModel(o);
	}

	// a dispatcher's copy assignment gives the basic guarantee only: re-read the destination and forget its old handles
	void adoptAfterFailedAssign(int o)
	{
		FaultOff off;
		for(int s = 0; s < MAXSLOT; ++s) if(slotUsed[s] && slotObj[s] == o) { slotUnusable[s] = true; slotObj[s] = -1; }
		for(int ev = 0; ev < nEvents; ++ev) {
			model[o][ev].clear();
			std::vector<MItem> & l = model[o][ev];
			Box::forEach(real(o), ev, [&l](const Callback & cb) { const Fn * f = fnOf(cb); MItem it; it.cb = f ? f->id : -99; it.slot = -1; l.push_back(it); });
		}
	}

	// ---- observation at quiescent points: the real objects must look exactly like the model
	void observe(const char * when)
	{
		if(viol.set) return;
		++counters.observeSteps;
		for(int o = 0; o < MAXOBJ && !viol.set; ++o) {
			if(!store[o].alive) continue;
			for(int e = 0; e < nEvents && !viol.set; ++e) {
				std::vector<int> seen;
				bool bad = false;
				Box::forEach(real(o), e, [&](const Callback & cb) {
					const Fn * f = fnOf(cb);
					if(!f || !ledger().use(f, seq::T_FN, "stored callback")) { bad = true; return; }
					seen.push_back(f->id);
				});
				std::vector<int> want;
				for(size_t i = 0; i < model[o][e].size(); ++i) want.push_back(model[o][e][i].cb);
				if(bad || seen != want) {
					viol.raise("content-mismatch", std::string(when) + ": obj" + std::to_string(o) + "/ev" + std::to_string(e) + " enumerates " + seq::join(seen) + " but should hold " + seq::join(want));
					break;
				}
				if(Box::isEmpty(real(o), e) != want.empty()) { viol.raise("empty-result", std::string(when) + ": empty() disagrees with the content " + seq::join(want)); break; }
				for(size_t i = 0; i < seen.size(); ++i) log((uint64_t)seen[i] + 101);
				if(e == 0 || !seen.empty()) log(0xabcdef);   // (a list and a dispatcher with unused events must log alike: C20 compares these hashes)
			}
			for(int s = 0; s < MAXSLOT && !viol.set; ++s) {
				if(!slotUsed[s] || slotUnusable[s]) continue;
				const int e = slotEv[s];
				const bool expected = slotObj[s] == o;
				if(Box::owns(real(o), e, handles[s]) != expected) {
					viol.raise("ownsHandle-result", std::string(when) + ": ownsHandle(handle of callback " + std::to_string(s) + ") on obj" + std::to_string(o) + " is " + (expected ? "false" : "true")
						+ " but the callback is " + (expected ? "" : "not ") + "in it");
				}
			}
		}
		if(viol.set) return;
		// existence: a callback removed from every container has no live instance; a present one has at least one per holder
		int holders[MAXSLOT];
		for(int i = 0; i < MAXSLOT; ++i) holders[i] = 0;
		for(int o = 0; o < MAXOBJ; ++o) if(store[o].alive) for(int e = 0; e < nEvents; ++e) for(size_t i = 0; i < model[o][e].size(); ++i) {
			const int cb = model[o][e][i].cb;
			if(cb >= 0 && cb < MAXSLOT) ++holders[cb];
		}
		for(int cb = 0; cb < MAXSLOT; ++cb) {
			if(!slotUsed[cb]) continue;
			const int live = ledger().liveCount(seq::T_FN, cb);
			if(holders[cb] == 0 && live != 0) { viol.raise("removed-callback-still-alive", std::string(when) + ": callback " + std::to_string(cb) + " is in no container and no invocation is running, yet " + std::to_string(live) + " instance(s) are alive"); return; }
			if(live < holders[cb]) { viol.raise("stored-callback-destroyed", std::string(when) + ": callback " + std::to_string(cb) + " is held by " + std::to_string(holders[cb]) + " container(s) but only " + std::to_string(live) + " instance(s) are alive"); return; }
		}
		if(ledger().liveOfType(seq::T_PAY) != 0) viol.raise("argument-leak", std::string(when) + ": argument objects are still alive after the invocation returned");
		if(ledger().hasError()) viol.raise(ledger().errorClass, ledger().error);
	}

	// ---- top-level driver
	// faults: pairs (top-level op index, k) - the k-th fault point of that op fires
	void execute(const std::vector<int> & faults)
	{
		FaultCtl & fc = faultCtl();
		fc.countdown = 0; fc.passed = 0; fc.lastFired = -1;
		ledger().reset();
		fuel = std::max(0, plan.user(U_FUEL));
		for(int o = 0; o < MAXOBJ; ++o) store[o].alive = false;
		const int nObj = std::max(1, std::min((int)MAXOBJ, plan.user(U_OBJECTS)));
		for(int o = 0; o < nObj; ++o) construct(o, -1, false);
		const OpList empty;
		const OpList & ops = plan.tasks.empty() ? empty : plan.tasks[0];
		passedPerOp.assign(ops.size(), 0);
		for(size_t i = 0; i < ops.size() && !viol.set; ++i) {
			long arm = 0;
			for(size_t f = 0; f + 1 < faults.size(); f += 2) if(faults[f] == (int)i) arm = faults[f + 1];
			fc.countdown = arm; fc.lastFired = -1;
			const long before = fc.passed;
			fuel = std::max(0, plan.user(U_FUEL));
			bool threw = false;
			const size_t depth = frames.size();
			try {
				++counters.topOps;
				doOp(ops[i], -1);
			}
			catch(const InjectedFault &) { threw = true; }
			catch(const std::bad_alloc &) { threw = true; }
			frames.resize(depth);
			passedPerOp[i] = fc.passed - before;
			const bool fired = fc.lastFired >= 0;
			fc.countdown = 0;
			if(threw && !fired) viol.raise("unexpected-exception", "operation " + std::to_string(i) + " threw although no fault was injected");
			if(fired && !threw) viol.raise("fault-swallowed", "a fault (kind " + std::to_string(fc.lastFired) + ") was injected into operation " + std::to_string(i) + " (" + opName(ops[i].k) + ") but the call returned normally");
			if(fired) { ++counters.opsFailedByFault; log(0xfa17); }
			observe(threw ? "after a failed operation" : "after an operation");
		}
		if(viol.set) return;
		// drain: unlink everything one by one (back-links), then destroy; nothing may stay alive
		++counters.drains;
		for(int o = 0; o < MAXOBJ && !viol.set; ++o) {
			if(!store[o].alive) continue;
			if((plan.schedSeed() + (uint64_t)o) % 3 == 0) continue; // some objects are destroyed while still holding callbacks
			for(int e = 0; e < nEvents && !viol.set; ++e) {
				while(!model[o][e].empty() && !viol.set) {
					removeNth(o, e, (int)aux.below((uint32_t)model[o][e].size()));
					observe("while draining");
				}
			}
		}
		if(viol.set) return;
		for(int o = 0; o < MAXOBJ; ++o) if(store[o].alive) destroy(o);
		for(int s = 0; s < MAXSLOT; ++s) handles[s] = Handle();
		if(ledger().hasError()) viol.raise(ledger().errorClass, ledger().error);
		else if(ledger().liveTotal() != 0) {
			viol.raise("leak", "after destroying every container " + std::to_string(ledger().liveTotal()) + " tracked object(s) are still alive (callback id " + std::to_string(ledger().anyLiveId(seq::T_FN)) + ")");
		}
	}

	static const char * opName(int k)
	{
		static const char * n[] = { "?", "append", "prepend", "insert", "remove", "ownsHandle", "empty", "invoke", "forEach", "forEachIf", "hasListener", "removeListener",
			"hasAnyListener", "removeNth", "copyConstruct", "copyAssign", "moveConstruct", "moveAssign", "swap", "destroy", "create", "warp", "steal" };
		return k >= 1 && k < O_KINDS ? n[k] : "?";
	}
};

template <typename Box>
void runBox(const Plan & plan, RunOut & out, bool inSim)
{
	const bool faultMode = engine::mode == "c09";
	g_sink = nullptr;
	std::vector<int> faults = plan.faults;
	long subRuns = 0;

	// one execution with the given fault list; returns the interpreter's verdict
	struct One
	{
		static void run(const Plan & plan, const std::vector<int> & faults, bool faultMode, bool inSim, RunOut & out, std::vector<long> * passed, uint64_t * logHash, int * depth, bool * relaxedSeen)
		{
			Interp<Box> * in = new Interp<Box>(plan, faultMode);
			g_sink = in;
			g_eqMod = Box::hasUtil ? plan.user(U_EQMOD) : 0;
			if(inSim) {
				std::string fc, fd;
				Interp<Box> * ip = in;
				const std::vector<int> * fp = &faults;
				if(!seq::runInOneTask([ip, fp]() { ip->execute(*fp); }, fc, fd)) { out.fail(fc, fd); g_sink = nullptr; return; } // leaked: the fiber may reference it
			}
			else in->execute(faults);
			if(in->viol.set) out.fail(in->viol.cls, in->viol.detail);
			if(passed) *passed = in->passedPerOp;
			if(logHash) *logHash = in->logHash;
			if(depth) *depth = in->depthMax;
			if(relaxedSeen) *relaxedSeen = in->sawWrapRelaxation;
			g_sink = nullptr;
			if(!out.violation) delete in; // on violation the state may be corrupt: leak it
		}
	};

	std::vector<long> passed;
	uint64_t lh = 0; int depth = 0; bool relaxedSeen = false;
	One::run(plan, faults, faultMode, inSim, out, &passed, &lh, &depth, &relaxedSeen);
	++subRuns;
	out.logHash = lh;
	if((uint64_t)depth > counters.maxDepthSeen) counters.maxDepthSeen = (uint64_t)depth;
	if(faultMode && faults.empty() && !out.violation) {
		// systematic enumeration: every operation i, every fault point k <= N_i
		Rng frng(plan.schedSeed() ^ 0xfa171);
		for(size_t i = 0; i < passed.size() && !out.violation; ++i) {
			for(long k = 1; k <= passed[i] && !out.violation; ++k) {
				std::vector<int> f;
				f.push_back((int)i); f.push_back((int)k);
				// "in succession": sometimes a second fault later in the same execution
				if(frng.chance(1, 6) && i + 1 < passed.size()) {
					const size_t j = i + 1 + frng.below((uint32_t)(passed.size() - i - 1));
					if(passed[j] > 0) { f.push_back((int)j); f.push_back(1 + (int)frng.below((uint32_t)passed[j])); ++counters.secondFaults; }
				}
				RunOut sub;
				One::run(plan, f, faultMode, inSim, sub, nullptr, nullptr, nullptr, nullptr);
				++subRuns; ++counters.faultRuns;
				if(sub.violation) { out.fail(sub.cls, sub.detail); out.faults = f; }
			}
		}
	}
	for(int kd = 0; kd < F_KINDS; ++kd) { counters.faultsByKind[kd] += (uint64_t)faultCtl().firedKind[kd]; counters.faultsInjected += (uint64_t)faultCtl().firedKind[kd]; faultCtl().firedKind[kd] = 0; }
	out.subRuns = subRuns;
	out.steps = (long)(plan.tasks.empty() ? 0 : plan.tasks[0].size());
	// identity of the case: the plan itself
	uint64_t ch = kHashInit;
	if(!plan.tasks.empty()) for(size_t i = 0; i < plan.tasks[0].size(); ++i) { const Op & op = plan.tasks[0][i]; ch = hashMix(ch, (uint64_t)op.k * 131 + (uint64_t)(uint32_t)op.a * 31 + (uint64_t)(uint32_t)op.b * 17 + (uint64_t)(uint32_t)op.c * 7 + (uint64_t)(uint32_t)op.d); }
	for(size_t s = 0; s < plan.scripts.size(); ++s) for(size_t i = 0; i < plan.scripts[s].size(); ++i) ch = hashMix(ch, (uint64_t)plan.scripts[s][i].k * 977 + (uint64_t)(uint32_t)plan.scripts[s][i].b);
	out.caseHash = hashMix(ch, (uint64_t)plan.user(U_VARIANT));
	(void)relaxedSeen;
}

} // namespace sl

// one variant per translation unit
namespace sl {
struct PolSingle { typedef eventpp::SingleThreading Threading; };
struct PolMulti { };
struct PolSpin { typedef eventpp::GeneralThreading<eventpp::SpinLock> Threading; };
struct PolSim { typedef sim::SimThreading Threading; };
struct PolCustomCb { typedef eventpp::SingleThreading Threading; typedef Fn Callback; };
struct PolSingleMap { typedef eventpp::SingleThreading Threading; template <typename K, typename V> using Map = std::map<K, V>; };
struct PolCustomCbMulti { typedef Fn Callback; };

#if SEQ_VARIANT == 0
void runVariant0(const Plan & p, RunOut & o) { runBox<ListBox<PolSingle, false> >(p, o, false); }
#elif SEQ_VARIANT == 1
void runVariant1(const Plan & p, RunOut & o) { runBox<ListBox<PolMulti, false> >(p, o, false); }
#elif SEQ_VARIANT == 2
void runVariant2(const Plan & p, RunOut & o) { runBox<ListBox<PolSpin, false> >(p, o, false); }
#elif SEQ_VARIANT == 3
void runVariant3(const Plan & p, RunOut & o) { runBox<ListBox<PolSim, false> >(p, o, true); }
#elif SEQ_VARIANT == 4
void runVariant4(const Plan & p, RunOut & o) { runBox<ListBox<PolCustomCb, true> >(p, o, false); }
#elif SEQ_VARIANT == 5
void runVariant5(const Plan & p, RunOut & o) { runBox<DispBox<PolMulti, false> >(p, o, false); }
#elif SEQ_VARIANT == 6
void runVariant6(const Plan & p, RunOut & o) { runBox<DispBox<PolSingleMap, false> >(p, o, false); }
#elif SEQ_VARIANT == 7
void runVariant7(const Plan & p, RunOut & o) { runBox<DispBox<PolSim, false> >(p, o, true); }
#elif SEQ_VARIANT == 8
void runVariant8(const Plan & p, RunOut & o) { runBox<DispBox<PolCustomCbMulti, true> >(p, o, false); }
#endif
} // namespace sl

#endif // SEQ_VARIANT

#if defined(SEQ_MAIN)
// =====================================================================================================
namespace sl {

Sink * g_sink = nullptr;
int g_eqMod = 0;
Counters counters;

void runVariant0(const Plan &, RunOut &); void runVariant1(const Plan &, RunOut &); void runVariant2(const Plan &, RunOut &);
void runVariant3(const Plan &, RunOut &); void runVariant4(const Plan &, RunOut &); void runVariant5(const Plan &, RunOut &);
void runVariant6(const Plan &, RunOut &); void runVariant7(const Plan &, RunOut &); void runVariant8(const Plan &, RunOut &);

void runVariant(int v, const Plan & p, RunOut & o)
{
	switch(v) {
	case 0: runVariant0(p, o); break; case 1: runVariant1(p, o); break; case 2: runVariant2(p, o); break;
	case 3: runVariant3(p, o); break; case 4: runVariant4(p, o); break; case 5: runVariant5(p, o); break;
	case 6: runVariant6(p, o); break; case 7: runVariant7(p, o); break; default: runVariant8(p, o); break;
	}
}

// ------------------------------------------------------------------------------------------- generator
struct Gen
{
	Rng & rng;
	Plan & plan;
	const std::string & mode;
	int nextCb;
	bool disp, util, canWarp;
	int nObj, nEvents;
	std::vector<int> known;   // slots handed out so far (live or not)

	Gen(Rng & r, Plan & p, const std::string & m) : rng(r), plan(p), mode(m), nextCb(0), disp(false), util(false), canWarp(false), nObj(1), nEvents(1) {}

	int pickObj() { return (int)rng.below((uint32_t)nObj); }
	int pickEv() { return (int)rng.below((uint32_t)nEvents); }
	int dOf(int o, int e) { return o * 4 + e; }
	int pickSlot()
	{
		const uint32_t r = rng.below(100);
		if(known.empty() || r < 6) return MAXSLOT - 1 - (int)rng.below(3);           // never filled: default-constructed handle
		if(r < 40) return known[known.size() - 1 - rng.below((uint32_t)std::min<size_t>(known.size(), 3))]; // recent
		return known[rng.below((uint32_t)known.size())];                             // any (live, stale, repeated)
	}

	Op addOp(int o, int e, bool allowScript, int scriptDepth)
	{
		const uint32_t r = rng.below(100);
		Op op;
		op.k = r < 40 ? O_APPEND : r < 65 ? O_PREPEND : O_INSERT;
		op.a = nextCb++;
		op.b = op.k == O_INSERT ? pickSlot() : 0;
		op.d = dOf(o, e);
		if(allowScript && rng.chance(1, 2)) op.c = makeScript(o, e, op.a, scriptDepth);
		known.push_back(op.a);
		return op;
	}

	// a script for callback 'self' living in (o, e); returns index + 1
	int makeScript(int o, int e, int self, int depth)
	{
		if(plan.scripts.size() >= 12 || nextCb >= MAXSLOT - 8) return 0;
		const size_t idx = plan.scripts.size();
		plan.scripts.push_back(OpList());
		OpList ops;
		const int n = 1 + (int)rng.below(3);
		for(int i = 0; i < n; ++i) {
			const uint32_t r = rng.below(100);
			Op op;
			if(r < 16) op = Op(O_REMOVE, 0, SELF, 0, dOf(o, e));                                        // remove itself (once, twice ...)
			else if(r < 30) op = Op(O_REMOVE, 0, pickSlot(), 0, dOf(o, e));                             // next / previous / passed / not yet reached
			else if(r < 40) { op = Op(O_INSERT, nextCb++, SELF, 0, dOf(o, e)); known.push_back(op.a); } // insert before itself (possibly just removed)
			else if(r < 52 && nextCb < MAXSLOT - 8) { op = addOp(o, e, depth < 2, depth + 1); }
			else if(r < 58) op = Op(O_OWNS, 0, rng.chance(1, 2) ? (int)SELF : pickSlot(), 0, dOf(o, e));
			else if(r < 62) op = Op(O_EMPTY, 0, 0, 0, dOf(o, e));
			else if(r < 74 && depth < 3) op = Op(O_INVOKE, (int)rng.below(50), 0, 0, dOf(o, e));        // re-invoke the same list
			else if(r < 78 && depth < 3) op = Op(O_FOREACH, (int)rng.below(2), 0, 0, dOf(o, e));
			else if(r < 80 && depth < 3) op = Op(O_FOREACHIF, 0, 0, 1 + (int)rng.below(3), dOf(o, e));
			else if(r < 84) op = Op(O_STEAL);
			else if(r < 88 && canWarp && (mode == "c19" || mode == "c08")) op = Op(O_WARP, (int)rng.below(4), 0, 0, dOf(o, e));
			else if(r < 92 && util) op = Op(rng.chance(1, 2) ? O_HAS_LISTENER : O_REMOVE_LISTENER, 0, pickSlot(), 0, dOf(o, e));
			else if(r < 96 && nEvents > 1) { const int e2 = pickEv(); op = rng.chance(1, 2) ? Op(O_INVOKE, (int)rng.below(50), 0, 0, dOf(o, e2)) : Op(O_REMOVE, 0, pickSlot(), 0, dOf(o, e2)); } // other lists of the same dispatcher
			else op = Op(O_REMOVE, 0, SELF, 0, dOf(o, e));
			ops.push_back(op);
		}
		(void)self;
		plan.scripts[idx] = ops;
		return (int)idx + 1;
	}

	void run()
	{
		const bool scripts = mode == "c02" || mode == "c08" || mode == "c09" || mode == "c19" || mode == "c20";   // (c20: what a callback adds or removes during an invocation must not depend on the policies either)
		const bool pool = mode == "c10" || mode == "c08" || mode == "c09" || mode == "c19" || mode == "c20";
		const bool warps = mode == "c19" || mode == "c10";
		// variant: which class / policies
		int variant;
		if(mode == "c01") { static const int v[] = { V_LIST_SINGLE, V_LIST_MULTI, V_LIST_CUSTOMCB, V_LIST_CUSTOMCB }; variant = v[rng.below(4)]; }
		else if(mode == "c19") { static const int v[] = { V_LIST_SINGLE, V_LIST_MULTI, V_LIST_SIM }; variant = v[rng.below(3)]; }
		else if(mode == "c20") variant = V_LIST_MULTI; // execute() runs the plan under every policy variant and fill pattern
		else variant = (int)rng.below(V_COUNT);
		plan.user(U_VARIANT) = variant;
		disp = variant >= V_DISP_DEFAULT;
		util = variant == V_LIST_CUSTOMCB || variant == V_DISP_CUSTOMCB;
		if(util && rng.chance(1, 2)) plan.user(U_EQMOD) = 2 + (int)rng.below(6);
		canWarp = !disp && mode != "c20";
		nEvents = disp ? 2 + (int)rng.below(2) : 1;
		nObj = pool ? 2 + (int)rng.below(2) : 1;
		plan.user(U_OBJECTS) = pool ? 1 + (int)rng.below((uint32_t)nObj) : 1;
		plan.user(U_FUEL) = scripts ? 6 + (int)rng.below(25) : 0;
		plan.user(U_FILL) = 4; // a fresh pattern per construction
		plan.tasks.assign(1, OpList());
		OpList & ops = plan.tasks[0];
		const int len = mode == "c09" ? 4 + (int)rng.below(9) : 8 + (int)rng.below(33);
		for(int i = 0; i < len && nextCb < MAXSLOT - 10; ++i) {
			const int o = pickObj(), e = pickEv();
			const uint32_t r = rng.below(100);
			Op op;
			if(r < 30) op = addOp(o, e, scripts, 0);
			else if(r < 42) op = Op(O_REMOVE, 0, pickSlot(), 0, dOf(o, e));
			else if(r < 47) op = Op(O_OWNS, 0, pickSlot(), 0, dOf(pickObj(), e));
			else if(r < 50) op = Op(O_EMPTY, 0, 0, 0, dOf(o, e));
			else if(r < 68) op = Op(O_INVOKE, (int)rng.below(1000) - 500, 0, 0, dOf(o, e));
			else if(r < 72) op = Op(O_FOREACH, (int)rng.below(2), 0, 0, dOf(o, e));
			else if(r < 75) op = Op(O_FOREACHIF, 0, 0, 1 + (int)rng.below(4), dOf(o, e));
			else if(r < 79) op = util ? Op(O_HAS_LISTENER + (int)rng.below(3), 0, pickSlot(), 0, dOf(o, e)) : Op(O_REMOVE_NTH, (int)rng.below(8), 0, 0, dOf(o, e));
			else if(r < 82) op = Op(O_REMOVE_NTH, (int)rng.below(8), 0, 0, dOf(o, e));
			else if(pool) {
				const uint32_t q = rng.below(100);
				const int other = pickObj();
				if(q < 18) op = Op(O_COPY_CONSTRUCT, other, 0, 0, dOf(o, 0));
				else if(q < 36) op = Op(O_COPY_ASSIGN, other, 0, 0, dOf(o, 0));
				else if(q < 50) op = Op(O_MOVE_CONSTRUCT, other, 0, 0, dOf(o, 0));
				else if(q < 64) op = Op(O_MOVE_ASSIGN, other, 0, 0, dOf(o, 0));
				else if(q < 80) op = Op(O_SWAP, other, 0, (int)rng.below(2), dOf(o, 0));
				else if(q < 90) op = Op(O_DESTROY, 0, 0, 0, dOf(o, 0));
				else op = Op(O_CREATE, 0, 0, 0, dOf(o, 0));
			}
			else op = Op(O_INVOKE, (int)rng.below(1000), 0, 0, dOf(o, e));
			if(warps && canWarp && rng.chance(1, mode == "c19" ? 5 : 12)) ops.push_back(Op(O_WARP, (int)rng.below(7), 0, 0, dOf(o, e)));
			ops.push_back(op);
		}
	}
};

} // namespace sl

namespace engine {

const char * const kName = "seq_list";
std::string mode = "c01";

bool wantsPilot(const Plan &) { return false; }

void generate(uint64_t seed, Plan & plan)
{
	Rng rng(seed);
	plan.setSchedSeed(rng.next());
	sl::Gen g(rng, plan, mode);
	g.run();
}

void execute(const Plan & plan, RunOut & out)
{
	seq::installHooks();
	const int v = plan.user(sl::U_VARIANT);
	if(mode == "c20") {
		// the same plan under every Threading x Map x Callback variant and three storage fill patterns: one event log
		uint64_t ref = 0; bool have = false; long sub = 0;
		for(int vv = 0; vv < sl::V_COUNT && !out.violation; ++vv) {
			for(int fill = 0; fill < 3 && !out.violation; ++fill) {
				Plan p2 = plan;
				p2.user(sl::U_VARIANT) = vv; p2.user(sl::U_FILL) = fill;
				RunOut o2;
				sl::runVariant(vv, p2, o2);
				++sub;
				if(o2.violation) out.fail(o2.cls, "[policy variant " + std::to_string(vv) + ", fill pattern " + std::to_string(fill) + "] " + o2.detail);
				else if(!have) { ref = o2.logHash; have = true; }
				else if(o2.logHash != ref) out.fail("configuration-dependent-behaviour", "policy variant " + std::to_string(vv) + " with fill pattern " + std::to_string(fill) + " produced a different event log than variant 0 / fill 0 for the same plan");
				out.caseHash = o2.caseHash;
			}
		}
		out.logHash = ref; out.subRuns = sub;
		out.steps = (long)(plan.tasks.empty() ? 0 : plan.tasks[0].size());
	}
	else sl::runVariant(v, plan, out);
	++sl::counters.plans;
	if(v >= 0 && v < sl::V_COUNT) ++sl::counters.perVariant[v];
	// non-trivial: the plan contains at least one operation of the mode's focus kind
	bool focus = false;
	const bool wantScript = mode == "c02", wantPool = mode == "c10", wantWarp = mode == "c19";
	if(!plan.tasks.empty()) {
		for(size_t i = 0; i < plan.tasks[0].size(); ++i) {
			const Op & op = plan.tasks[0][i];
			if(wantScript) { if(op.k <= sl::O_INSERT && op.c > 0) focus = true; }
			else if(wantPool) { if(op.k >= sl::O_COPY_CONSTRUCT && op.k <= sl::O_SWAP) focus = true; }
			else if(wantWarp) { if(op.k == sl::O_WARP) focus = true; }
			else if(op.k == sl::O_INVOKE) focus = true;
		}
	}
	out.nontrivial = focus;
}

static const char * kOpNames[] = { "?", "append", "prepend", "insert", "remove", "ownsHandle", "empty", "invoke", "forEach", "forEachIf", "hasListener", "removeListener",
	"hasAnyListener", "removeNth", "copyConstruct", "copyAssign", "moveConstruct", "moveAssign", "swap", "destroy", "create", "warp", "steal" };

static void describeOp(const Op & op, std::ostringstream & o)
{
	using namespace sl;
	o << (op.k >= 1 && op.k < O_KINDS ? kOpNames[op.k] : "?");
	const int obj = (op.d >> 2) & 3, ev = op.d & 3;
	if(op.k <= O_INSERT) { o << "(cb" << op.a; if(op.k == O_INSERT) { o << ",before "; if(op.b == SELF) o << "self"; else o << "h" << op.b; } if(op.c) o << ",script" << op.c - 1; o << ")"; }
	else if(op.k == O_REMOVE || op.k == O_OWNS) { if(op.b == SELF) o << "(self)"; else o << "(h" << op.b << ")"; }
	else if(op.k == O_INVOKE) o << "(" << op.a << ")";
	else if(op.k == O_HAS_LISTENER || op.k == O_REMOVE_LISTENER) o << "(cb" << op.b << ")";
	else if(op.k == O_REMOVE_NTH || op.k == O_WARP) o << "(" << op.a << ")";
	else if(op.k >= O_COPY_CONSTRUCT && op.k <= O_SWAP) o << "(obj" << (op.a & 3) << ")";
	if(op.k != O_STEAL) { o << "@obj" << obj; if(ev) o << "/ev" << ev; }
}

std::string describe(const Plan & plan)
{
	static const char * vn[] = { "CallbackList/SingleThreading", "CallbackList/MultipleThreading", "CallbackList/SpinLock", "CallbackList/SimMutex-one-task", "CallbackList/custom-Callback",
		"EventDispatcher/default", "EventDispatcher/Single+std::map", "EventDispatcher/SimMutex-one-task", "EventDispatcher/custom-Callback" };
	std::ostringstream o;
	const int v = plan.user(sl::U_VARIANT);
	o << (v >= 0 && v < sl::V_COUNT ? vn[v] : "?") << " objs=" << plan.user(sl::U_OBJECTS) << " fuel=" << plan.user(sl::U_FUEL) << " :";
	if(!plan.tasks.empty()) for(size_t i = 0; i < plan.tasks[0].size(); ++i) { o << " "; describeOp(plan.tasks[0][i], o); }
	for(size_t s = 0; s < plan.scripts.size(); ++s) {
		o << " | script" << s << ":";
		for(size_t i = 0; i < plan.scripts[s].size(); ++i) { o << " "; describeOp(plan.scripts[s][i], o); }
	}
	if(!plan.faults.empty()) o << " | faults " << seq::join(plan.faults);
	return o.str();
}

void statsJson(std::string & out)
{
	const sl::Counters & c = sl::counters;
	std::ostringstream o;
	o << ",\"probes\":{\"top_level_ops\":" << c.topOps << ",\"ops_from_callbacks\":" << c.nestedOps << ",\"invocations\":" << c.invocations << ",\"nested_invocations\":" << c.nestedInvocations
	  << ",\"callbacks_called\":" << c.callbacksCalled << ",\"self_removals\":" << c.selfRemovals << ",\"ops_through_stale_or_empty_handles\":" << c.staleHandleOps
	  << ",\"removed_during_invocation\":" << c.removedDuringInvocation << ",\"added_during_invocation\":" << c.addedDuringInvocation
	  << ",\"copy_move_swap_destroy_ops\":" << c.poolOps << ",\"constructions_in_dirty_storage\":" << c.dirtyConstructions << ",\"counter_warps\":" << c.warps << ",\"wraps_observed\":" << c.wrapsObserved
	  << ",\"wrap_during_invocation\":" << c.wrapDuringInvocation << ",\"drains\":" << c.drains << ",\"observation_steps\":" << c.observeSteps << ",\"max_nesting_depth\":" << c.maxDepthSeen << "}"
	  << ",\"faults\":{\"fault_runs\":" << c.faultRuns << ",\"injected_total\":" << c.faultsInjected << ",\"alloc\":" << c.faultsByKind[F_ALLOC] << ",\"copy\":" << c.faultsByKind[F_COPY]
	  << ",\"move\":" << c.faultsByKind[F_MOVE] << ",\"call\":" << c.faultsByKind[F_CALL] << ",\"compare\":" << c.faultsByKind[F_CMP] << ",\"second_faults_armed\":" << c.secondFaults
	  << ",\"operations_failed_by_fault\":" << c.opsFailedByFault << "}"
	  << ",\"per_variant\":[";
	for(int i = 0; i < sl::V_COUNT; ++i) o << (i ? "," : "") << c.perVariant[i];
	o << "]";
	out += o.str();
}

} // namespace engine

int main(int argc, char ** argv) { return sim::workerMain(argc, argv); }

#endif // SEQ_MAIN
