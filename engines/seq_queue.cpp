// SEQ / FLT engine over a pool of EventQueue objects (plain, OrderedQueueList, move-only payload, by-value prototype).
// Modes: c05 (FIFO exactly-once histories incl. operations from listeners and predicates), c13 (ordered queue list),
//        c10 (copy/move/assign/swap, dirty storage), c11 (listener as observer), c08, c09 (fault enumeration), c20
// Lockstep model: every listener / predicate call the real code makes is compared, when it happens, with what the
// reference queue model predicts.
#ifdef SEQ_MAIN
#define VERIF_REPLACE_NEW
#endif
#include "seq_common.h"

#include <eventpp/utilities/orderedqueuelist.h>

#include <chrono>

using namespace sim;

namespace sq {

enum { MAXOBJ = 3, MAXSLOT = 48, MAXKEY = 3, MAXEVID = 4000, SELF = -1 };
enum OpKind {
	O_ENQ = 1, O_PROCESS = 2, O_PROCESS_ONE = 3, O_PROCESS_IF = 4, O_PROCESS_UNTIL = 5, O_PEEK = 6, O_TAKE = 7, O_CLEAR = 8, O_EMPTYQ = 9, O_WAITFOR0 = 10,
	O_APPEND_L = 11, O_PREPEND_L = 12, O_INSERT_L = 13, O_REMOVE_L = 14, O_DISPATCH = 15, O_DQN_OPEN = 16, O_DQN_CLOSE = 17,
	O_COPY_CONSTRUCT = 18, O_COPY_ASSIGN = 19, O_MOVE_CONSTRUCT = 20, O_MOVE_ASSIGN = 21, O_SWAP = 22, O_DESTROY = 23, O_CREATE = 24, O_HAS_ANY = 25, O_KINDS = 26
};
// Op fields: d = object * 4 + key.
//   enqueue: a = event id (unique), b = form (0 lvalues then mutated, 1 temporaries / moved, 2 event-included form), c unused
//   processIf / processUntil: a = accept mask over (event id % 8), b = script index + 1 run inside the predicate, c = 1: predicate without arguments
//   take: c = 1: dispatch the taken event afterwards
//   listeners: a = callback id (= handle slot), b = 'before' slot, c = script index + 1; removeListener: b = slot (SELF in scripts)
//   dispatch (synchronous): a = event id
//   copy/move/swap: a = other object
enum { U_VARIANT = 0, U_FUEL = 1, U_FILL = 2, U_OBJECTS = 3 };
enum { V_PLAIN_SINGLE = 0, V_BYVALUE_MULTI = 1, V_MOVEONLY = 2, V_ORDERED_ASC = 3, V_ORDERED_DESC_MULTI = 4, V_ORDERED_FIELD = 5, V_PLAIN_SIM = 6, V_COUNT = 7 };

inline int checksum(int id) { return id * 31 + 7; }

struct Pay : Tracked<seq::T_PAY, false>
{
	Pay() : Tracked<seq::T_PAY, false>(-1, 0) {}
	Pay(int id, int val) : Tracked<seq::T_PAY, false>(id, val) {}
};

struct MoveOnly : Tracked<seq::T_PAY, false>
{
	MoveOnly() : Tracked<seq::T_PAY, false>(-1, 0) {}
	MoveOnly(int id, int val) : Tracked<seq::T_PAY, false>(id, val) {}
	MoveOnly(const MoveOnly &) = delete;
	MoveOnly & operator = (const MoveOnly &) = delete;
	MoveOnly(MoveOnly && o) : Tracked<seq::T_PAY, false>(std::move(o)) {}
	MoveOnly & operator = (MoveOnly && o) { Tracked<seq::T_PAY, false>::operator = (std::move(o)); return *this; }
};

struct Sink
{
	virtual void onListener(int cb, int a, int evId, int val, bool alive) = 0;
	virtual bool onPredicate(int mask, int script, bool hasArgs, int a, int evId, int val) = 0;
	virtual ~Sink() {}
};
extern Sink * g_sink;

struct QFn : Tracked<seq::T_FN, false>
{
	explicit QFn(int id) : Tracked<seq::T_FN, false>(id) {}
	template <typename P>
	void operator() (int a, const P & p) const
	{
		const bool ok = this->alive("listener invoked") && p.alive("listener argument");
		g_sink->onListener(this->id, a, p.id, p.val, ok);
	}
};

struct Pred
{
	int mask, script;
	Pred(int m, int s) : mask(m), script(s) {}
	template <typename P>
	bool operator() (int a, const P & p) const { p.alive("predicate argument"); return g_sink->onPredicate(mask, script, true, a, p.id, p.val); }
};
// a predicate that takes the event's payload BY VALUE (it must get a copy: the queued event stays intact)
struct PredByValue
{
	int mask, script;
	PredByValue(int m, int s) : mask(m), script(s) {}
	template <typename P>
	bool operator() (int a, P p) const { p.alive("predicate argument"); const bool r = g_sink->onPredicate(mask, script, true, a, p.id, p.val); P stolen(std::move(p)); (void)stolen; return r; }
};
struct PredNoArgs
{
	int mask, script;
	PredNoArgs(int m, int s) : mask(m), script(s) {}
	bool operator() () const { return g_sink->onPredicate(mask, script, false, 0, -1, 0); }
};

struct Counters
{
	uint64_t plans, topOps, nestedOps, enqueued, dispatchedEvents, listenerCalls, predicateCalls, declined, putBackWithNewer, taken, peeked, cleared, clearedEvents,
		nestedProcessing, poolOps, dirtyConstructions, emptyObservedInsideListener, slotRecycleRounds, faultRuns, faultsInjected, faultsByKind[F_KINDS], secondFaults,
		opsFailedByFault, eventsDiscardedByFault, observeSteps, orderedTies, dqnScopes, waitFor0;
	uint64_t perVariant[V_COUNT];
};
extern Counters counters;

} // namespace sq

#if defined(SEQ_VARIANT)
// =====================================================================================================
namespace sq {

// comparators for the ordered variants
struct CmpDesc
{
	// user code: may throw (fault kind F_CMP; enabled for top-level enqueue operations only, see execute())
	template <typename T> bool operator() (const T & a, const T & b) const { faultPoint(F_CMP); return b.event < a.event; }
};
struct CmpField
{
	template <typename T> bool operator() (const T & a, const T & b) const { faultPoint(F_CMP); return std::get<1>(a.arguments).id % 3 < std::get<1>(b.arguments).id % 3; }
};

struct PolPlainSingle { typedef eventpp::SingleThreading Threading; };
struct PolMulti { };
struct PolOrderedAsc { typedef eventpp::SingleThreading Threading; template <typename T> using QueueList = eventpp::OrderedQueueList<T>; };
struct PolOrderedDescMulti { template <typename T> using QueueList = eventpp::OrderedQueueList<T, CmpDesc>; };
// the alias carries the comparator as a second, defaulted parameter (the shape of OrderedQueueList itself): the library only ever uses
// QueueList<Item>, and must find the policy whatever the alias's full parameter list looks like (built as C++11)
struct PolOrderedField { typedef eventpp::SingleThreading Threading; template <typename T, typename C = CmpField> using QueueList = eventpp::OrderedQueueList<T, C>; };
struct PolSim { typedef sim::SimThreading Threading; };

// ordering: 0 FIFO, 1 key ascending, 2 key descending, 3 (id % 3) ascending
template <typename Pol, typename P, typename Proto, int ORDER, bool PEEK, bool WAITFOR>
struct Box
{
	typedef eventpp::EventQueue<int, Proto, Pol> T;
	typedef typename T::Handle Handle;
	typedef typename T::QueuedEvent QueuedEvent;
	typedef typename T::DisableQueueNotify DQN;
	typedef P PayT;
	enum { order = ORDER, hasPeek = PEEK ? 1 : 0, hasWaitFor = WAITFOR ? 1 : 0 };
	static bool peek(T & q, int & id, int & val, int & a, int & key) { return peekImpl(q, id, val, a, key, (char (*)[hasPeek + 1])nullptr); }
	static bool waitFor0(T & q) { return waitImpl(q, (char (*)[hasWaitFor + 1])nullptr); }
private:
	static bool peekImpl(T & q, int & id, int & val, int & a, int & key, char (*)[2])
	{
		QueuedEvent qe;
		if(!q.peekEvent(&qe)) return false;
		id = std::get<1>(qe.arguments).id; val = std::get<1>(qe.arguments).val; a = qe.template getArgument<0>(); key = qe.getEvent();
		if(a != std::get<0>(qe.arguments) || key != qe.event) id = -7;   // the accessors of QueuedEvent must agree with its members (shows as peek-wrong-event)
		return true;
	}
	static bool peekImpl(T &, int &, int &, int &, int &, char (*)[1]) { return false; }
	static bool waitImpl(T & q, char (*)[2]) { return q.waitFor(std::chrono::milliseconds(0)); }
	static bool waitImpl(T &, char (*)[1]) { return false; }
};

struct MItem { int cb; int slot; };
struct MEv { int id, key, a; };

struct LFrame
{
	int obj, key;
	std::vector<int> snapshot, called;
	size_t pos;
};

struct ProcFrame
{
	int obj, kind;
	std::vector<MEv> T;
	std::vector<int> fate;   // 0 untouched, 1 dispatched, 2 declined (kept), 3 stopped here (processUntil)
	int cur;
	int mask;
	bool hasCounter, lfOpen;
	LFrame lf;
};

template <typename B>
struct Interp : Sink
{
	typedef typename B::T Obj;
	typedef typename B::Handle Handle;
	typedef typename B::PayT PayT;
	typedef typename B::QueuedEvent QueuedEvent;
	typedef typename B::DQN DQN;

	const Plan & plan;
	seq::Violation viol;
	seq::DirtyStorage<Obj> store[MAXOBJ];
	std::vector<MItem> listeners[MAXOBJ][MAXKEY];
	std::vector<MEv> pending[MAXOBJ];
	std::vector<DQN *> dqns[MAXOBJ];
	Handle handles[MAXSLOT];
	int slotObj[MAXSLOT], slotKey[MAXSLOT];
	bool slotUsed[MAXSLOT], slotUnusable[MAXSLOT];
	int cbScript[MAXSLOT];
	std::vector<MEv> events;            // every event ever created, by id
	std::vector<int> evState;           // 0 never enqueued, 1 pending, 2 consumed
	std::vector<ProcFrame> procs;
	int fuel;
	uint64_t logHash;
	Rng aux, fillRng;
	std::vector<long> passedPerOp;
	int curScriptSelf;

	explicit Interp(const Plan & p) : plan(p), fuel(0), logHash(kHashInit), aux(p.schedSeed() ^ 0x7654321), fillRng(p.schedSeed() ^ 0xf111), curScriptSelf(-1)
	{
		for(int i = 0; i < MAXSLOT; ++i) { slotObj[i] = -1; slotKey[i] = 0; slotUsed[i] = false; slotUnusable[i] = false; cbScript[i] = 0; }
	}

	void log(uint64_t v) { logHash = hashMix(logHash, v); }
	int objOf(const Op & op) const { const int o = (op.d >> 2) & 3; return o >= MAXOBJ ? 0 : o; }
	int keyOf(const Op & op) const { const int k = op.d & 3; return k >= MAXKEY ? 0 : k; }
	Obj & real(int o) { return *store[o].ptr(); }
	bool aliveObj(int o) const { return o >= 0 && o < MAXOBJ && store[o].alive; }
	bool procOn(int o) const { for(size_t i = 0; i < procs.size(); ++i) if(procs[i].obj == o) return true; return false; }
	int countersOn(int o) const { int n = 0; for(size_t i = 0; i < procs.size(); ++i) if(procs[i].obj == o && procs[i].hasCounter) ++n; return n; }

	int findListener(int o, int k, int cb) const
	{
		const std::vector<MItem> & l = listeners[o][k];
		for(size_t i = 0; i < l.size(); ++i) if(l[i].cb == cb) return (int)i;
		return -1;
	}
	bool slotPresentIn(int s, int o, int k) const { return s >= 0 && s < MAXSLOT && slotUsed[s] && slotObj[s] == o && slotKey[s] == k; }
	bool slotForeign(int s, int o, int k) const { return s >= 0 && s < MAXSLOT && slotUsed[s] && slotObj[s] >= 0 && !(slotObj[s] == o && slotKey[s] == k); }

	// ---- ordering of the pending list
	static bool less(const MEv & a, const MEv & b)
	{
		switch((int)B::order) {
		case 1: return a.key < b.key;
		case 2: return b.key < a.key;
		case 3: return a.id % 3 < b.id % 3;
		default: return false;
		}
	}
	void reorder(std::vector<MEv> & v)
	{
		if(B::order != 0) std::stable_sort(v.begin(), v.end(), &Interp::less);
	}

	std::string renderPending(int o) const
	{
		std::vector<int> v;
		for(size_t i = 0; i < pending[o].size(); ++i) v.push_back(pending[o][i].id);
		return seq::join(v);
	}
	std::string renderProc(const ProcFrame & pf) const
	{
		std::vector<int> v, f;
		for(size_t i = 0; i < pf.T.size(); ++i) { v.push_back(pf.T[i].id); f.push_back(pf.fate[i]); }
		return std::string("batch ") + seq::join(v) + " fates " + seq::join(f) + " current index " + std::to_string(pf.cur) + " pending " + renderPending(pf.obj);
	}

	// ---- listener frames (snapshot semantics, as for CallbackList)
	void openListenerFrame(ProcFrame & pf, int key)
	{
		pf.lf.obj = pf.obj; pf.lf.key = key; pf.lf.snapshot.clear(); pf.lf.called.clear(); pf.lf.pos = 0;
		for(size_t i = 0; i < listeners[pf.obj][key].size(); ++i) pf.lf.snapshot.push_back(listeners[pf.obj][key][i].cb);
		pf.lfOpen = true;
	}
	void closeListenerFrame(ProcFrame & pf)
	{
		if(!pf.lfOpen) return;
		pf.lfOpen = false;
		for(size_t q = pf.lf.pos; q < pf.lf.snapshot.size(); ++q) {
			if(findListener(pf.lf.obj, pf.lf.key, pf.lf.snapshot[q]) >= 0) {
				viol.raise("missed-listener", "listener " + std::to_string(pf.lf.snapshot[q]) + " of key " + std::to_string(pf.lf.key) + " was registered when the event was dispatched, still is, and was not called; " + renderProc(pf));
				return;
			}
		}
	}
	void expectListener(ProcFrame & pf, int cb)
	{
		LFrame & fr = pf.lf;
		if(std::find(fr.called.begin(), fr.called.end(), cb) != fr.called.end()) { viol.raise("listener-called-twice", "listener " + std::to_string(cb) + " called twice for one event; " + renderProc(pf)); return; }
		size_t q = fr.pos;
		while(q < fr.snapshot.size() && findListener(fr.obj, fr.key, fr.snapshot[q]) < 0) ++q;
		if(q < fr.snapshot.size() && fr.snapshot[q] == cb) { fr.pos = q + 1; fr.called.push_back(cb); return; }
		viol.raise("unexpected-listener", "listener " + std::to_string(cb) + " was called for an event of key " + std::to_string(fr.key) + " but the model expects "
			+ (q < fr.snapshot.size() ? std::to_string(fr.snapshot[q]) : std::string("no further listener")) + "; registered " + seq::join(fr.snapshot) + "; " + renderProc(pf));
	}

	// an event of the current batch is now being examined / dispatched: everything before it is settled
	bool advanceTo(ProcFrame & pf, int j, bool byPredicate)
	{
		closeListenerFrame(pf);
		if(viol.set) return false;
		for(int i = pf.cur + 1; i < j; ++i) {
			// events passed over silently
			if(pf.kind == O_PROCESS_IF || pf.kind == O_PROCESS_UNTIL) { viol.raise("event-skipped", "event " + std::to_string(pf.T[(size_t)i].id) + " was passed over without the predicate being asked; " + renderProc(pf)); return false; }
			if(!listeners[pf.obj][pf.T[(size_t)i].key].empty()) { viol.raise("event-not-dispatched", "event " + std::to_string(pf.T[(size_t)i].id) + " has listeners but none was called; " + renderProc(pf)); return false; }
			settle(pf, i, 1);
		}
		if(i_isUntilStopped(pf)) { viol.raise("processed-after-stop", "processUntil examined an event after its predicate had returned true; " + renderProc(pf)); return false; }
		pf.cur = j;
		(void)byPredicate;
		return true;
	}
	bool i_isUntilStopped(const ProcFrame & pf) const
	{
		for(size_t i = 0; i < pf.fate.size(); ++i) if(pf.fate[i] == 3) return true;
		return false;
	}
	void settle(ProcFrame & pf, int i, int fate)
	{
		pf.fate[(size_t)i] = fate;
		if(fate == 1) { evState[(size_t)pf.T[(size_t)i].id] = 2; ++counters.dispatchedEvents; }
	}

	// ---- Sink
	void onListener(int cb, int a, int evId, int val, bool alive) override
	{
		faultPoint(F_CALL);
		FaultOff off;
		++counters.listenerCalls;
		if(!alive) { viol.raise("dead-object-in-dispatch", "a destroyed listener or argument object was used in a dispatch"); return; }
		log((uint64_t)cb * 2654435761u + (uint64_t)(uint32_t)evId * 97 + (uint64_t)(uint32_t)a);
		if(procs.empty()) { viol.raise("listener-outside-processing", "listener " + std::to_string(cb) + " called while no processing call or dispatch is in progress"); return; }
		ProcFrame & pf = procs.back();
		if(evId < 0 || evId >= (int)events.size()) { viol.raise("unknown-event", "listener received an event that was never created (id " + std::to_string(evId) + ")"); return; }
		if(val != checksum(evId) || a != events[(size_t)evId].a) {
			viol.raise("argument-mismatch", "listener " + std::to_string(cb) + " received event " + std::to_string(evId) + " with arguments (" + std::to_string(a) + ", value " + std::to_string(val) + ") instead of ("
				+ std::to_string(events[(size_t)evId].a) + ", value " + std::to_string(checksum(evId)) + ")");
			return;
		}
		int j = -1;
		for(int i = std::max(pf.cur, 0); i < (int)pf.T.size(); ++i) if(pf.T[(size_t)i].id == evId) { j = i; break; }
		if(j < 0) {
			viol.raise("unexpected-event", "event " + std::to_string(evId) + " was dispatched but is not (any more) in the batch of the running call: consumed twice, out of order, or never queued; " + renderProc(pf));
			return;
		}
		if(j != pf.cur || !pf.lfOpen) {
			if(j != pf.cur) {
				if(pf.kind == O_PROCESS_IF || pf.kind == O_PROCESS_UNTIL) { viol.raise("dispatched-without-predicate", "event " + std::to_string(evId) + " was dispatched by processIf/processUntil without asking the predicate; " + renderProc(pf)); return; }
				if(!advanceTo(pf, j, false)) return;
			}
			if(pf.fate[(size_t)j] == 2 || pf.fate[(size_t)j] == 3) { viol.raise("declined-event-dispatched", "event " + std::to_string(evId) + " was declined by the predicate but dispatched; " + renderProc(pf)); return; }
			if(pf.fate[(size_t)j] == 0) settle(pf, j, 1);
			openListenerFrame(pf, pf.T[(size_t)j].key);
		}
		expectListener(pf, cb);
		if(viol.set) return;
		runScript(cb >= 0 && cb < MAXSLOT ? cbScript[cb] : 0, cb);
	}

	bool onPredicate(int mask, int script, bool hasArgs, int a, int evId, int val) override
	{
		faultPoint(F_CALL);
		FaultOff off;
		++counters.predicateCalls;
		if(procs.empty() || (procs.back().kind != O_PROCESS_IF && procs.back().kind != O_PROCESS_UNTIL)) { viol.raise("predicate-outside-processing", "predicate called outside processIf/processUntil"); return false; }
		ProcFrame & pf = procs.back();
		const int j = pf.cur + 1;
		if(j >= (int)pf.T.size()) { viol.raise("predicate-extra-call", "predicate asked about more events than the call took out; " + renderProc(pf)); return false; }
		const MEv & e = pf.T[(size_t)j];
		if(hasArgs && (evId != e.id || val != checksum(e.id) || a != e.a)) {
			viol.raise("predicate-argument-mismatch", "predicate was asked about event " + std::to_string(evId) + " (a=" + std::to_string(a) + ") but the next event in order is " + std::to_string(e.id) + "; " + renderProc(pf));
			return false;
		}
		if(!advanceTo(pf, j, true)) return false;
		const bool verdict = ((mask >> (e.id & 7)) & 1) != 0;
		log((uint64_t)e.id * 131 + (verdict ? 1 : 0));
		if(pf.kind == O_PROCESS_IF) { if(verdict) settle(pf, j, 1); else { pf.fate[(size_t)j] = 2; ++counters.declined; } }
		else { if(verdict) pf.fate[(size_t)j] = 3; else settle(pf, j, 1); }
		runScript(script, -1);
		return verdict;
	}

	void runScript(int script, int self)
	{
		if(script <= 0 || script > (int)plan.scripts.size()) return;
		const OpList & ops = plan.scripts[(size_t)script - 1];
		const size_t depth = procs.size();
		for(size_t i = 0; i < ops.size() && !viol.set; ++i) {
			if(fuel <= 0) break;
			--fuel;
			++counters.nestedOps;
			doOp(ops[i], self);
			if(procs.size() != depth) { viol.raise("harness-error", "processing depth changed across a script operation"); return; }
		}
	}

	// ---- processing calls
	void beginProc(int o, int kind, const std::vector<MEv> & batch, int mask, bool hasCounter)
	{
		ProcFrame pf; pf.obj = o; pf.kind = kind; pf.T = batch; pf.fate.assign(batch.size(), 0); pf.cur = -1; pf.mask = mask; pf.hasCounter = hasCounter; pf.lfOpen = false;
		pf.lf.obj = o; pf.lf.key = 0; pf.lf.pos = 0;
		procs.push_back(pf);
		if(procs.size() > 1) ++counters.nestedProcessing;
	}
	// the real call returned normally: settle the rest, put back what the predicate declined, compute the expected result
	bool endProc(bool & expectedResult)
	{
		ProcFrame & pf = procs.back();
		closeListenerFrame(pf);
		std::vector<MEv> kept;
		bool anyDispatched = false, stopped = false;
		for(int i = 0; i < (int)pf.T.size() && !viol.set; ++i) {
			int & f = pf.fate[(size_t)i];
			if(f == 3) stopped = true;
			if(f == 0) {
				if(stopped) f = 2;
				else if(pf.kind == O_PROCESS_IF || pf.kind == O_PROCESS_UNTIL) { viol.raise("event-not-examined", "the call returned without asking the predicate about event " + std::to_string(pf.T[(size_t)i].id) + "; " + renderProc(pf)); break; }
				else if(!listeners[pf.obj][pf.T[(size_t)i].key].empty()) { viol.raise("event-not-dispatched", "the call returned without dispatching event " + std::to_string(pf.T[(size_t)i].id) + " although its key has listeners; " + renderProc(pf)); break; }
				else settle(pf, i, 1);
			}
			if(f == 1) anyDispatched = true;
			if(f == 2 || f == 3) kept.push_back(pf.T[(size_t)i]);
		}
		if(!kept.empty() && !pending[pf.obj].empty()) ++counters.putBackWithNewer;
		// declined events go back ahead of newer ones, in their original order
		std::vector<MEv> merged = kept;
		merged.insert(merged.end(), pending[pf.obj].begin(), pending[pf.obj].end());
		reorder(merged);
		pending[pf.obj] = merged;
		expectedResult = (pf.kind == O_PROCESS || pf.kind == O_PROCESS_ONE) ? !pf.T.empty() : anyDispatched;
		procs.pop_back();
		return !viol.set;
	}
	// the real call threw: exactly the events it had taken out are gone
	void abortProcsTo(size_t depth)
	{
		while(procs.size() > depth) {
			ProcFrame & pf = procs.back();
			for(size_t i = 0; i < pf.T.size(); ++i) if(evState[(size_t)pf.T[i].id] != 2) { evState[(size_t)pf.T[i].id] = 2; ++counters.eventsDiscardedByFault; }
			procs.pop_back();
		}
	}

	bool modelEmpty(int o) const { return pending[o].empty() && countersOn(o) == 0; }

	// ---- one operation
	void doOp(const Op & op, int selfSlot)
	{
		if(viol.set) return;
		const int o = objOf(op), k = keyOf(op);
		log((uint64_t)op.k * 1000003 + (uint64_t)(uint32_t)op.a * 31 + (uint64_t)(uint32_t)op.d);
		switch(op.k) {
		case O_ENQ: {
			if(!aliveObj(o) || events.size() >= (size_t)MAXEVID) return;
			const int id = (int)events.size();
			MEv e; e.id = id; e.key = k; e.a = op.b == 2 ? k : 100 + (op.a % 50);
			events.push_back(e); evState.push_back(0);
			{
				int a = e.a; int key = k;
				if(op.b == 0 && std::is_copy_constructible<PayT>::value) {
					enqueueLvalue(o, key, a, id);
				}
				else if(op.b == 2) {
					PayT p(id, checksum(id));
					FaultArm arm;
					real(o).enqueue(a, std::move(p));
				}
				else {
					FaultArm arm;
					real(o).enqueue(key, a, PayT(id, checksum(id)));
				}
			}
			evState[(size_t)id] = 1;
			pending[o].push_back(e);
			reorder(pending[o]);
			++counters.enqueued;
			break;
		}
		case O_PROCESS: case O_PROCESS_ONE: case O_PROCESS_IF: case O_PROCESS_UNTIL: {
			if(!aliveObj(o) || procs.size() >= 4) return;
			std::vector<MEv> batch;
			if(op.k == O_PROCESS_ONE) { if(!pending[o].empty()) { batch.push_back(pending[o].front()); pending[o].erase(pending[o].begin()); } }
			else { batch = pending[o]; pending[o].clear(); }
			beginProc(o, op.k, batch, op.a, true);
			const size_t depth = procs.size();
			bool got = false;
			try {
				FaultArm arm;
				if(op.k == O_PROCESS) got = real(o).process();
				else if(op.k == O_PROCESS_ONE) got = real(o).processOne();
				else if(op.k == O_PROCESS_IF) got = (op.c & 1) ? real(o).processIf(PredNoArgs(op.a, op.b)) : (op.c & 2) ? processIfByValue(o, op, false) : real(o).processIf(Pred(op.a, op.b));
				else got = (op.c & 1) ? real(o).processUntil(PredNoArgs(op.a, op.b)) : (op.c & 2) ? processIfByValue(o, op, true) : real(o).processUntil(Pred(op.a, op.b));
			}
			catch(...) {
				abortProcsTo(depth - 1);
				throw;
			}
			bool expected = false;
			if(!endProc(expected)) return;
			log(got ? 41 : 43);
			if(got != expected) viol.raise("process-result", std::string(opName(op.k)) + " returned " + (got ? "true" : "false") + " but it " + (expected ? "dispatched" : "did not dispatch") + " an event; pending now " + renderPending(o));
			break;
		}
		case O_PEEK: {
			if(!aliveObj(o) || !B::hasPeek) return;
			int id = -1, val = 0, a = 0, key = 0;
			bool got;
			{ FaultArm arm; got = B::peek(real(o), id, val, a, key); }
			++counters.peeked;
			const bool expected = !pending[o].empty();
			if(got != expected) { viol.raise("peek-result", std::string("peekEvent returned ") + (got ? "true" : "false") + " with pending " + renderPending(o)); return; }
			if(got) {
				const MEv & f = pending[o].front();
				if(id != f.id || val != checksum(f.id) || a != f.a || key != f.key) viol.raise("peek-wrong-event", "peekEvent yielded event " + std::to_string(id) + " (key " + std::to_string(key) + ", a " + std::to_string(a)
					+ ", value " + std::to_string(val) + ") but the front event is " + std::to_string(f.id) + "; pending " + renderPending(o));
			}
			break;
		}
		case O_TAKE: {
			if(!aliveObj(o)) return;
			QueuedEvent qe;
			bool got;
			try { FaultArm arm; got = real(o).takeEvent(&qe); }
			catch(...) {
				// a throwing move out of the queue: the event is either still queued or gone, never duplicated or corrupt
				if(!pending[o].empty() && ledger().liveCount(seq::T_PAY, pending[o].front().id) == 0) {
					evState[(size_t)pending[o].front().id] = 2; ++counters.eventsDiscardedByFault;
					pending[o].erase(pending[o].begin());
				}
				throw;
			}
			const bool expected = !pending[o].empty();
			if(got != expected) { viol.raise("take-result", std::string("takeEvent returned ") + (got ? "true" : "false") + " with pending " + renderPending(o)); return; }
			if(!got) return;
			++counters.taken;
			const MEv f = pending[o].front();
			pending[o].erase(pending[o].begin());
			evState[(size_t)f.id] = 2;
			const PayT & p = std::get<1>(qe.arguments);
			if(p.id != f.id || p.val != checksum(f.id) || std::get<0>(qe.arguments) != f.a || qe.event != f.key) {
				viol.raise("take-wrong-event", "takeEvent yielded event " + std::to_string(p.id) + " (value " + std::to_string(p.val) + ") but the front event was " + std::to_string(f.id) + "; pending " + renderPending(o));
				return;
			}
			log((uint64_t)f.id + 7001);
			if((op.c & 1) && procs.size() < 4) {
				std::vector<MEv> batch(1, f);
				evState[(size_t)f.id] = 1;
				beginProc(o, O_DISPATCH, batch, 0, false);
				const size_t depth = procs.size();
				try { FaultArm arm; real(o).dispatch(qe); }
				catch(...) { abortProcsTo(depth - 1); throw; }
				bool dummy;
				endProc(dummy);
			}
			break;
		}
		case O_DISPATCH: {
			if(!aliveObj(o) || procs.size() >= 4 || events.size() >= (size_t)MAXEVID) return;
			const int id = (int)events.size();
			MEv e; e.id = id; e.key = k; e.a = 100 + (op.a % 50);
			events.push_back(e); evState.push_back(1);
			std::vector<MEv> batch(1, e);
			beginProc(o, O_DISPATCH, batch, 0, false);
			const size_t depth = procs.size();
			try { FaultArm arm; real(o).dispatch(k, e.a, PayT(id, checksum(id))); }
			catch(...) { abortProcsTo(depth - 1); throw; }
			bool dummy;
			endProc(dummy);
			break;
		}
		case O_CLEAR: {
			if(!aliveObj(o)) return;
			{ FaultArm arm; real(o).clearEvents(); }
			++counters.cleared;
			for(size_t i = 0; i < pending[o].size(); ++i) {
				const int id = pending[o][i].id;
				evState[(size_t)id] = 2; ++counters.clearedEvents;
				if(ledger().liveCount(seq::T_PAY, id) != 0) { viol.raise("cleared-argument-still-alive", "clearEvents returned but the arguments of cleared event " + std::to_string(id) + " are still alive"); return; }
			}
			pending[o].clear();
			break;
		}
		case O_EMPTYQ: {
			if(!aliveObj(o)) return;
			bool got;
			{ FaultArm arm; got = real(o).emptyQueue(); }
			log(got ? 47 : 53);
			if(!procs.empty() && countersOn(o) > 0) ++counters.emptyObservedInsideListener;
			if(got != modelEmpty(o)) viol.raise("emptyQueue-result", std::string("emptyQueue() returned ") + (got ? "true" : "false") + " with pending " + renderPending(o) + " and " + std::to_string(countersOn(o)) + " processing call(s) in progress on that queue");
			break;
		}
		case O_WAITFOR0: {
			if(!aliveObj(o) || !B::hasWaitFor) return;
			bool got;
			{ FaultArm arm; got = B::waitFor0(real(o)); }
			++counters.waitFor0;
			const bool expected = !modelEmpty(o) && dqns[o].empty();
			log(got ? 59 : 61);
			if(got != expected) viol.raise("waitFor-result", std::string("waitFor(0) returned ") + (got ? "true" : "false") + " with pending " + renderPending(o) + ", " + std::to_string(dqns[o].size()) + " DisableQueueNotify alive, "
				+ std::to_string(countersOn(o)) + " processing call(s) in progress");
			break;
		}
		case O_DQN_OPEN: {
			if(!aliveObj(o) || dqns[o].size() >= 3) return;
			dqns[o].push_back(new DQN(&real(o)));
			++counters.dqnScopes;
			break;
		}
		case O_DQN_CLOSE: {
			if(!aliveObj(o) || dqns[o].empty()) return;
			delete dqns[o].back();
			dqns[o].pop_back();
			break;
		}
		case O_APPEND_L: case O_PREPEND_L: case O_INSERT_L: {
			if(!aliveObj(o)) return;
			const int cb = op.a;
			if(cb < 0 || cb >= MAXSLOT - 4 || slotUsed[cb]) return;
			int before = op.k == O_INSERT_L ? (op.b == SELF ? selfSlot : op.b) : -2;
			if(op.k == O_INSERT_L) {
				if(before < 0 || before >= MAXSLOT) before = MAXSLOT - 1;
				if(slotUnusable[before] || slotForeign(before, o, k)) return;
			}
			QFn f(cb);
			Handle h;
			{
				FaultArm arm;
				if(op.k == O_APPEND_L) h = real(o).appendListener(k, f);
				else if(op.k == O_PREPEND_L) h = real(o).prependListener(k, f);
				else h = real(o).insertListener(k, f, handles[before]);
			}
			slotUsed[cb] = true; slotObj[cb] = o; slotKey[cb] = k; handles[cb] = h; cbScript[cb] = op.c;
			MItem it; it.cb = cb; it.slot = cb;
			std::vector<MItem> & l = listeners[o][k];
			if(op.k == O_PREPEND_L) l.insert(l.begin(), it);
			else if(op.k == O_INSERT_L && slotPresentIn(before, o, k)) l.insert(l.begin() + findListener(o, k, before), it);
			else l.push_back(it);
			break;
		}
		case O_REMOVE_L: {
			if(!aliveObj(o)) return;
			int slot = op.b == SELF ? selfSlot : op.b;
			if(slot < 0 || slot >= MAXSLOT) slot = MAXSLOT - 1;
			if(slotUnusable[slot] || slotForeign(slot, o, k)) return;
			const bool expected = slotPresentIn(slot, o, k);
			bool got;
			{ FaultArm arm; got = real(o).removeListener(k, handles[slot]); }
			if(expected) { listeners[o][k].erase(listeners[o][k].begin() + findListener(o, k, slot)); slotObj[slot] = -1; }
			if(got != expected) viol.raise("removeListener-result", "removeListener for listener " + std::to_string(slot) + " returned " + (got ? "true" : "false"));
			break;
		}
		case O_HAS_ANY: {
			if(!aliveObj(o)) return;
			bool got;
			{ FaultArm arm; got = real(o).hasAnyListener(k); }
			if(got != !listeners[o][k].empty()) viol.raise("hasAnyListener-result", "hasAnyListener disagrees with the model");
			break;
		}
		case O_CREATE: {
			if(aliveObj(o)) return;
			construct(o, -1, false);
			break;
		}
		case O_COPY_CONSTRUCT: case O_MOVE_CONSTRUCT: {
			const int src = op.a % MAXOBJ;
			if(aliveObj(o) || !aliveObj(src) || procOn(src)) return;   // copying / moving from a queue whose notification is disabled is legal
			++counters.poolOps;
			construct(o, src, op.k == O_MOVE_CONSTRUCT);
			break;
		}
		case O_COPY_ASSIGN: case O_MOVE_ASSIGN: {
			const int src = op.a % MAXOBJ;
			if(!aliveObj(o) || !aliveObj(src) || procOn(src) || procOn(o)) return;
			if(op.k == O_MOVE_ASSIGN && src == o) return;
			++counters.poolOps;
			if(op.k == O_COPY_ASSIGN) {
				try { FaultArm arm; real(o) = real(src); }
				catch(...) { adoptAfterFailedAssign(o); throw; }
				if(src != o) {
					killSlotsOf(o);
					for(int key = 0; key < MAXKEY; ++key) { listeners[o][key] = listeners[src][key]; for(size_t i = 0; i < listeners[o][key].size(); ++i) listeners[o][key][i].slot = -1; }
				}
			}
			else {
				{ FaultArm arm; real(o) = std::move(real(src)); }
				killSlotsOf(o);
				for(int s = 0; s < MAXSLOT; ++s) if(slotUsed[s] && slotObj[s] == src) slotObj[s] = o;
				for(int key = 0; key < MAXKEY; ++key) { listeners[o][key] = listeners[src][key]; listeners[src][key].clear(); }
			}
			break;
		}
		case O_SWAP: {
			const int other = op.a % MAXOBJ;
			if(!aliveObj(o) || !aliveObj(other) || procOn(other) || procOn(o)) return;
			++counters.poolOps;
			{ FaultArm arm; real(o).swap(real(other)); }
			if(other != o) {
				for(int s = 0; s < MAXSLOT; ++s) if(slotUsed[s]) { if(slotObj[s] == o) slotObj[s] = other; else if(slotObj[s] == other) slotObj[s] = o; }
				for(int key = 0; key < MAXKEY; ++key) listeners[o][key].swap(listeners[other][key]);
			}
			break;
		}
		case O_DESTROY: {
			if(!aliveObj(o) || procOn(o) || !dqns[o].empty()) return;
			int aliveCount = 0;
			for(int i = 0; i < MAXOBJ; ++i) if(store[i].alive) ++aliveCount;
			if(aliveCount <= 1) return;
			++counters.poolOps;
			destroy(o);
			break;
		}
		default: break;
		}
	}

	template <typename Q = PayT>
	typename std::enable_if<std::is_copy_constructible<Q>::value, bool>::type processIfByValue(int o, const Op & op, bool until)
	{
		return until ? real(o).processUntil(PredByValue(op.a, op.b)) : real(o).processIf(PredByValue(op.a, op.b));
	}
	template <typename Q = PayT>
	typename std::enable_if<!std::is_copy_constructible<Q>::value, bool>::type processIfByValue(int o, const Op & op, bool until)
	{
		return until ? real(o).processUntil(Pred(op.a, op.b)) : real(o).processIf(Pred(op.a, op.b));
	}

	template <typename Q = PayT>
	typename std::enable_if<std::is_copy_constructible<Q>::value>::type enqueueLvalue(int o, int key, int a, int id)
	{
		Q p(id, checksum(id));
		{
			FaultArm arm;
			real(o).enqueue(key, a, p);
		}
		// the queue must hold the values of enqueue time
		a = -12345; key = -1; p.val = -999;
		(void)a; (void)key;
	}
	template <typename Q = PayT>
	typename std::enable_if<!std::is_copy_constructible<Q>::value>::type enqueueLvalue(int o, int key, int a, int id)
	{
		FaultArm arm;
		real(o).enqueue(key, a, Q(id, checksum(id)));
	}

	void killSlotsOf(int o) { for(int s = 0; s < MAXSLOT; ++s) if(slotUsed[s] && slotObj[s] == o) slotObj[s] = -1; }

	void construct(int o, int src, bool move)
	{
		store[o].fill(plan.user(U_FILL) == 4 ? (int)fillRng.below(4) : plan.user(U_FILL), fillRng);   // its own stream: the fill pattern must not influence any other choice
		++counters.dirtyConstructions;
		{
			FaultArm arm;
			if(src < 0) new (store[o].ptr()) Obj();
			else if(move) new (store[o].ptr()) Obj(std::move(real(src)));
			else new (store[o].ptr()) Obj(real(src));
		}
		store[o].alive = true;
		pending[o].clear();
		for(int key = 0; key < MAXKEY; ++key) listeners[o][key].clear();
		if(src >= 0) {
			for(int key = 0; key < MAXKEY; ++key) {
				listeners[o][key] = listeners[src][key];
				if(move) listeners[src][key].clear();
				else for(size_t i = 0; i < listeners[o][key].size(); ++i) listeners[o][key][i].slot = -1;
			}
			if(move) for(int s = 0; s < MAXSLOT; ++s) if(slotUsed[s] && slotObj[s] == src) slotObj[s] = o;
		}
	}

	void destroy(int o)
	{
		while(!dqns[o].empty()) { delete dqns[o].back(); dqns[o].pop_back(); }
		real(o).~Obj();
		store[o].alive = false;
		killSlotsOf(o);
		for(size_t i = 0; i < pending[o].size(); ++i) evState[(size_t)pending[o][i].id] = 2;
		pending[o].clear();
		for(int key = 0; key < MAXKEY; ++key) listeners[o][key].clear();
	}

	void adoptAfterFailedAssign(int o)
	{
		FaultOff off;
		for(int s = 0; s < MAXSLOT; ++s) if(slotUsed[s] && slotObj[s] == o) { slotUnusable[s] = true; slotObj[s] = -1; }
		for(int key = 0; key < MAXKEY; ++key) {
			std::vector<MItem> & l = listeners[o][key];
			l.clear();
			real(o).forEach(key, [&l](const typename Obj::Callback & cb) { const QFn * f = cb.template target<QFn>(); MItem it; it.cb = f ? f->id : -99; it.slot = -1; l.push_back(it); });
		}
	}

	// ---- observation at quiescent points
	void observe(const char * when)
	{
		if(viol.set) return;
		++counters.observeSteps;
		for(int o = 0; o < MAXOBJ && !viol.set; ++o) {
			if(!store[o].alive) continue;
			for(int key = 0; key < MAXKEY && !viol.set; ++key) {
				std::vector<int> seen, want;
				real(o).forEach(key, [&seen](const typename Obj::Callback & cb) { const QFn * f = cb.template target<QFn>(); seen.push_back(f ? f->id : -99); });
				for(size_t i = 0; i < listeners[o][key].size(); ++i) want.push_back(listeners[o][key][i].cb);
				if(seen != want) viol.raise("listener-mismatch", std::string(when) + ": queue" + std::to_string(o) + "/key" + std::to_string(key) + " has listeners " + seq::join(seen) + " but should have " + seq::join(want));
			}
			if(viol.set) break;
			const bool e = real(o).emptyQueue();
			if(e != pending[o].empty()) { viol.raise("emptyQueue-result", std::string(when) + ": emptyQueue() is " + (e ? "true" : "false") + " with pending " + renderPending(o) + " and no call in progress"); break; }
			if(B::hasPeek && !pending[o].empty()) {
				int id = -1, val = 0, a = 0, key = 0;
				if(!B::peek(real(o), id, val, a, key) || id != pending[o].front().id) { viol.raise("front-mismatch", std::string(when) + ": the front event is " + std::to_string(id) + " but should be " + std::to_string(pending[o].front().id) + "; pending " + renderPending(o)); break; }
			}
			for(size_t i = 0; i < pending[o].size(); ++i) {
				log((uint64_t)pending[o][i].id + 3001);
				if(ledger().liveCount(seq::T_PAY, pending[o][i].id) < 1) { viol.raise("pending-argument-destroyed", std::string(when) + ": the arguments of pending event " + std::to_string(pending[o][i].id) + " have no live instance"); break; }
			}
		}
		if(ledger().hasError()) viol.raise(ledger().errorClass, ledger().error);
	}

	// ---- top-level driver
	void execute(const std::vector<int> & faults)
	{
		FaultCtl & fc = faultCtl();
		fc.countdown = 0; fc.passed = 0; fc.lastFired = -1;
		ledger().reset();
		for(int o = 0; o < MAXOBJ; ++o) store[o].alive = false;
		const int nObj = std::max(1, std::min((int)MAXOBJ, plan.user(U_OBJECTS)));
		for(int o = 0; o < nObj; ++o) construct(o, -1, false);
		const OpList none;
		const OpList & ops = plan.tasks.empty() ? none : plan.tasks[0];
		passedPerOp.assign(ops.size(), 0);
		for(size_t i = 0; i < ops.size() && !viol.set; ++i) {
			long arm = 0;
			for(size_t f = 0; f + 1 < faults.size(); f += 2) if(faults[f] == (int)i) arm = faults[f + 1];
			fc.countdown = arm; fc.lastFired = -1;
			// a throwing comparator is injected into enqueue only (which must then leave the queue unchanged); inside a processing call
			// the put-back sorts after the events are linked again, which the "discards only what it had taken out" clause does not rule on
			fc.mask = ops[i].k == O_ENQ ? 0x1fu : (0x1fu & ~(1u << F_CMP));
			const long before = fc.passed;
			fuel = std::max(0, plan.user(U_FUEL));
			bool threw = false;
			const size_t depth = procs.size();
			try {
				++counters.topOps;
				doOp(ops[i], -1);
			}
			catch(const InjectedFault &) { threw = true; }
			catch(const std::bad_alloc &) { threw = true; }
			abortProcsTo(depth);
			passedPerOp[i] = fc.passed - before;
			const bool fired = fc.lastFired >= 0;
			fc.countdown = 0;
			if(threw && !fired) viol.raise("unexpected-exception", "operation " + std::to_string(i) + " threw although no fault was injected");
			if(fired && !threw) viol.raise("fault-swallowed", "a fault (kind " + std::to_string(fc.lastFired) + ") was injected into operation " + std::to_string(i) + " (" + opName(ops[i].k) + ") but the call returned normally");
			if(fired) { ++counters.opsFailedByFault; log(0xfa17); }
			observe(threw ? "after a failed operation" : "after an operation");
		}
		if(viol.set) return;
		// drain the queues through the listeners, then destroy everything: nothing may stay alive
		for(int o = 0; o < MAXOBJ && !viol.set; ++o) {
			if(!store[o].alive) continue;
			while(!dqns[o].empty()) { delete dqns[o].back(); dqns[o].pop_back(); }
			if((plan.schedSeed() + (uint64_t)o) % 2 == 0) continue; // some queues are destroyed with events still pending
			fuel = 0;
			doOp(Op(O_PROCESS, 0, 0, 0, o * 4), -1);
			observe("after the final drain");
		}
		if(viol.set) return;
		for(int o = 0; o < MAXOBJ; ++o) if(store[o].alive) destroy(o);
		for(int s = 0; s < MAXSLOT; ++s) handles[s] = Handle();
		if(ledger().hasError()) viol.raise(ledger().errorClass, ledger().error);
		else if(ledger().liveTotal() != 0) {
			viol.raise("leak", "after destroying every queue " + std::to_string(ledger().liveTotal()) + " tracked object(s) are still alive (listener id " + std::to_string(ledger().anyLiveId(seq::T_FN))
				+ ", argument of event " + std::to_string(ledger().anyLiveId(seq::T_PAY)) + ")");
		}
	}

	static const char * opName(int k)
	{
		static const char * n[] = { "?", "enqueue", "process", "processOne", "processIf", "processUntil", "peekEvent", "takeEvent", "clearEvents", "emptyQueue", "waitFor0",
			"appendListener", "prependListener", "insertListener", "removeListener", "dispatch", "dqnOpen", "dqnClose", "copyConstruct", "copyAssign", "moveConstruct", "moveAssign",
			"swap", "destroy", "create", "hasAnyListener" };
		return k >= 1 && k < O_KINDS ? n[k] : "?";
	}
};

template <typename B>
void runBox(const Plan & plan, RunOut & out, bool inSim)
{
	const bool faultMode = engine::mode == "c09";
	struct One
	{
		static void run(const Plan & plan, const std::vector<int> & faults, bool inSim, RunOut & out, std::vector<long> * passed, uint64_t * logHash)
		{
			Interp<B> * in = new Interp<B>(plan);
			g_sink = in;
			if(inSim) {
				std::string fc, fd;
				Interp<B> * ip = in;
				const std::vector<int> * fp = &faults;
				if(!seq::runInOneTask([ip, fp]() { ip->execute(*fp); }, fc, fd)) { out.fail(fc, fd); g_sink = nullptr; return; }
			}
			else in->execute(faults);
			if(in->viol.set) out.fail(in->viol.cls, in->viol.detail);
			if(passed) *passed = in->passedPerOp;
			if(logHash) *logHash = in->logHash;
			g_sink = nullptr;
			if(!out.violation) delete in;
		}
	};
	std::vector<long> passed;
	uint64_t lh = 0;
	long subRuns = 1;
	One::run(plan, plan.faults, inSim, out, &passed, &lh);
	out.logHash = lh;
	if(faultMode && plan.faults.empty() && !out.violation) {
		Rng frng(plan.schedSeed() ^ 0xfa172);
		for(size_t i = 0; i < passed.size() && !out.violation; ++i) {
			for(long k = 1; k <= passed[i] && !out.violation; ++k) {
				std::vector<int> f;
				f.push_back((int)i); f.push_back((int)k);
				if(frng.chance(1, 6) && i + 1 < passed.size()) {
					const size_t j = i + 1 + frng.below((uint32_t)(passed.size() - i - 1));
					if(passed[j] > 0) { f.push_back((int)j); f.push_back(1 + (int)frng.below((uint32_t)passed[j])); ++counters.secondFaults; }
				}
				RunOut sub;
				One::run(plan, f, inSim, sub, nullptr, nullptr);
				++subRuns; ++counters.faultRuns;
				if(sub.violation) { out.fail(sub.cls, sub.detail); out.faults = f; }
			}
		}
	}
	for(int kd = 0; kd < F_KINDS; ++kd) { counters.faultsByKind[kd] += (uint64_t)faultCtl().firedKind[kd]; counters.faultsInjected += (uint64_t)faultCtl().firedKind[kd]; faultCtl().firedKind[kd] = 0; }
	out.subRuns = subRuns;
	out.steps = (long)(plan.tasks.empty() ? 0 : plan.tasks[0].size());
	uint64_t ch = kHashInit;
	if(!plan.tasks.empty()) for(size_t i = 0; i < plan.tasks[0].size(); ++i) { const Op & op = plan.tasks[0][i]; ch = hashMix(ch, (uint64_t)op.k * 131 + (uint64_t)(uint32_t)op.a * 31 + (uint64_t)(uint32_t)op.b * 17 + (uint64_t)(uint32_t)op.c * 7 + (uint64_t)(uint32_t)op.d); }
	for(size_t s = 0; s < plan.scripts.size(); ++s) for(size_t i = 0; i < plan.scripts[s].size(); ++i) ch = hashMix(ch, (uint64_t)plan.scripts[s][i].k * 977 + (uint64_t)(uint32_t)plan.scripts[s][i].a);
	out.caseHash = hashMix(ch, (uint64_t)plan.user(U_VARIANT));
}

#if SEQ_VARIANT == 0
void runVariant0(const Plan & p, RunOut & o) { runBox<Box<PolPlainSingle, Pay, void (int, const Pay &), 0, true, false> >(p, o, false); }
#elif SEQ_VARIANT == 1
void runVariant1(const Plan & p, RunOut & o) { runBox<Box<PolMulti, Pay, void (int, Pay), 0, true, true> >(p, o, false); }
#elif SEQ_VARIANT == 2
void runVariant2(const Plan & p, RunOut & o) { runBox<Box<PolPlainSingle, MoveOnly, void (int, const MoveOnly &), 0, false, false> >(p, o, false); }
#elif SEQ_VARIANT == 3
void runVariant3(const Plan & p, RunOut & o) { runBox<Box<PolOrderedAsc, Pay, void (int, const Pay &), 1, true, false> >(p, o, false); }
#elif SEQ_VARIANT == 4
void runVariant4(const Plan & p, RunOut & o) { runBox<Box<PolOrderedDescMulti, Pay, void (int, const Pay &), 2, true, true> >(p, o, false); }
#elif SEQ_VARIANT == 5
void runVariant5(const Plan & p, RunOut & o) { runBox<Box<PolOrderedField, Pay, void (int, Pay), 3, true, false> >(p, o, false); }
#elif SEQ_VARIANT == 6
void runVariant6(const Plan & p, RunOut & o) { runBox<Box<PolSim, Pay, void (int, const Pay &), 0, true, true> >(p, o, true); }
#endif

} // namespace sq
#endif // SEQ_VARIANT

#if defined(SEQ_MAIN)
// =====================================================================================================
namespace sq {

Sink * g_sink = nullptr;
Counters counters;

void runVariant0(const Plan &, RunOut &); void runVariant1(const Plan &, RunOut &); void runVariant2(const Plan &, RunOut &);
void runVariant3(const Plan &, RunOut &); void runVariant4(const Plan &, RunOut &); void runVariant5(const Plan &, RunOut &);
void runVariant6(const Plan &, RunOut &);

struct Gen
{
	Rng & rng;
	Plan & plan;
	const std::string & mode;
	int nextCb, nextEv, nObj, nKeys;
	bool hasPeek, hasWaitFor, scripts, pool;
	std::vector<int> known;

	Gen(Rng & r, Plan & p, const std::string & m) : rng(r), plan(p), mode(m), nextCb(0), nextEv(0), nObj(1), nKeys(2), hasPeek(true), hasWaitFor(false), scripts(false), pool(false) {}
	int dOf(int o, int k) { return o * 4 + k; }
	int pickObj() { return (int)rng.below((uint32_t)nObj); }
	int pickKey() { return (int)rng.below((uint32_t)nKeys); }
	int pickSlot()
	{
		if(known.empty() || rng.chance(1, 12)) return MAXSLOT - 1 - (int)rng.below(3);
		return known[rng.below((uint32_t)known.size())];
	}

	Op queueOp(int o, int depth)
	{
		const uint32_t r = rng.below(100);
		const int k = pickKey();
		if(r < 34) return Op(O_ENQ, nextEv++, (int)rng.below(3), 0, dOf(o, k));
		if(r < 46) return Op(O_PROCESS, 0, 0, 0, dOf(o, 0));
		if(r < 56) return Op(O_PROCESS_ONE, 0, 0, 0, dOf(o, 0));
		if(r < 66) { const int mask = (int)rng.below(256); const int sc = (scripts && depth < 2 && rng.chance(1, 4)) ? makeScript(o, depth + 1) : 0; const uint32_t pk = rng.below(6); return Op(O_PROCESS_IF, mask, sc, pk == 0 ? 1 : pk <= 2 ? 2 : 0, dOf(o, 0)); }
		if(r < 73) { const int mask = (int)rng.below(256); const int sc = (scripts && depth < 2 && rng.chance(1, 5)) ? makeScript(o, depth + 1) : 0; const uint32_t pk = rng.below(6); return Op(O_PROCESS_UNTIL, mask, sc, pk == 0 ? 1 : pk <= 2 ? 2 : 0, dOf(o, 0)); }
		if(r < 78) return Op(O_PEEK, 0, 0, 0, dOf(o, 0));
		if(r < 85) return Op(O_TAKE, 0, 0, (int)rng.below(2), dOf(o, 0));
		if(r < 89) return Op(O_CLEAR, 0, 0, 0, dOf(o, 0));
		if(r < 95) return Op(O_EMPTYQ, 0, 0, 0, dOf(o, 0));
		if(r < 97 || mode == "c20") return Op(O_DISPATCH, (int)rng.below(50), 0, 0, dOf(o, k));
		return Op(O_WAITFOR0, 0, 0, 0, dOf(o, 0));
	}

	Op listenerOp(int o, int depth, bool inScript)
	{
		const uint32_t r = rng.below(100);
		const int k = pickKey();
		if(r < 60 && nextCb < MAXSLOT - 6) {
			Op op(r < 35 ? O_APPEND_L : r < 48 ? O_PREPEND_L : O_INSERT_L, nextCb++, pickSlot(), 0, dOf(o, k));
			if(scripts && depth < 2 && rng.chance(2, 5)) op.c = makeScript(o, depth + 1);
			known.push_back(op.a);
			return op;
		}
		if(r < 92) return Op(O_REMOVE_L, 0, (inScript && rng.chance(1, 2)) ? (int)SELF : pickSlot(), 0, dOf(o, k));
		return Op(O_HAS_ANY, 0, 0, 0, dOf(o, k));
	}

	int makeScript(int o, int depth)
	{
		if(plan.scripts.size() >= 10) return 0;
		const size_t idx = plan.scripts.size();
		plan.scripts.push_back(OpList());
		OpList ops;
		const int n = 1 + (int)rng.below(3);
		for(int i = 0; i < n; ++i) ops.push_back(rng.chance(3, 4) ? queueOp(o, depth) : listenerOp(o, depth, true));
		plan.scripts[idx] = ops;
		return (int)idx + 1;
	}

	void run()
	{
		scripts = mode == "c05" || mode == "c13" || mode == "c11" || mode == "c08" || mode == "c09";
		pool = mode == "c10" || mode == "c08" || mode == "c09" || mode == "c20";
		int variant;
		if(mode == "c13") { static const int v[] = { V_ORDERED_ASC, V_ORDERED_DESC_MULTI, V_ORDERED_FIELD }; variant = v[rng.below(3)]; }
		else if(mode == "c05") { static const int v[] = { V_PLAIN_SINGLE, V_BYVALUE_MULTI, V_MOVEONLY, V_PLAIN_SIM }; variant = v[rng.below(4)]; }
		else if(mode == "c11") { static const int v[] = { V_PLAIN_SINGLE, V_BYVALUE_MULTI, V_PLAIN_SIM, V_ORDERED_ASC }; variant = v[rng.below(4)]; }
		else if(mode == "c20") variant = V_BYVALUE_MULTI;
		else variant = (int)rng.below(V_COUNT);
		plan.user(U_VARIANT) = variant;
		nKeys = variant >= V_ORDERED_ASC && variant <= V_ORDERED_FIELD ? 3 : 2;
		nObj = pool ? 2 + (int)rng.below(2) : 1;
		if(nObj > MAXOBJ) nObj = MAXOBJ;
		plan.user(U_OBJECTS) = pool ? 1 + (int)rng.below((uint32_t)nObj) : 1;
		plan.user(U_FUEL) = scripts ? 4 + (int)rng.below(16) : 0;
		plan.user(U_FILL) = 4;
		plan.tasks.assign(1, OpList());
		OpList & ops = plan.tasks[0];
		const int len = mode == "c09" ? 4 + (int)rng.below(9) : 10 + (int)rng.below(31);
		// a few listeners first, so that most dispatches reach someone
		const int initial = 1 + (int)rng.below(3);
		for(int i = 0; i < initial; ++i) { Op op(O_APPEND_L, nextCb++, 0, 0, dOf(0, pickKey())); if(scripts && rng.chance(1, 2)) op.c = makeScript(0, 1); known.push_back(op.a); ops.push_back(op); }
		for(int i = 0; i < len; ++i) {
			const int o = pickObj();
			const uint32_t r = rng.below(100);
			if(r < 70) ops.push_back(queueOp(o, 0));
			else if(!pool && r >= 95 && (mode == "c05" || mode == "c13")) ops.push_back(Op(r < 98 ? O_DQN_OPEN : O_DQN_CLOSE, 0, 0, 0, dOf(o, 0)));   // processing must work under a live DisableQueueNotify
			else if(r < 86 || !pool) ops.push_back(listenerOp(o, 0, false));
			else {
				const uint32_t q = rng.below(100);
				const int other = pickObj();
				Op op;
				if(q < 18) op = Op(O_COPY_CONSTRUCT, other, 0, 0, dOf(o, 0));
				else if(q < 34) op = Op(O_COPY_ASSIGN, other, 0, 0, dOf(o, 0));
				else if(q < 48) op = Op(O_MOVE_CONSTRUCT, other, 0, 0, dOf(o, 0));
				else if(q < 60) op = Op(O_MOVE_ASSIGN, other, 0, 0, dOf(o, 0));
				else if(q < 72) op = Op(O_SWAP, other, 0, 0, dOf(o, 0));
				else if(q < 80) op = Op(O_DESTROY, 0, 0, 0, dOf(o, 0));
				else if(q < 86 || mode == "c20") op = Op(O_CREATE, 0, 0, 0, dOf(o, 0));
				else if(q < 94) op = Op(O_DQN_OPEN, 0, 0, 0, dOf(o, 0));
				else op = Op(O_DQN_CLOSE, 0, 0, 0, dOf(o, 0));
				ops.push_back(op);
			}
		}
	}
};

} // namespace sq

namespace engine {

const char * const kName = "seq_queue";
std::string mode = "c05";

bool wantsPilot(const Plan &) { return false; }

void generate(uint64_t seed, Plan & plan)
{
	Rng rng(seed);
	plan.setSchedSeed(rng.next());
	sq::Gen g(rng, plan, mode);
	g.run();
}

void execute(const Plan & plan, RunOut & out)
{
	seq::installHooks();
	const int v = plan.user(sq::U_VARIANT);
	if(mode == "c20") {
		// the same plan under three Threading / prototype variants and three storage fill patterns: one event log
		static const int vs[] = { sq::V_PLAIN_SINGLE, sq::V_BYVALUE_MULTI, sq::V_PLAIN_SIM };
		uint64_t ref = 0; bool have = false; long sub = 0;
		for(int vi = 0; vi < 3 && !out.violation; ++vi) {
			for(int fill = 0; fill < 3 && !out.violation; ++fill) {
				Plan p2 = plan;
				p2.user(sq::U_VARIANT) = vs[vi]; p2.user(sq::U_FILL) = fill;
				RunOut o2;
				if(vs[vi] == sq::V_PLAIN_SINGLE) sq::runVariant0(p2, o2); else if(vs[vi] == sq::V_BYVALUE_MULTI) sq::runVariant1(p2, o2); else sq::runVariant6(p2, o2);
				++sub;
				if(o2.violation) out.fail(o2.cls, "[variant " + std::to_string(vs[vi]) + ", fill pattern " + std::to_string(fill) + "] " + o2.detail);
				else if(!have) { ref = o2.logHash; have = true; }
				else if(o2.logHash != ref) out.fail("configuration-dependent-behaviour", "variant " + std::to_string(vs[vi]) + " with fill pattern " + std::to_string(fill) + " produced a different event log than the first configuration for the same plan");
				out.caseHash = o2.caseHash;
			}
		}
		out.logHash = ref; out.subRuns = sub;
		out.steps = (long)(plan.tasks.empty() ? 0 : plan.tasks[0].size());
		++sq::counters.plans;
		out.nontrivial = true;
		return;
	}
	switch(v) {
	case 0: sq::runVariant0(plan, out); break; case 1: sq::runVariant1(plan, out); break; case 2: sq::runVariant2(plan, out); break;
	case 3: sq::runVariant3(plan, out); break; case 4: sq::runVariant4(plan, out); break; case 5: sq::runVariant5(plan, out); break;
	default: sq::runVariant6(plan, out); break;
	}
	++sq::counters.plans;
	if(v >= 0 && v < sq::V_COUNT) ++sq::counters.perVariant[v];
	bool focus = false;
	if(!plan.tasks.empty()) {
		for(size_t i = 0; i < plan.tasks[0].size(); ++i) {
			const int k = plan.tasks[0][i].k;
			if(mode == "c10") { if(k >= sq::O_COPY_CONSTRUCT && k <= sq::O_SWAP) focus = true; }
			else if(k >= sq::O_PROCESS && k <= sq::O_PROCESS_UNTIL) focus = true;
		}
	}
	out.nontrivial = focus;
}

static const char * kNames[] = { "?", "enqueue", "process", "processOne", "processIf", "processUntil", "peekEvent", "takeEvent", "clearEvents", "emptyQueue", "waitFor0",
	"appendListener", "prependListener", "insertListener", "removeListener", "dispatch", "dqnOpen", "dqnClose", "copyConstruct", "copyAssign", "moveConstruct", "moveAssign",
	"swap", "destroy", "create", "hasAnyListener" };

static void describeOp(const Op & op, std::ostringstream & o)
{
	using namespace sq;
	o << (op.k >= 1 && op.k < O_KINDS ? kNames[op.k] : "?");
	const int obj = (op.d >> 2) & 3, key = op.d & 3;
	if(op.k == O_ENQ) o << "(form" << op.b << ",key" << key << ")";
	else if(op.k == O_PROCESS_IF || op.k == O_PROCESS_UNTIL) { o << "(mask" << op.a; if(op.b) o << ",script" << op.b - 1; if(op.c & 1) o << ",noargs"; else if(op.c & 2) o << ",by-value predicate"; o << ")"; }
	else if(op.k == O_TAKE && op.c) o << "(+dispatch)";
	else if(op.k >= O_APPEND_L && op.k <= O_INSERT_L) { o << "(cb" << op.a << ",key" << key; if(op.k == O_INSERT_L) o << ",before h" << op.b; if(op.c) o << ",script" << op.c - 1; o << ")"; }
	else if(op.k == O_REMOVE_L) { if(op.b == SELF) o << "(self)"; else o << "(h" << op.b << ")"; }
	else if(op.k >= O_COPY_CONSTRUCT && op.k <= O_SWAP) o << "(q" << op.a % 3 << ")";
	if(obj) o << "@q" << obj;
}

std::string describe(const Plan & plan)
{
	static const char * vn[] = { "EventQueue<void(int,const Pay&)>/Single", "EventQueue<void(int,Pay)>/Multi", "EventQueue<move-only>/Single", "OrderedQueueList asc/Single",
		"OrderedQueueList desc/Multi", "OrderedQueueList by-field/Single", "EventQueue/SimMutex-one-task" };
	std::ostringstream o;
	const int v = plan.user(sq::U_VARIANT);
	o << (v >= 0 && v < sq::V_COUNT ? vn[v] : "?") << " objs=" << plan.user(sq::U_OBJECTS) << " fuel=" << plan.user(sq::U_FUEL) << " :";
	if(!plan.tasks.empty()) for(size_t i = 0; i < plan.tasks[0].size(); ++i) { o << " "; describeOp(plan.tasks[0][i], o); }
	for(size_t s = 0; s < plan.scripts.size(); ++s) {
		o << " | script" << s << ":";
		for(size_t i = 0; i < plan.scripts[s].size(); ++i) { o << " "; describeOp(plan.scripts[s][i], o); }
	}
	if(!plan.faults.empty()) o << " | faults " << seq::join(plan.faults);
	return o.str();
}

void statsJson(std::string & out)
{
	const sq::Counters & c = sq::counters;
	std::ostringstream o;
	o << ",\"probes\":{\"top_level_ops\":" << c.topOps << ",\"ops_from_listeners_and_predicates\":" << c.nestedOps << ",\"events_enqueued\":" << c.enqueued << ",\"events_dispatched\":" << c.dispatchedEvents
	  << ",\"listener_calls\":" << c.listenerCalls << ",\"predicate_calls\":" << c.predicateCalls << ",\"events_declined\":" << c.declined << ",\"put_back_with_newer_events_present\":" << c.putBackWithNewer
	  << ",\"taken\":" << c.taken << ",\"peeked\":" << c.peeked << ",\"clear_calls\":" << c.cleared << ",\"events_cleared\":" << c.clearedEvents << ",\"nested_processing_calls\":" << c.nestedProcessing
	  << ",\"copy_move_swap_destroy_ops\":" << c.poolOps << ",\"constructions_in_dirty_storage\":" << c.dirtyConstructions << ",\"emptyQueue_observed_inside_listener\":" << c.emptyObservedInsideListener
	  << ",\"dqn_scopes\":" << c.dqnScopes << ",\"waitFor0_calls\":" << c.waitFor0 << ",\"observation_steps\":" << c.observeSteps << "}"
	  << ",\"faults\":{\"fault_runs\":" << c.faultRuns << ",\"injected_total\":" << c.faultsInjected << ",\"alloc\":" << c.faultsByKind[F_ALLOC] << ",\"copy\":" << c.faultsByKind[F_COPY]
	  << ",\"move\":" << c.faultsByKind[F_MOVE] << ",\"call\":" << c.faultsByKind[F_CALL] << ",\"compare\":" << c.faultsByKind[F_CMP] << ",\"second_faults_armed\":" << c.secondFaults
	  << ",\"operations_failed_by_fault\":" << c.opsFailedByFault << ",\"events_discarded_by_fault\":" << c.eventsDiscardedByFault << "}"
	  << ",\"per_variant\":[";
	for(int i = 0; i < sq::V_COUNT; ++i) o << (i ? "," : "") << c.perVariant[i];
	o << "]";
	out += o.str();
}

} // namespace engine

int main(int argc, char ** argv) { return sim::workerMain(argc, argv); }

#endif // SEQ_MAIN
