// SEQ engine for C04: EventDispatcher over a matrix of key types, map kinds, prototypes, argument-passing
// modes, listener parameter types and argument value categories. Built with g++ AND clang++ (they evaluate
// the argument expressions of dispatch() in opposite orders).
// Modes: c04 (histories vs. model), c09 (fault enumeration over the same histories)
#ifdef SEQ_MAIN
#define VERIF_REPLACE_NEW
#endif
#include "seq_common.h"

#include <functional>
#include <string>

using namespace sim;

namespace sd {

enum { NKEY = 4, MAXSLOT = 48 };
enum OpKind { O_APPEND = 1, O_PREPEND = 2, O_INSERT = 3, O_REMOVE = 4, O_OWNS = 5, O_HAS_ANY = 6, O_FOREACH = 7, O_DISPATCH = 8, O_KINDS = 9 };
// Op fields: d = key index. adds: a = callback id (= slot), b = before slot, c = listener kind. remove/owns: b = slot.
//            dispatch: a = value seed, c = form (argument value categories / event-included form)
enum { U_VARIANT = 0 };
enum { V_COUNT = 15 };

typedef Tracked<seq::T_PAY, false> Payload;
typedef std::vector<long> Sig;

inline long H(const std::string & s)
{
	unsigned long h = 7;
	for(size_t i = 0; i < s.size(); ++i) h = h * 31 + (unsigned char)s[i];
	return (long)((h % 1000000007UL) * 1000 + s.size());
}
inline std::string strOf(int v) { return "s" + std::to_string(v) + std::string((size_t)(((v % 5) + 5) % 5) * 9, 'x'); } // short and long (heap) strings

struct Sink { virtual void called(int cb, const Sig & sig) = 0; virtual ~Sink() {} };
extern Sink * g_sink;

struct Counters
{
	uint64_t plans, ops, dispatches, listenerCalls, dispatchNoListener, formCounts[4], kindCounts[4], faultRuns, faultsInjected, faultsByKind[F_KINDS], opsFailedByFault;
	uint64_t perVariant[V_COUNT];
};
extern Counters counters;

} // namespace sd

#if defined(SEQ_VARIANT)
namespace sd {

// canonical values of what a listener received
inline long canon(int v) { return v; }
inline long canon(long v) { return v; }
inline long canon(const std::string & s) { return H(s); }
inline long canon(const Payload & p) { p.alive("listener argument"); return p.val; }

struct LBase : Tracked<seq::T_FN, false>
{
	explicit LBase(int id) : Tracked<seq::T_FN, false>(id) {}
	void report(const Sig & s) const
	{
		faultPoint(F_CALL);
		FaultOff off;
		this->alive("listener invoked");
		g_sink->called(this->id, s);
	}
};

// ---------------------------------------------------------------- configurations
// Each configuration supplies: Key, Proto, Pol, key(i), add(...), dispatch(...), expected(...)

// cfg0: int key, void(int, const std::string&), AutoDetect, default (hashed) map
struct Cfg0
{
	typedef int Key;
	typedef void Proto(int, const std::string &);
	struct Pol {};
	typedef eventpp::EventDispatcher<Key, Proto, Pol> D;
	static Key key(int i) { return 10 + i; }
	struct K0 : LBase { explicit K0(int id) : LBase(id) {} void operator() (int a, const std::string & s) const { Sig g; g.push_back(canon(a)); g.push_back(canon(s)); report(g); } };
	struct K1 : LBase { explicit K1(int id) : LBase(id) {} void operator() (int a, std::string s) const { Sig g; g.push_back(canon(a)); g.push_back(canon(s)); s.clear(); report(g); } };
	struct K2 : LBase { explicit K2(int id) : LBase(id) {} void operator() (long a, const std::string & s) const { Sig g; g.push_back(canon(a)); g.push_back(canon(s)); report(g); } };
	static std::function<Proto> make(int kind, int cb) { return kind == 1 ? std::function<Proto>(K1(cb)) : kind == 2 ? std::function<Proto>(K2(cb)) : std::function<Proto>(K0(cb)); }
	static void dispatch(D & d, int ki, int v, int form)
	{
		int a = v * 3 + 1;
		std::string s = strOf(v);
		const Key k = key(ki);
		if(form == 0) d.dispatch(k, a, s);
		else if(form == 1) d.dispatch(key(ki), v * 3 + 1, strOf(v));
		else d.dispatch(k, s);                 // event-included form: the first prototype argument is the event
	}
	static Sig expected(int ki, int v, int form) { Sig g; g.push_back(form >= 2 ? key(ki) : v * 3 + 1); g.push_back(H(strOf(v))); return g; }
	static int forms() { return 3; }
};

// cfg1: enum class key, void(const std::string&, Payload), ExcludeEvent
enum class Color { red = 3, green = 7, blue = 11, none = 99 };
struct Cfg1
{
	typedef Color Key;
	typedef void Proto(const std::string &, Payload);
	struct Pol { typedef eventpp::ArgumentPassingExcludeEvent ArgumentPassingMode; };
	typedef eventpp::EventDispatcher<Key, Proto, Pol> D;
	static Key key(int i) { static const Color c[] = { Color::red, Color::green, Color::blue, Color::none }; return c[i & 3]; }
	struct K0 : LBase { explicit K0(int id) : LBase(id) {} void operator() (const std::string & s, Payload p) const { Sig g; g.push_back(canon(s)); g.push_back(canon(p)); report(g); } };
	struct K1 : LBase { explicit K1(int id) : LBase(id) {} void operator() (std::string s, const Payload & p) const { Sig g; g.push_back(canon(s)); g.push_back(canon(p)); report(g); } };
	struct K2 : LBase { explicit K2(int id) : LBase(id) {} void operator() (const std::string & s, Payload p) const { Sig g; g.push_back(canon(s)); g.push_back(canon(p)); Payload stolen(std::move(p)); report(g); } };
	static std::function<Proto> make(int kind, int cb) { return kind == 1 ? std::function<Proto>(K1(cb)) : kind == 2 ? std::function<Proto>(K2(cb)) : std::function<Proto>(K0(cb)); }
	static void dispatch(D & d, int ki, int v, int form)
	{
		std::string s = strOf(v);
		Payload p(2000, v * 5 + 2);
		if(form == 0) d.dispatch(key(ki), s, p);
		else if(form == 1) d.dispatch(key(ki), strOf(v), Payload(2000, v * 5 + 2));
		else d.dispatch(key(ki), std::move(s), std::move(p));
	}
	static Sig expected(int, int v, int) { Sig g; g.push_back(H(strOf(v))); g.push_back(v * 5 + 2); return g; }
	static int forms() { return 3; }
};

// cfg2: std::string key taken BY VALUE in the prototype, IncludeEvent: the event is the first argument itself
struct Cfg2
{
	typedef std::string Key;
	typedef void Proto(std::string, Payload);
	struct Pol { typedef eventpp::ArgumentPassingIncludeEvent ArgumentPassingMode; };
	typedef eventpp::EventDispatcher<Key, Proto, Pol> D;
	static Key key(int i) { return "key-" + std::to_string(i) + std::string((size_t)i * 11, 'k'); }
	struct K0 : LBase { explicit K0(int id) : LBase(id) {} void operator() (std::string s, Payload p) const { Sig g; g.push_back(canon(s)); g.push_back(canon(p)); report(g); } };
	struct K1 : LBase { explicit K1(int id) : LBase(id) {} void operator() (const std::string & s, const Payload & p) const { Sig g; g.push_back(canon(s)); g.push_back(canon(p)); report(g); } };
	struct K2 : LBase { explicit K2(int id) : LBase(id) {} void operator() (std::string s, Payload p) const { Sig g; g.push_back(canon(s)); g.push_back(canon(p)); std::string t(std::move(s)); Payload stolen(std::move(p)); report(g); } };
	static std::function<Proto> make(int kind, int cb) { return kind == 1 ? std::function<Proto>(K1(cb)) : kind == 2 ? std::function<Proto>(K2(cb)) : std::function<Proto>(K0(cb)); }
	static void dispatch(D & d, int ki, int v, int form)
	{
		std::string s = key(ki);
		Payload p(2000, v * 5 + 2);
		if(form == 0) d.dispatch(s, p);
		else if(form == 1) d.dispatch(key(ki), Payload(2000, v * 5 + 2));
		else d.dispatch(std::move(s), std::move(p));
	}
	static Sig expected(int ki, int v, int) { Sig g; g.push_back(H(key(ki))); g.push_back(v * 5 + 2); return g; }
	static int forms() { return 3; }
};

// cfg3: user key with operator< only (-> std::map), void(const KeyLt&, int), AutoDetect (both forms)
struct KeyLt
{
	int v;
	explicit KeyLt(int v_) : v(v_) {}
	bool operator < (const KeyLt & o) const { faultPoint(F_CMP); return v < o.v; }
};
inline long canon(const KeyLt & k) { return k.v; }
struct Cfg3
{
	typedef KeyLt Key;
	typedef void Proto(const KeyLt &, int);
	struct Pol {};
	typedef eventpp::EventDispatcher<Key, Proto, Pol> D;
	static Key key(int i) { return KeyLt(100 - i * 7); }
	struct K0 : LBase { explicit K0(int id) : LBase(id) {} void operator() (const KeyLt & k, int a) const { Sig g; g.push_back(canon(k)); g.push_back(canon(a)); report(g); } };
	struct K1 : LBase { explicit K1(int id) : LBase(id) {} void operator() (KeyLt k, long a) const { Sig g; g.push_back(canon(k)); g.push_back(canon(a)); report(g); } };
	static std::function<Proto> make(int kind, int cb) { return kind == 1 ? std::function<Proto>(K1(cb)) : std::function<Proto>(K0(cb)); }
	static void dispatch(D & d, int ki, int v, int form)
	{
		const KeyLt k = key(ki);
		const KeyLt other(v + 1000);
		if(form == 0) d.dispatch(k, v);               // event-included form
		else if(form == 1) d.dispatch(k, other, v);   // event given separately; the first prototype argument is unrelated
		else d.dispatch(key(ki), v);
	}
	static Sig expected(int ki, int v, int form) { Sig g; g.push_back(form == 1 ? v + 1000 : key(ki).v); g.push_back(v); return g; }
	static int forms() { return 3; }
};

// cfg4: user key with std::hash and operator== (-> std::unordered_map), void(int, Payload), ExcludeEvent
struct KeyHash
{
	int v;
	explicit KeyHash(int v_) : v(v_) {}
	bool operator == (const KeyHash & o) const { faultPoint(F_CMP); return v == o.v; }
};
} // namespace sd
namespace std {
template <> struct hash<sd::KeyHash> { size_t operator() (const sd::KeyHash & k) const { sim::faultPoint(sim::F_CMP); return (size_t)(k.v % 2); } }; // many collisions on purpose
}
namespace sd {
struct Cfg4
{
	typedef KeyHash Key;
	typedef void Proto(int, Payload);
	struct Pol { typedef eventpp::ArgumentPassingExcludeEvent ArgumentPassingMode; };
	typedef eventpp::EventDispatcher<Key, Proto, Pol> D;
	static Key key(int i) { return KeyHash(20 + i * 2); }
	struct K0 : LBase { explicit K0(int id) : LBase(id) {} void operator() (int a, Payload p) const { Sig g; g.push_back(canon(a)); g.push_back(canon(p)); report(g); } };
	struct K1 : LBase { explicit K1(int id) : LBase(id) {} void operator() (int a, const Payload & p) const { Sig g; g.push_back(canon(a)); g.push_back(canon(p)); report(g); } };
	struct K2 : LBase { explicit K2(int id) : LBase(id) {} void operator() (int a, Payload p) const { Sig g; g.push_back(canon(a)); g.push_back(canon(p)); Payload stolen(std::move(p)); report(g); } };
	static std::function<Proto> make(int kind, int cb) { return kind == 1 ? std::function<Proto>(K1(cb)) : kind == 2 ? std::function<Proto>(K2(cb)) : std::function<Proto>(K0(cb)); }
	static void dispatch(D & d, int ki, int v, int form)
	{
		Payload p(2000, v * 5 + 2);
		int a = v - 9;
		if(form == 0) d.dispatch(key(ki), a, p);
		else if(form == 1) d.dispatch(key(ki), v - 9, Payload(2000, v * 5 + 2));
		else d.dispatch(key(ki), a, std::move(p));
	}
	static Sig expected(int, int v, int) { Sig g; g.push_back(v - 9); g.push_back(v * 5 + 2); return g; }
	static int forms() { return 3; }
};

// cfg5: event extracted from a field of the single argument by a getEvent policy
struct EvObj
{
	int type, x;
	Payload p;
	EvObj(int t, int x_, int pv) : type(t), x(x_), p(2000, pv) {}
};
struct Cfg5
{
	typedef int Key;
	typedef void Proto(const EvObj &);
	struct Pol { static int getEvent(const EvObj & e) { faultPoint(F_CALL); return e.type; } };
	typedef eventpp::EventDispatcher<Key, Proto, Pol> D;
	static Key key(int i) { return 40 + i; }
	struct K0 : LBase { explicit K0(int id) : LBase(id) {} void operator() (const EvObj & e) const { Sig g; g.push_back(e.type); g.push_back(e.x); g.push_back(canon(e.p)); report(g); } };
	struct K1 : LBase { explicit K1(int id) : LBase(id) {} void operator() (EvObj e) const { Sig g; g.push_back(e.type); g.push_back(e.x); g.push_back(canon(e.p)); Payload stolen(std::move(e.p)); report(g); } };
	static std::function<Proto> make(int kind, int cb) { return kind == 1 ? std::function<Proto>(K1(cb)) : std::function<Proto>(K0(cb)); }
	static void dispatch(D & d, int ki, int v, int form)
	{
		EvObj e(key(ki), v, v * 5 + 2);
		if(form == 0) d.dispatch(e);
		else d.dispatch(EvObj(key(ki), v, v * 5 + 2));
	}
	static Sig expected(int ki, int v, int) { Sig g; g.push_back(key(ki)); g.push_back(v); g.push_back(v * 5 + 2); return g; }
	static int forms() { return 2; }
};

// cfg6: explicit Map policy (std::map for a hashable key), SingleThreading, void(int, Payload), AutoDetect with both forms
struct Cfg6
{
	typedef int Key;
	typedef void Proto(int, Payload);
	struct Pol { typedef eventpp::SingleThreading Threading; template <typename K, typename V> using Map = std::map<K, V>; };
	typedef eventpp::EventDispatcher<Key, Proto, Pol> D;
	static Key key(int i) { return -5 + i * 5; }
	struct K0 : LBase { explicit K0(int id) : LBase(id) {} void operator() (int a, Payload p) const { Sig g; g.push_back(canon(a)); g.push_back(canon(p)); report(g); } };
	struct K1 : LBase { explicit K1(int id) : LBase(id) {} void operator() (const int & a, const Payload & p) const { Sig g; g.push_back(canon(a)); g.push_back(canon(p)); report(g); } };
	struct K2 : LBase { explicit K2(int id) : LBase(id) {} void operator() (int a, Payload p) const { Sig g; g.push_back(canon(a)); g.push_back(canon(p)); Payload stolen(std::move(p)); report(g); } };
	static std::function<Proto> make(int kind, int cb) { return kind == 1 ? std::function<Proto>(K1(cb)) : kind == 2 ? std::function<Proto>(K2(cb)) : std::function<Proto>(K0(cb)); }
	static void dispatch(D & d, int ki, int v, int form)
	{
		Payload p(2000, v * 5 + 2);
		if(form == 0) d.dispatch(key(ki), v, p);
		else if(form == 1) d.dispatch(key(ki), Payload(2000, v * 5 + 2));   // event-included form
		else d.dispatch(key(ki), v, std::move(p));
	}
	static Sig expected(int ki, int v, int form) { Sig g; g.push_back(form == 1 ? key(ki) : v); g.push_back(v * 5 + 2); return g; }
	static int forms() { return 3; }
};


// cfg7: ExcludeEvent form with a getEvent policy that is NOT the identity on the leading argument (masks noise bits off an int id);
// the leading argument is an int lvalue, a long (not the Event type) or an int temporary
struct Cfg7
{
	typedef int Key;
	typedef void Proto(int, Payload);
	struct Pol
	{
		typedef eventpp::ArgumentPassingExcludeEvent ArgumentPassingMode;
		static int getEvent(int raw, int, const Payload &) { faultPoint(F_CALL); return raw & 0xff; }
	};
	typedef eventpp::EventDispatcher<Key, Proto, Pol> D;
	static Key key(int i) { return 40 + i; }
	struct K0 : LBase { explicit K0(int id) : LBase(id) {} void operator() (int a, Payload p) const { Sig g; g.push_back(canon(a)); g.push_back(canon(p)); report(g); } };
	struct K1 : LBase { explicit K1(int id) : LBase(id) {} void operator() (int a, const Payload & p) const { Sig g; g.push_back(canon(a)); g.push_back(canon(p)); report(g); } };
	struct K2 : LBase { explicit K2(int id) : LBase(id) {} void operator() (int a, Payload p) const { Sig g; g.push_back(canon(a)); g.push_back(canon(p)); Payload stolen(std::move(p)); report(g); } };
	static std::function<Proto> make(int kind, int cb) { return kind == 1 ? std::function<Proto>(K1(cb)) : kind == 2 ? std::function<Proto>(K2(cb)) : std::function<Proto>(K0(cb)); }
	static void dispatch(D & d, int ki, int v, int form)
	{
		Payload p(2000, v * 5 + 2);
		// the noise sometimes makes the raw id equal to ANOTHER registered key plus high bits, never to a registered key itself
		int raw = key(ki) | ((((v % 97) + 97) % 97 + 1) << 8);
		int a = v - 9;
		if(form == 0) d.dispatch(raw, a, p);
		else if(form == 1) d.dispatch((long)raw, v - 9, Payload(2000, v * 5 + 2));
		else d.dispatch(key(ki) | ((((v % 97) + 97) % 97 + 1) << 8), a, std::move(p));
	}
	static Sig expected(int, int v, int) { Sig g; g.push_back(v - 9); g.push_back(v * 5 + 2); return g; }
	static int forms() { return 3; }
};

// cfg8: the same with a std::string key: the policy strips a '#suffix'; leading argument a std::string lvalue, a temporary, or a literal
struct Cfg8
{
	typedef std::string Key;
	typedef void Proto(int, Payload);
	struct Pol
	{
		typedef eventpp::ArgumentPassingExcludeEvent ArgumentPassingMode;
		static std::string getEvent(const std::string & raw, int, const Payload &) { faultPoint(F_CALL); return raw.substr(0, raw.find('#')); }
	};
	typedef eventpp::EventDispatcher<Key, Proto, Pol> D;
	static Key key(int i) { return "name-" + std::to_string(i) + std::string((size_t)i * 9, 'n'); }
	typedef Cfg7::K0 K0; typedef Cfg7::K1 K1; typedef Cfg7::K2 K2;
	static std::function<Proto> make(int kind, int cb) { return kind == 1 ? std::function<Proto>(K1(cb)) : kind == 2 ? std::function<Proto>(K2(cb)) : std::function<Proto>(K0(cb)); }
	static void dispatch(D & d, int ki, int v, int form)
	{
		Payload p(2000, v * 5 + 2);
		std::string raw = key(ki) + "#" + strOf(v);
		int a = v - 9;
		if(form == 0) d.dispatch(raw, a, p);
		else if(form == 1) d.dispatch(key(ki) + "#t", v - 9, Payload(2000, v * 5 + 2));
		else d.dispatch(raw.c_str(), a, std::move(p));
	}
	static Sig expected(int, int v, int) { Sig g; g.push_back(v - 9); g.push_back(v * 5 + 2); return g; }
	static int forms() { return 3; }
};


// cfg9: ExcludeEvent form with a getEvent policy that reads a TRAILING by-value movable argument (the topic): dispatch() must obtain
// the event before it forwards (moves) its own by-value parameters on - whatever order the compiler evaluates call arguments in
struct Cfg9
{
	typedef int Key;
	typedef void Proto(std::string, Payload);
	struct Pol
	{
		typedef eventpp::ArgumentPassingExcludeEvent ArgumentPassingMode;
		static int getEvent(int base, const std::string & topic, const Payload &) { faultPoint(F_CALL); return base + (int)topic.size(); }
	};
	typedef eventpp::EventDispatcher<Key, Proto, Pol> D;
	static Key key(int i) { return 100 + i * 7; }
	struct K0 : LBase { explicit K0(int id) : LBase(id) {} void operator() (std::string s, Payload p) const { Sig g; g.push_back(canon(s)); g.push_back(canon(p)); report(g); } };
	struct K1 : LBase { explicit K1(int id) : LBase(id) {} void operator() (const std::string & s, const Payload & p) const { Sig g; g.push_back(canon(s)); g.push_back(canon(p)); report(g); } };
	struct K2 : LBase { explicit K2(int id) : LBase(id) {} void operator() (std::string s, Payload p) const { Sig g; g.push_back(canon(s)); g.push_back(canon(p)); std::string t(std::move(s)); Payload stolen(std::move(p)); report(g); } };
	static std::function<Proto> make(int kind, int cb) { return kind == 1 ? std::function<Proto>(K1(cb)) : kind == 2 ? std::function<Proto>(K2(cb)) : std::function<Proto>(K0(cb)); }
	static void dispatch(D & d, int ki, int v, int form)
	{
		std::string topic = strOf(v);
		Payload p(2000, v * 5 + 2);
		const int base = key(ki) - (int)topic.size();
		if(form == 0) d.dispatch(base, topic, p);
		else if(form == 1) d.dispatch(base, strOf(v), Payload(2000, v * 5 + 2));
		else d.dispatch(base, std::move(topic), std::move(p));
	}
	static Sig expected(int, int v, int) { Sig g; g.push_back(H(strOf(v))); g.push_back(v * 5 + 2); return g; }
	static int forms() { return 3; }
};


// cfg10: the queued counterpart of cfg2 - an EventQueue keyed by a std::string taken BY VALUE, IncludeEvent; a "dispatch" is an enqueue
// (event as lvalue, temporary or moved local) followed by process(): enqueue must read the event before the arguments are moved into the
// stored tuple, whatever order the compiler evaluates call arguments in
struct Cfg10
{
	typedef std::string Key;
	typedef void Proto(std::string, Payload);
	struct Pol { typedef eventpp::ArgumentPassingIncludeEvent ArgumentPassingMode; };
	typedef eventpp::EventQueue<Key, Proto, Pol> D;
	static Key key(int i) { return Cfg2::key(i); }
	typedef Cfg2::K0 K0; typedef Cfg2::K1 K1; typedef Cfg2::K2 K2;
	static std::function<Proto> make(int kind, int cb) { return Cfg2::make(kind, cb); }
	static void dispatch(D & d, int ki, int v, int form)
	{
		std::string s = key(ki);
		Payload p(2000, v * 5 + 2);
		if(form == 0) d.enqueue(s, p);
		else if(form == 1) d.enqueue(key(ki), Payload(2000, v * 5 + 2));
		else d.enqueue(std::move(s), std::move(p));
		d.process();
	}
	static Sig expected(int ki, int v, int) { Sig g; g.push_back(H(key(ki))); g.push_back(v * 5 + 2); return g; }
	static int forms() { return 3; }
};


// cfg11: a getEvent policy that RETURNS A REFERENCE (to its second argument: the topic is the event, the sender is noise); the
// policy must be honoured like one that returns by value
struct Cfg11
{
	typedef std::string Key;
	typedef void Proto(const std::string &, const std::string &);
	struct Pol { static const std::string & getEvent(const std::string &, const std::string & topic) { faultPoint(F_CALL); return topic; } };
	typedef eventpp::EventDispatcher<Key, Proto, Pol> D;
	static Key key(int i) { return "topic-" + std::to_string(i) + std::string((size_t)i * 7, 't'); }
	struct K0 : LBase { explicit K0(int id) : LBase(id) {} void operator() (const std::string & s, const std::string & t) const { Sig g; g.push_back(canon(s)); g.push_back(canon(t)); report(g); } };
	struct K1 : LBase { explicit K1(int id) : LBase(id) {} void operator() (std::string s, std::string t) const { Sig g; g.push_back(canon(s)); g.push_back(canon(t)); report(g); } };
	static std::function<Proto> make(int kind, int cb) { return kind == 1 ? std::function<Proto>(K1(cb)) : std::function<Proto>(K0(cb)); }
	static void dispatch(D & d, int ki, int v, int form)
	{
		const std::string sender = "from-" + strOf(v);
		const std::string topic = key(ki);
		if(form == 0) d.dispatch(sender, topic);
		else d.dispatch("from-" + strOf(v), key(ki));
	}
	static Sig expected(int ki, int v, int) { Sig g; g.push_back(H("from-" + strOf(v))); g.push_back(H(key(ki))); return g; }
	static int forms() { return 2; }
};


// cfg12: a NON-OWNING key: it refers to the std::string it was made from (the std::string_view idea, spelled out for C++11). In the
// include-event form the key refers to dispatch()'s own by-value argument; the lookup must happen before that argument is moved on.
struct KeyView
{
	const std::string * p;
	KeyView(const std::string & s) : p(&s) {}
	bool operator < (const KeyView & o) const { faultPoint(F_CMP); return *p < *o.p; }
};
struct Cfg12
{
	typedef KeyView Key;
	typedef void Proto(std::string, Payload);
	struct Pol { typedef eventpp::ArgumentPassingIncludeEvent ArgumentPassingMode; };
	typedef eventpp::EventDispatcher<Key, Proto, Pol> D;
	static const std::string & stable(int i) { static const std::string t[4] = { Cfg2::key(0), Cfg2::key(1), Cfg2::key(2), Cfg2::key(3) }; return t[i & 3]; }
	static Key key(int i) { return KeyView(stable(i)); }   // registered keys refer to strings that live for the whole program
	typedef Cfg2::K0 K0; typedef Cfg2::K1 K1; typedef Cfg2::K2 K2;
	static std::function<Proto> make(int kind, int cb) { return Cfg2::make(kind, cb); }
	static void dispatch(D & d, int ki, int v, int form)
	{
		std::string s = stable(ki);
		Payload p(2000, v * 5 + 2);
		if(form == 0) d.dispatch(s, p);
		else if(form == 1) d.dispatch(std::string(stable(ki)), Payload(2000, v * 5 + 2));
		else d.dispatch(std::move(s), std::move(p));
	}
	static Sig expected(int ki, int v, int) { Sig g; g.push_back(H(stable(ki))); g.push_back(v * 5 + 2); return g; }
	static int forms() { return 3; }
};

// cfg13 / cfg14: EventQueue with a getEvent policy that takes its parameters BY VALUE (a std::string and a tracked Payload). enqueue must
// hand the policy the arguments as lvalues: whatever the policy does with its own copies, the event is stored "with the argument
// values it had when enqueue was called" - for lvalue, temporary and moved-local arguments alike. cfg13 is the exclude-event form
// (the leading int is only a base for the key), cfg14 the include-event form (the key is the length of the string argument).
struct Cfg13
{
	typedef int Key;
	typedef void Proto(std::string, Payload);
	struct Pol
	{
		typedef eventpp::ArgumentPassingExcludeEvent ArgumentPassingMode;
		static int getEvent(int base, std::string topic, Payload p) { faultPoint(F_CALL); const int k = base + (int)topic.size(); std::string gone(std::move(topic)); Payload stolen(std::move(p)); return k; }
	};
	typedef eventpp::EventQueue<Key, Proto, Pol> D;
	static Key key(int i) { return Cfg9::key(i); }
	typedef Cfg9::K0 K0; typedef Cfg9::K1 K1; typedef Cfg9::K2 K2;
	static std::function<Proto> make(int kind, int cb) { return Cfg9::make(kind, cb); }
	static void dispatch(D & d, int ki, int v, int form)
	{
		std::string topic = strOf(v);
		Payload p(2000, v * 5 + 2);
		const int base = key(ki) - (int)topic.size();
		if(form == 0) d.enqueue(base, topic, p);
		else if(form == 1) d.enqueue(base, strOf(v), Payload(2000, v * 5 + 2));
		else d.enqueue(base, std::move(topic), std::move(p));
		d.process();
	}
	static Sig expected(int, int v, int) { Sig g; g.push_back(H(strOf(v))); g.push_back(v * 5 + 2); return g; }
	static int forms() { return 3; }
};
struct Cfg14
{
	typedef int Key;
	typedef void Proto(std::string, Payload);
	struct Pol
	{
		typedef eventpp::ArgumentPassingIncludeEvent ArgumentPassingMode;
		static int getEvent(std::string topic, Payload p) { faultPoint(F_CALL); const int k = (int)topic.size(); std::string gone(std::move(topic)); Payload stolen(std::move(p)); return k; }
	};
	typedef eventpp::EventQueue<Key, Proto, Pol> D;
	static Key key(int i) { return 60 + (i & 3); }
	static std::string topicOf(int ki, int v) { std::string t = strOf(v); t.resize((size_t)key(ki), 'p'); return t; }
	typedef Cfg9::K0 K0; typedef Cfg9::K1 K1; typedef Cfg9::K2 K2;
	static std::function<Proto> make(int kind, int cb) { return Cfg9::make(kind, cb); }
	static void dispatch(D & d, int ki, int v, int form)
	{
		std::string topic = topicOf(ki, v);
		Payload p(2000, v * 5 + 2);
		if(form == 0) d.enqueue(topic, p);
		else if(form == 1) d.enqueue(topicOf(ki, v), Payload(2000, v * 5 + 2));
		else d.enqueue(std::move(topic), std::move(p));
		d.process();
	}
	static Sig expected(int ki, int v, int) { Sig g; g.push_back(H(topicOf(ki, v))); g.push_back(v * 5 + 2); return g; }
	static int forms() { return 3; }
};

// ---------------------------------------------------------------- interpreter
struct MItem { int cb; };

template <typename C>
struct Interp : Sink
{
	typedef typename C::D D;
	typedef typename D::Handle Handle;

	const Plan & plan;
	seq::Violation viol;
	D * disp;
	std::vector<MItem> lists[NKEY];
	Handle handles[MAXSLOT];
	int slotKey[MAXSLOT];
	bool slotUsed[MAXSLOT], slotIn[MAXSLOT];
	uint64_t logHash;
	std::vector<long> passedPerOp;
	// expectation of the dispatch in progress
	bool inDispatch;
	std::vector<int> expectList;
	size_t expectPos;
	Sig expectSig;

	explicit Interp(const Plan & p) : plan(p), disp(nullptr), logHash(kHashInit), inDispatch(false), expectPos(0)
	{
		for(int i = 0; i < MAXSLOT; ++i) { slotKey[i] = 0; slotUsed[i] = false; slotIn[i] = false; }
	}
	void log(uint64_t v) { logHash = hashMix(logHash, v); }
	int keyOf(const Op & op) const { return op.d & 3; }
	int findItem(int k, int cb) const { for(size_t i = 0; i < lists[k].size(); ++i) if(lists[k][i].cb == cb) return (int)i; return -1; }
	std::string render(int k) const { std::vector<int> v; for(size_t i = 0; i < lists[k].size(); ++i) v.push_back(lists[k][i].cb); return seq::join(v); }
	static std::string renderSig(const Sig & s) { std::ostringstream o; o << "("; for(size_t i = 0; i < s.size(); ++i) { if(i) o << ","; o << s[i]; } o << ")"; return o.str(); }

	void called(int cb, const Sig & sig) override
	{
		++counters.listenerCalls;
		log((uint64_t)cb * 2654435761u);
		for(size_t i = 0; i < sig.size(); ++i) log((uint64_t)sig[i]);
		if(!inDispatch) { viol.raise("listener-outside-dispatch", "listener " + std::to_string(cb) + " invoked while no dispatch is in progress"); return; }
		if(expectPos >= expectList.size() || expectList[expectPos] != cb) {
			viol.raise("unexpected-listener", "listener " + std::to_string(cb) + " was invoked but the model expects " + (expectPos < expectList.size() ? std::to_string(expectList[expectPos]) : std::string("no further listener"))
				+ " (listeners of the dispatched event: " + seq::join(expectList) + ")");
			return;
		}
		++expectPos;
		if(sig != expectSig) viol.raise("argument-mismatch", "listener " + std::to_string(cb) + " received " + renderSig(sig) + " but the caller supplied " + renderSig(expectSig));
	}

	void doOp(const Op & op)
	{
		if(viol.set) return;
		const int k = keyOf(op);
		log((uint64_t)op.k * 1000003 + (uint64_t)(uint32_t)op.a * 31 + (uint64_t)(uint32_t)op.d);
		switch(op.k) {
		case O_APPEND: case O_PREPEND: case O_INSERT: {
			const int cb = op.a;
			if(cb < 0 || cb >= MAXSLOT - 2 || slotUsed[cb]) return;
			int before = op.b;
			if(op.k == O_INSERT) {
				if(before < 0 || before >= MAXSLOT) before = MAXSLOT - 1;
				if(slotUsed[before] && slotIn[before] && slotKey[before] != k) return; // a handle of another event's list: documented misuse
			}
			const int kind = op.c & 3;
			++counters.kindCounts[kind];
			const typename C::Key key = C::key(k);
			Handle h;
			{
				std::function<typename C::Proto> f = C::make(kind, cb);
				FaultArm arm;
				if(op.k == O_APPEND) h = disp->appendListener(key, f);
				else if(op.k == O_PREPEND) h = disp->prependListener(key, f);
				else h = disp->insertListener(key, f, handles[before]);
			}
			slotUsed[cb] = true; slotIn[cb] = true; slotKey[cb] = k; handles[cb] = h;
			MItem it; it.cb = cb;
			if(op.k == O_PREPEND) lists[k].insert(lists[k].begin(), it);
			else if(op.k == O_INSERT && slotUsed[before] && slotIn[before] && slotKey[before] == k) lists[k].insert(lists[k].begin() + findItem(k, before), it);
			else lists[k].push_back(it);
			break;
		}
		case O_REMOVE: {
			int slot = op.b;
			if(slot < 0 || slot >= MAXSLOT) slot = MAXSLOT - 1;
			if(slotUsed[slot] && slotIn[slot] && slotKey[slot] != k) return;
			const bool expected = slotUsed[slot] && slotIn[slot] && slotKey[slot] == k;
			const typename C::Key key = C::key(k);
			bool got;
			{ FaultArm arm; got = disp->removeListener(key, handles[slot]); }
			if(expected) { lists[k].erase(lists[k].begin() + findItem(k, slot)); slotIn[slot] = false; }
			if(got != expected) viol.raise("removeListener-result", "removeListener for listener " + std::to_string(slot) + " returned " + (got ? "true" : "false") + "; listeners " + render(k));
			break;
		}
		case O_OWNS: {
			int slot = op.b;
			if(slot < 0 || slot >= MAXSLOT) slot = MAXSLOT - 1;
			const bool expected = slotUsed[slot] && slotIn[slot] && slotKey[slot] == k;
			const typename C::Key key = C::key(k);
			bool got;
			{ FaultArm arm; got = disp->ownsHandle(key, handles[slot]); }
			if(got != expected) viol.raise("ownsHandle-result", "ownsHandle for listener " + std::to_string(slot) + " under key " + std::to_string(k) + " returned " + (got ? "true" : "false"));
			break;
		}
		case O_HAS_ANY: {
			const typename C::Key key = C::key(k);
			bool got;
			{ FaultArm arm; got = disp->hasAnyListener(key); }
			if(got != !lists[k].empty()) viol.raise("hasAnyListener-result", "hasAnyListener(key " + std::to_string(k) + ") returned " + (got ? "true" : "false") + " with listeners " + render(k));
			break;
		}
		case O_FOREACH: {
			std::vector<int> seen;
			const typename C::Key key = C::key(k);
			{
				FaultArm arm;
				disp->forEach(key, [&seen](const std::function<typename C::Proto> & cb) { FaultOff off; seen.push_back(idOf(cb)); });
			}
			std::vector<int> want;
			for(size_t i = 0; i < lists[k].size(); ++i) want.push_back(lists[k][i].cb);
			if(seen != want) viol.raise("content-mismatch", "forEach(key " + std::to_string(k) + ") enumerates " + seq::join(seen) + " but the listeners are " + seq::join(want));
			break;
		}
		case O_DISPATCH: {
			const int form = ((op.c % C::forms()) + C::forms()) % C::forms();
			const int v = op.a;
			++counters.dispatches; ++counters.formCounts[form & 3];
			expectList.clear();
			for(size_t i = 0; i < lists[k].size(); ++i) expectList.push_back(lists[k][i].cb);
			if(expectList.empty()) ++counters.dispatchNoListener;
			expectPos = 0;
			expectSig = C::expected(k, v, form);
			inDispatch = true;
			try {
				FaultArm arm;
				C::dispatch(*disp, k, v, form);
			}
			catch(...) { inDispatch = false; throw; }
			inDispatch = false;
			if(expectPos != expectList.size()) {
				viol.raise("missed-listener", "dispatch of key " + std::to_string(k) + " (form " + std::to_string(form) + ") invoked " + std::to_string(expectPos) + " of the " + std::to_string(expectList.size())
					+ " listeners registered for that event " + seq::join(expectList));
			}
			break;
		}
		default: break;
		}
	}

	static int idOf(const std::function<typename C::Proto> & cb)
	{
		if(const typename C::K0 * f = cb.template target<typename C::K0>()) return f->id;
		if(const typename C::K1 * f = cb.template target<typename C::K1>()) return f->id;
		return idOf2(cb, (C *)nullptr);
	}
	template <typename CC>
	static auto idOf2(const std::function<typename CC::Proto> & cb, CC *) -> decltype((void)sizeof(typename CC::K2), 0)
	{
		if(const typename CC::K2 * f = cb.template target<typename CC::K2>()) return f->id;
		return -99;
	}
	static int idOf2(const std::function<typename C::Proto> &, ...) { return -99; }

	void observe(const char * when)
	{
		if(viol.set) return;
		for(int k = 0; k < NKEY && !viol.set; ++k) {
			std::vector<int> seen, want;
			const typename C::Key key = C::key(k);
			disp->forEach(key, [&seen](const std::function<typename C::Proto> & cb) { seen.push_back(idOf(cb)); });
			for(size_t i = 0; i < lists[k].size(); ++i) want.push_back(lists[k][i].cb);
			if(seen != want) viol.raise("content-mismatch", std::string(when) + ": key " + std::to_string(k) + " has listeners " + seq::join(seen) + " but should have " + seq::join(want));
			for(size_t i = 0; i < seen.size(); ++i) log((uint64_t)seen[i] + 77);
		}
		if(ledger().liveOfType(seq::T_PAY) != 0) viol.raise("argument-leak", std::string(when) + ": argument objects alive after the dispatch returned");
		if(ledger().hasError()) viol.raise(ledger().errorClass, ledger().error);
	}

	void execute(const std::vector<int> & faults)
	{
		FaultCtl & fc = faultCtl();
		fc.countdown = 0; fc.passed = 0; fc.lastFired = -1;
		ledger().reset();
		disp = new D();
		const OpList none;
		const OpList & ops = plan.tasks.empty() ? none : plan.tasks[0];
		passedPerOp.assign(ops.size(), 0);
		for(size_t i = 0; i < ops.size() && !viol.set; ++i) {
			long arm = 0;
			for(size_t f = 0; f + 1 < faults.size(); f += 2) if(faults[f] == (int)i) arm = faults[f + 1];
			fc.countdown = arm; fc.lastFired = -1;
			const long before = fc.passed;
			bool threw = false;
			try { ++counters.ops; doOp(ops[i]); }
			catch(const InjectedFault &) { threw = true; }
			catch(const std::bad_alloc &) { threw = true; }
			passedPerOp[i] = fc.passed - before;
			const bool fired = fc.lastFired >= 0;
			fc.countdown = 0;
			if(threw && !fired) viol.raise("unexpected-exception", "operation " + std::to_string(i) + " threw although no fault was injected");
			if(fired && !threw) viol.raise("fault-swallowed", "a fault was injected into operation " + std::to_string(i) + " but the call returned normally");
			if(fired) ++counters.opsFailedByFault;
			observe(threw ? "after a failed operation" : "after an operation");
		}
		if(viol.set) return; // leaked on purpose
		delete disp; disp = nullptr;
		for(int s = 0; s < MAXSLOT; ++s) handles[s] = Handle();
		if(ledger().hasError()) viol.raise(ledger().errorClass, ledger().error);
		else if(ledger().liveTotal() != 0) viol.raise("leak", "tracked objects alive after the dispatcher was destroyed");
	}
};

template <typename C>
void runCfg(const Plan & plan, RunOut & out)
{
	const bool faultMode = engine::mode == "c09";
	struct One
	{
		static void run(const Plan & plan, const std::vector<int> & faults, RunOut & out, std::vector<long> * passed, uint64_t * lh)
		{
			Interp<C> * in = new Interp<C>(plan);
			g_sink = in;
			in->execute(faults);
			if(in->viol.set) out.fail(in->viol.cls, in->viol.detail);
			if(passed) *passed = in->passedPerOp;
			if(lh) *lh = in->logHash;
			g_sink = nullptr;
			if(!out.violation) delete in;
		}
	};
	std::vector<long> passed;
	uint64_t lh = 0;
	long subRuns = 1;
	One::run(plan, plan.faults, out, &passed, &lh);
	out.logHash = lh;
	if(faultMode && plan.faults.empty() && !out.violation) {
		for(size_t i = 0; i < passed.size() && !out.violation; ++i) {
			for(long k = 1; k <= passed[i] && !out.violation; ++k) {
				std::vector<int> f; f.push_back((int)i); f.push_back((int)k);
				RunOut sub;
				One::run(plan, f, sub, nullptr, nullptr);
				++subRuns; ++counters.faultRuns;
				if(sub.violation) { out.fail(sub.cls, sub.detail); out.faults = f; }
			}
		}
	}
	for(int kd = 0; kd < F_KINDS; ++kd) { counters.faultsByKind[kd] += (uint64_t)faultCtl().firedKind[kd]; counters.faultsInjected += (uint64_t)faultCtl().firedKind[kd]; faultCtl().firedKind[kd] = 0; }
	out.subRuns = subRuns;
	out.steps = (long)(plan.tasks.empty() ? 0 : plan.tasks[0].size());
	uint64_t ch = kHashInit;
	if(!plan.tasks.empty()) for(size_t i = 0; i < plan.tasks[0].size(); ++i) { const Op & op = plan.tasks[0][i]; ch = hashMix(ch, (uint64_t)op.k * 131 + (uint64_t)(uint32_t)op.a * 31 + (uint64_t)(uint32_t)op.b * 17 + (uint64_t)(uint32_t)op.c * 7 + (uint64_t)(uint32_t)op.d); }
	out.caseHash = hashMix(ch, (uint64_t)plan.user(U_VARIANT));
}

#if SEQ_VARIANT == 0
void runVariant0(const Plan & p, RunOut & o) { runCfg<Cfg0>(p, o); }
#elif SEQ_VARIANT == 1
void runVariant1(const Plan & p, RunOut & o) { runCfg<Cfg1>(p, o); }
#elif SEQ_VARIANT == 2
void runVariant2(const Plan & p, RunOut & o) { runCfg<Cfg2>(p, o); }
#elif SEQ_VARIANT == 3
void runVariant3(const Plan & p, RunOut & o) { runCfg<Cfg3>(p, o); }
#elif SEQ_VARIANT == 4
void runVariant4(const Plan & p, RunOut & o) { runCfg<Cfg4>(p, o); }
#elif SEQ_VARIANT == 5
void runVariant5(const Plan & p, RunOut & o) { runCfg<Cfg5>(p, o); }
#elif SEQ_VARIANT == 6
void runVariant6(const Plan & p, RunOut & o) { runCfg<Cfg6>(p, o); }
#elif SEQ_VARIANT == 7
void runVariant7(const Plan & p, RunOut & o) { runCfg<Cfg7>(p, o); }
#elif SEQ_VARIANT == 8
void runVariant8(const Plan & p, RunOut & o) { runCfg<Cfg8>(p, o); }
#elif SEQ_VARIANT == 9
void runVariant9(const Plan & p, RunOut & o) { runCfg<Cfg9>(p, o); }
#elif SEQ_VARIANT == 10
void runVariant10(const Plan & p, RunOut & o) { runCfg<Cfg10>(p, o); }
#elif SEQ_VARIANT == 11
void runVariant11(const Plan & p, RunOut & o) { runCfg<Cfg11>(p, o); }
#elif SEQ_VARIANT == 12
void runVariant12(const Plan & p, RunOut & o) { runCfg<Cfg12>(p, o); }
#elif SEQ_VARIANT == 13
void runVariant13(const Plan & p, RunOut & o) { runCfg<Cfg13>(p, o); }
#elif SEQ_VARIANT == 14
void runVariant14(const Plan & p, RunOut & o) { runCfg<Cfg14>(p, o); }
#endif

} // namespace sd
#endif // SEQ_VARIANT

#if defined(SEQ_MAIN)
namespace sd {
Sink * g_sink = nullptr;
Counters counters;
void runVariant0(const Plan &, RunOut &); void runVariant1(const Plan &, RunOut &); void runVariant2(const Plan &, RunOut &);
void runVariant3(const Plan &, RunOut &); void runVariant4(const Plan &, RunOut &); void runVariant5(const Plan &, RunOut &);
void runVariant6(const Plan &, RunOut &); void runVariant7(const Plan &, RunOut &); void runVariant8(const Plan &, RunOut &); void runVariant9(const Plan &, RunOut &); void runVariant10(const Plan &, RunOut &); void runVariant11(const Plan &, RunOut &); void runVariant12(const Plan &, RunOut &); void runVariant13(const Plan &, RunOut &); void runVariant14(const Plan &, RunOut &);
}

namespace engine {

const char * const kName = "seq_disp";
std::string mode = "c04";

bool wantsPilot(const Plan &) { return false; }

void generate(uint64_t seed, Plan & plan)
{
	using namespace sd;
	Rng rng(seed);
	plan.setSchedSeed(rng.next());
	// mode c05q: the EventQueue instantiations only (the queue engine proper uses int keys and the default getEvent)
	static const int queueCfgs[] = { 10, 13, 14 };
	plan.user(U_VARIANT) = mode == "c05q" ? queueCfgs[rng.below(3)] : (int)rng.below(V_COUNT);
	plan.tasks.assign(1, OpList());
	OpList & ops = plan.tasks[0];
	const int len = mode == "c09" ? 4 + (int)rng.below(8) : 8 + (int)rng.below(28);
	int nextCb = 0;
	std::vector<int> known;
	for(int i = 0; i < len; ++i) {
		const uint32_t r = rng.below(100);
		const int k = (int)rng.below(r < 80 ? 3 : 4);   // key 3 rarely gets listeners
		int slot = MAXSLOT - 1;
		if(!known.empty() && !rng.chance(1, 10)) slot = known[rng.below((uint32_t)known.size())];
		if(r < 32 && nextCb < MAXSLOT - 4) {
			const uint32_t q = rng.below(100);
			const int kind = (int)rng.below(3);
			ops.push_back(Op(q < 45 ? O_APPEND : q < 70 ? O_PREPEND : O_INSERT, nextCb, slot, kind, k));
			known.push_back(nextCb);
			++nextCb;
		}
		else if(r < 44) ops.push_back(Op(O_REMOVE, 0, slot, 0, k));
		else if(r < 48) ops.push_back(Op(O_OWNS, 0, slot, 0, k));
		else if(r < 52) ops.push_back(Op(O_HAS_ANY, 0, 0, 0, k));
		else if(r < 56) ops.push_back(Op(O_FOREACH, 0, 0, 0, k));
		else { const int v = (int)rng.below(2000) - 1000; const int form = (int)rng.below(3); ops.push_back(Op(O_DISPATCH, v, 0, form, k)); }
	}
}

void execute(const Plan & plan, RunOut & out)
{
	const int v = plan.user(sd::U_VARIANT);
	switch(v) {
	case 0: sd::runVariant0(plan, out); break; case 1: sd::runVariant1(plan, out); break; case 2: sd::runVariant2(plan, out); break;
	case 3: sd::runVariant3(plan, out); break; case 4: sd::runVariant4(plan, out); break; case 5: sd::runVariant5(plan, out); break;
	case 7: sd::runVariant7(plan, out); break; case 8: sd::runVariant8(plan, out); break; case 9: sd::runVariant9(plan, out); break; case 10: sd::runVariant10(plan, out); break; case 11: sd::runVariant11(plan, out); break; case 12: sd::runVariant12(plan, out); break; case 13: sd::runVariant13(plan, out); break; case 14: sd::runVariant14(plan, out); break;
	default: sd::runVariant6(plan, out); break;
	}
	++sd::counters.plans;
	if(v >= 0 && v < sd::V_COUNT) ++sd::counters.perVariant[v];
	bool focus = false;
	if(!plan.tasks.empty()) for(size_t i = 0; i < plan.tasks[0].size(); ++i) if(plan.tasks[0][i].k == sd::O_DISPATCH) focus = true;
	out.nontrivial = focus;
}

std::string describe(const Plan & plan)
{
	static const char * vn[] = { "int key/void(int,const string&)/AutoDetect/hashed", "enum key/void(const string&,Payload)/ExcludeEvent", "string key BY VALUE/void(string,Payload)/IncludeEvent",
		"user key with < (std::map)/void(const Key&,int)/AutoDetect", "user key with hash+== (unordered_map, colliding)/void(int,Payload)/ExcludeEvent", "getEvent policy on void(const Ev&)", "int key/explicit std::map/SingleThreading/void(int,Payload)",
		"int key/ExcludeEvent/non-identity getEvent policy (masks bits)", "string key/ExcludeEvent/non-identity getEvent policy (strips suffix)",
		"int key/ExcludeEvent/getEvent policy reading a trailing by-value std::string argument",
		"EventQueue, string key BY VALUE/void(string,Payload)/IncludeEvent: enqueue + process",
		"string key/getEvent policy returning a reference to its second argument",
		"non-owning key referring to the string it was made from/void(string,Payload)/IncludeEvent",
		"EventQueue, int key/ExcludeEvent/getEvent policy taking string and Payload BY VALUE: enqueue + process",
		"EventQueue, int key/IncludeEvent/getEvent policy taking string and Payload BY VALUE: enqueue + process" };
	static const char * names[] = { "?", "append", "prepend", "insert", "remove", "ownsHandle", "hasAny", "forEach", "dispatch" };
	std::ostringstream o;
	const int v = plan.user(sd::U_VARIANT);
	o << (v >= 0 && v < sd::V_COUNT ? vn[v] : "?") << " :";
	if(!plan.tasks.empty()) for(size_t i = 0; i < plan.tasks[0].size(); ++i) {
		const Op & op = plan.tasks[0][i];
		o << " " << (op.k >= 1 && op.k < sd::O_KINDS ? names[op.k] : "?");
		if(op.k <= sd::O_INSERT) { o << "(cb" << op.a << ",kind" << op.c; if(op.k == sd::O_INSERT) o << ",before h" << op.b; o << ")"; }
		else if(op.k == sd::O_REMOVE || op.k == sd::O_OWNS) o << "(h" << op.b << ")";
		else if(op.k == sd::O_DISPATCH) o << "(v" << op.a << ",form" << op.c << ")";
		o << "@k" << (op.d & 3);
	}
	if(!plan.faults.empty()) o << " | faults " << seq::join(plan.faults);
	return o.str();
}

void statsJson(std::string & out)
{
	const sd::Counters & c = sd::counters;
	std::ostringstream o;
	o << ",\"probes\":{\"ops\":" << c.ops << ",\"dispatches\":" << c.dispatches << ",\"listener_calls\":" << c.listenerCalls << ",\"dispatches_with_no_listener\":" << c.dispatchNoListener
	  << ",\"dispatch_form_lvalues\":" << c.formCounts[0] << ",\"dispatch_form_temporaries_or_included\":" << c.formCounts[1] << ",\"dispatch_form_moved_or_included\":" << c.formCounts[2]
	  << ",\"listener_kind_exact\":" << c.kindCounts[0] << ",\"listener_kind_other_param_types\":" << c.kindCounts[1] << ",\"listener_kind_moves_from_argument\":" << c.kindCounts[2] << "}"
	  << ",\"faults\":{\"fault_runs\":" << c.faultRuns << ",\"injected_total\":" << c.faultsInjected << ",\"alloc\":" << c.faultsByKind[F_ALLOC] << ",\"copy\":" << c.faultsByKind[F_COPY]
	  << ",\"move\":" << c.faultsByKind[F_MOVE] << ",\"call\":" << c.faultsByKind[F_CALL] << ",\"compare\":" << c.faultsByKind[F_CMP] << ",\"operations_failed_by_fault\":" << c.opsFailedByFault << "}"
	  << ",\"per_variant\":[";
	for(int i = 0; i < sd::V_COUNT; ++i) o << (i ? "," : "") << c.perVariant[i];
	o << "]";
	out += o.str();
}

} // namespace engine

int main(int argc, char ** argv) { return sim::workerMain(argc, argv); }
#endif
