// Finding 1 (property C07): EventQueue::DisableQueueNotify is a RAII counter guard with an
// implicitly generated copy constructor / copy assignment. A copy does not increment
// queueNotifyCounter, but its destructor decrements it. After "construct, copy, destroy both"
// no DisableQueueNotify object is alive and queueNotifyCounter == -1, so
// doCanProcess() (== !emptyQueue() && queueNotifyCounter == 0) is false for ever:
//   A. enqueue() made with no DisableQueueNotify alive does not notify, and a thread blocked in
//      wait() stays blocked for ever with an event pending; waitFor() returns false with an
//      event pending and notification "enabled".
//   B. while the ORIGINAL object is still alive (and the copy is gone) the counter is 0, so
//      wait() returns although a DisableQueueNotify object is alive during the entire wait.
//   C. the same through an ordinary container of scopes (std::vector growth copies elements).
//
// The Threading policy below only wraps std::condition_variable so that the test knows when the
// waiter is really parked in the condition variable (no sleeps-and-hope) and how many
// notify_one() calls the queue made.

#include <eventpp/eventqueue.h>

#include <atomic>
#include <chrono>
#include <condition_variable>
#include <cstdio>
#include <mutex>
#include <thread>
#include <vector>

namespace {

std::atomic<int> g_parked(0);    // threads currently inside cv.wait / cv.wait_until
std::atomic<int> g_notifies(0);  // notify_one() calls issued by the queue

struct TrackingCV
{
	std::condition_variable cv;

	void notify_one() noexcept { ++g_notifies; cv.notify_one(); }

	template <class Pred>
	void wait(std::unique_lock<std::mutex> & lock, Pred pred)
	{
		while(! pred()) {
			++g_parked;           // still holding the queue mutex; cv.wait releases it atomically
			cv.wait(lock);
			--g_parked;
		}
	}

	template <class Rep, class Period, class Pred>
	bool wait_for(std::unique_lock<std::mutex> & lock, const std::chrono::duration<Rep, Period> & d, Pred pred)
	{
		const auto deadline = std::chrono::steady_clock::now() + d;
		while(! pred()) {
			++g_parked;
			const std::cv_status st = cv.wait_until(lock, deadline);
			--g_parked;
			if(st == std::cv_status::timeout) {
				return pred();
			}
		}
		return true;
	}
};

struct Policies
{
	using Threading = eventpp::GeneralThreading<std::mutex, std::atomic, TrackingCV>;
};

using EQ = eventpp::EventQueue<int, void (int), Policies>;
using DQN = EQ::DisableQueueNotify;

template <typename F>
bool waitUntil(F f, int ms)
{
	const auto deadline = std::chrono::steady_clock::now() + std::chrono::milliseconds(ms);
	while(! f()) {
		if(std::chrono::steady_clock::now() > deadline) {
			return false;
		}
		std::this_thread::yield();
	}
	return true;
}

int failures = 0;

void scenarioA()
{
	EQ queue;
	std::atomic<int> processed(0);
	queue.appendListener(1, [&processed](int) { ++processed; });

	{
		DQN scope(&queue);
		DQN copy(scope);       // e.g. passed by value, captured by value, returned without elision...
	}
	// From here on NO DisableQueueNotify object is alive.

	std::atomic<bool> released(false);
	std::thread waiter([&]() {
		queue.wait();
		released = true;
		while(queue.process()) {}   // a woken consumer drains the queue
	});

	if(! waitUntil([]() { return g_parked.load() == 1; }, 5000)) {
		std::printf("A: setup problem, waiter never parked\n");
	}
	const int notifiesBefore = g_notifies.load();
	queue.enqueue(1, 42);          // notification is enabled: no DisableQueueNotify exists
	const int notifiesByEnqueue = g_notifies.load() - notifiesBefore;

	const bool gotOut = waitUntil([&]() { return released.load(); }, 1500);
	const bool waitForResult = queue.waitFor(std::chrono::milliseconds(200));
	std::printf("A: no DisableQueueNotify alive, emptyQueue()=%d, notify_one calls made by enqueue=%d, "
		"wait() released within 1.5s=%d, waitFor(200ms)=%d\n",
		(int)queue.emptyQueue(), notifiesByEnqueue, (int)gotOut, (int)waitForResult);
	if(! gotOut) {
		std::printf("FAIL A: event pending, no DisableQueueNotify alive, yet the thread in wait() is blocked for ever "
			"(enqueue did not notify and the waiter's predicate is false)\n");
		++failures;
	}
	if(! waitForResult) {
		std::printf("FAIL A: waitFor timed out (returned false) with an event pending and no DisableQueueNotify alive\n");
		++failures;
	}

	// Clean-up only: compensate the counter (-1 -> 0) with an object that is never destroyed, then
	// wake the waiter. That the waiter is released now shows the negative counter was the cause.
	alignas(DQN) static unsigned char leak[sizeof(DQN)];
	new (leak) DQN(&queue);
	queue.enqueue(1, 43);
	const bool rescued = waitUntil([&]() { return released.load(); }, 5000);
	std::printf("A: after compensating the counter by +1 the same waiter is released=%d\n", (int)rescued);
	if(! rescued) {
		std::printf("A: cannot release waiter, aborting\n");
		std::fflush(stdout);
		std::_Exit(3);
	}
	waiter.join();
	std::printf("A: events processed after rescue=%d\n", processed.load());
}

void scenarioB()
{
	EQ queue;
	queue.appendListener(1, [](int) {});

	DQN * outer = new DQN(&queue);   // alive during the entire wait below
	{
		DQN copy(*outer);
	}
	queue.enqueue(1, 1);             // pending event, but notification is disabled by 'outer'

	std::atomic<bool> returned(false);
	std::thread waiter([&]() {
		queue.wait();
		returned = true;
	});
	const bool cameBack = waitUntil([&]() { return returned.load(); }, 500);
	std::printf("B: DisableQueueNotify 'outer' alive for the whole wait, wait() returned=%d\n", (int)cameBack);
	if(cameBack) {
		std::printf("FAIL B: wait() returned although a DisableQueueNotify object was alive during its entire duration\n");
		++failures;
	}
	delete outer;                    // correct library: this is what releases the waiter
	if(! cameBack && ! waitUntil([&]() { return returned.load(); }, 5000)) {
		std::printf("B: waiter stuck, aborting\n");
		std::fflush(stdout);
		std::_Exit(3);
	}
	waiter.join();
}

void scenarioC()
{
	EQ queue;
	queue.appendListener(1, [](int) {});

	{
		std::vector<DQN> scopes;         // "nested scopes" kept in a container
		scopes.emplace_back(&queue);
		scopes.emplace_back(&queue);     // growth copies the first element and destroys the original
	}
	// all DisableQueueNotify objects are gone
	queue.enqueue(1, 1);
	const bool r = queue.waitFor(std::chrono::milliseconds(200));
	std::printf("C: std::vector<DisableQueueNotify> with two elements destroyed, event pending, waitFor(200ms)=%d\n", (int)r);
	if(! r) {
		std::printf("FAIL C: waitFor returned false with an event pending and no DisableQueueNotify alive\n");
		++failures;
	}
}

} // namespace

int main()
{
	scenarioA();
	scenarioB();
	scenarioC();
	if(failures != 0) {
		std::printf("FAIL finding1: %d violation(s) of C07 caused by copying DisableQueueNotify\n", failures);
		return 1;
	}
	std::printf("PASS finding1\n");
	return 0;
}
