// Finding 2 (property C07, clause "waitFor returns false only after its timeout"), boundary value:
// EventQueue::waitFor / HeterEventQueue::waitFor forward the caller's duration unchanged to
// ConditionVariable::wait_for(lock, duration, pred), which the standard defines as
// wait_until(lock, steady_clock::now() + duration, pred). For large durations (the natural
// "wait practically for ever" values such as std::chrono::hours::max(), seconds::max(),
// nanoseconds::max()) now() + duration overflows, the deadline lies in the past, and waitFor
// returns false immediately on an empty queue - centuries before its timeout. A consumer loop
// written as in the documentation (while(! queue.waitFor(d) && ! stop) ;) then spins.
// Default policies, one thread, no other actor.

#include <eventpp/eventqueue.h>
#include <eventpp/hetereventqueue.h>

#include <chrono>
#include <cstdio>

namespace {

int failures = 0;

template <typename Q, typename D>
void check(const char * what, Q & queue, const D & duration)
{
	const auto t0 = std::chrono::steady_clock::now();
	const bool r = queue.waitFor(duration);
	const auto ms = std::chrono::duration_cast<std::chrono::milliseconds>(std::chrono::steady_clock::now() - t0).count();
	const double timeoutSeconds = std::chrono::duration_cast<std::chrono::duration<double> >(duration).count();
	std::printf("%s: timeout=%.3g s, returned %s after %lld ms\n", what, timeoutSeconds, r ? "true" : "false", (long long)ms);
	if(! r && (double)ms / 1000.0 < timeoutSeconds) {
		std::printf("FAIL %s: waitFor returned false long before its timeout elapsed\n", what);
		++failures;
	}
}

} // namespace

int main()
{
	eventpp::EventQueue<int, void (int)> queue;
	eventpp::HeterEventQueue<int, eventpp::HeterTuple<void (int), void ()> > heterQueue;

	// sanity: an ordinary timeout is honoured
	check("EventQueue waitFor(50ms)", queue, std::chrono::milliseconds(50));

	check("EventQueue waitFor(hours::max())", queue, std::chrono::hours::max());
	check("EventQueue waitFor(seconds::max())", queue, std::chrono::seconds::max());
	check("EventQueue waitFor(nanoseconds::max())", queue, std::chrono::nanoseconds::max());
	check("HeterEventQueue waitFor(hours::max())", heterQueue, std::chrono::hours::max());
	check("HeterEventQueue waitFor(nanoseconds::max())", heterQueue, std::chrono::nanoseconds::max());

	// consequence: the documented consumer loop degenerates into a busy loop
	long spins = 0;
	const auto until = std::chrono::steady_clock::now() + std::chrono::milliseconds(100);
	while(! queue.waitFor(std::chrono::hours::max()) && std::chrono::steady_clock::now() < until) {
		++spins;
	}
	std::printf("documented loop 'while(! queue.waitFor(d) && ! stop) ;' with d = hours::max(): %ld iterations in 100 ms\n", spins);

	if(failures != 0) {
		std::printf("FAIL finding2: %d waitFor call(s) returned false before the timeout\n", failures);
		return 1;
	}
	std::printf("PASS finding2\n");
	return 0;
}
