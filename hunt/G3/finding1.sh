#!/bin/sh
# usage: sh finding1.sh <eventpp include dir>
cd "$(dirname "$0")" || exit 2
g++ -std=c++17 -O1 -pthread -I"$1" finding1.cpp -o f1 || exit 2
./f1
rc=$?
rm -f f1
exit $rc
