#include <eventpp/eventqueue.h>
#include <eventpp/utilities/anydata.h>
#include <cstdio>
#include <set>
#include <cstdlib>
static int live = 0; static long ctor=0;
struct Base { int tag; Base(int t):tag(t){++live;++ctor;} Base(const Base&o):tag(o.tag){++live;++ctor;} Base(Base&&o):tag(o.tag){++live;++ctor;} virtual ~Base(){--live;} };
struct Small : Base { Small():Base(1){} };
struct Large : Base { char pad[200]; Large():Base(2){} };
using AD = eventpp::AnyData<32>;
int main(){
  {
    eventpp::EventQueue<int, void(const AD&)> q;
    int calls=0;
    q.appendListener(1,[&](const AD& d){ const Base& b = d.get<Base>(); if(b.tag!=1&&b.tag!=2) abort(); ++calls; if(calls%5==0) throw 1; });
    for(int round=0; round<50; ++round){
      Small s; Large l;
      q.enqueue(1, s); q.enqueue(1, l); q.enqueue(1, Small()); q.enqueue(1, Large());
      const Large cl; q.enqueue(1, cl);
      try { if(round%3==0) q.process(); else if(round%3==1) q.processOne(); else q.processIf([&](const AD& d){ return d.isType<Small>(); }); } catch(int){}
      if(round%7==0){ q.clearEvents(); }
    }
    printf("live with pending=%d\n", live);
    q.clearEvents();
    printf("live after clear=%d\n", live);
    q.enqueue(1, Large()); q.enqueue(1, Small());
  }
  printf("live after destruction=%d ctor=%ld\n", live, ctor);
  return live!=0;
}
