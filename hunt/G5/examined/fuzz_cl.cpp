// Random differential test of CallbackList for C08 / C10 / C19 (single threaded, re-entrant).
#include <eventpp/callbacklist.h>
#include <cstdio>
#include <cstdlib>
#include <map>
#include <memory>
#include <random>
#include <set>
#include <vector>
#include <algorithm>

static void fail(const char * msg);

// ---- ledger -----------------------------------------------------------------
struct Cb;
static std::set<const Cb *> liveCbs;
static long constructed = 0, destroyed = 0;

struct Harness;
static Harness * H;

struct Cb
{
	int id;
	explicit Cb(int id) : id(id) { reg(); }
	Cb(const Cb & o) : id(o.id) { if(! liveCbs.count(&o)) fail("copy from dead Cb"); reg(); }
	Cb & operator = (const Cb & o) { if(! liveCbs.count(&o) || ! liveCbs.count(this)) fail("assign dead Cb"); id = o.id; return *this; }
	~Cb() { if(! liveCbs.erase(this)) fail("double destruction"); ++destroyed; }
	void reg() { if(! liveCbs.insert(this).second) fail("construct over live"); ++constructed; }
	void operator() () const;
};

template <typename T>
struct RegAtomic
{
	RegAtomic() noexcept : value() { last() = this; }
	RegAtomic(T v) noexcept : value(v) { last() = this; }
	void store(T d, std::memory_order = std::memory_order_seq_cst) noexcept { value = d; }
	T load(std::memory_order = std::memory_order_seq_cst) const noexcept { return value; }
	T exchange(T d, std::memory_order = std::memory_order_seq_cst) noexcept { T p = value; value = d; return p; }
	T operator ++ () noexcept { return ++value; }
	T operator -- () noexcept { return --value; }
	RegAtomic & operator = (T v) noexcept { value = v; return *this; }
	T value;
	static RegAtomic * & last() { static RegAtomic * p = nullptr; return p; }
};
struct NullMutex { void lock() {} void unlock() {} };

struct Policies
{
	using Threading = eventpp::GeneralThreading<NullMutex, RegAtomic>;
	using Callback = Cb;
};
using CL = eventpp::CallbackList<void (), Policies>;
using Handle = CL::Handle;

struct Chain
{
	std::vector<int> ids;                 // live ids in order
	std::map<int, Handle> handles;        // every handle ever seen for this chain (also removed ones)
	int nextId = 1;
	int inProgress = 0;
};
using ChainPtr = std::shared_ptr<Chain>;

struct Frame
{
	ChainPtr chain;
	std::set<int> startSet;
	std::vector<int> called;
	bool exempt = false;
	std::set<int> removedDuring;
};

static const int K = 3;
static long statWraps=0, statWrapsNested=0, statInvokes=0, statNestedInvokes=0, statCalls=0, statExemptCalls=0;

struct Harness
{
	std::mt19937 rng;
	CL lists[K];
	RegAtomic<unsigned> * counters[K];
	ChainPtr chains[K];
	std::vector<Frame *> frames;
	long ops = 0;
	int depthLimit = 3;
	long opBudget = 0;

	explicit Harness(unsigned seed) : rng(seed) {
		// lists[] constructed in order, the counters registered in order; recover them
		for(int i = 0; i < K; ++i) chains[i] = std::make_shared<Chain>();
	}

	int rnd(int n) { return (int)(rng() % (unsigned)n); }

	void onCall(int id) {
		if(frames.empty()) fail("callback outside invocation");
		Frame & f = *frames.back();
		Chain & c = *f.chain;
		if(std::find(c.ids.begin(), c.ids.end(), id) == c.ids.end()) fail("called a callback that is not (any more) in the list");
		if(std::find(f.called.begin(), f.called.end(), id) != f.called.end()) fail("called twice in one invocation");
		if(! f.exempt && ! f.startSet.count(id)) fail("called a callback added during the invocation (no wrap)");
		f.called.push_back(id); ++statCalls; if(f.exempt && !f.startSet.count(id)) ++statExemptCalls;
		if((int)frames.size() <= depthLimit && ops < opBudget) {
			int n = rnd(4);
			if(n == 3) n = 0;
			for(int i = 0; i < n; ++i) randomOp();
		}
	}

	void noteWrap(int li, unsigned before) {
		unsigned after = counters[li]->load();
		if(after < before) {
			++statWraps; if(!frames.empty()) ++statWrapsNested;
			for(Frame * f : frames) if(f->chain == chains[li]) f->exempt = true;
		}
	}

	void add(int li, int kind) {
		Chain & c = *chains[li];
		int id = c.nextId++;
		unsigned before = counters[li]->load();
		Handle h;
		if(kind == 0) { h = lists[li].append(Cb(id)); c.ids.push_back(id); }
		else if(kind == 1) { h = lists[li].prepend(Cb(id)); c.ids.insert(c.ids.begin(), id); }
		else {
			Handle before_;
			int beforeId = -1;
			if(! c.handles.empty() && rnd(5) != 0) {
				auto it = c.handles.begin();
				std::advance(it, rnd((int)c.handles.size()));
				before_ = it->second; beforeId = it->first;
			}
			h = lists[li].insert(Cb(id), before_);
			auto pos = std::find(c.ids.begin(), c.ids.end(), beforeId);
			c.ids.insert(pos, id); // pos==end -> append
		}
		c.handles[id] = h;
		noteWrap(li, before);
	}

	void removeOne(int li) {
		Chain & c = *chains[li];
		if(c.handles.empty()) return;
		auto it = c.handles.begin();
		std::advance(it, rnd((int)c.handles.size()));
		int id = it->first;
		bool expected = std::find(c.ids.begin(), c.ids.end(), id) != c.ids.end();
		bool got = lists[li].remove(it->second);
		if(got != expected) fail("remove() result");
		if(expected) {
			c.ids.erase(std::find(c.ids.begin(), c.ids.end(), id));
			for(Frame * f : frames) if(f->chain == chains[li]) f->removedDuring.insert(id);
		}
		if(rnd(3) == 0) c.handles.erase(id);
	}

	void invoke(int li) {
		Frame f;
		++statInvokes; if(!frames.empty()) ++statNestedInvokes;
		f.chain = chains[li];
		f.startSet.insert(f.chain->ids.begin(), f.chain->ids.end());
		frames.push_back(&f);
		++f.chain->inProgress;
		lists[li]();
		--f.chain->inProgress;
		frames.pop_back();
		// completeness: everything live at start and still live now must have been called; in list order
		Chain & c = *f.chain;
		std::vector<int> expectedOrder;
		for(int id : c.ids) {
			if(f.startSet.count(id)) {
				if(std::find(f.called.begin(), f.called.end(), id) == f.called.end()) {
					std::fprintf(stderr, "missing id %d\n", id);
					fail("a callback that was in the list during the whole invocation was not called");
				}
			}
		}
		// order of the called ones that are still live
		std::vector<int> calledLive;
		for(int id : f.called) if(std::find(c.ids.begin(), c.ids.end(), id) != c.ids.end() && f.startSet.count(id)) calledLive.push_back(id);
		std::vector<int> orderLive;
		for(int id : c.ids) if(std::find(calledLive.begin(), calledLive.end(), id) != calledLive.end()) orderLive.push_back(id);
		if(calledLive != orderLive) fail("order");
	}

	void refreshHandles(int li) {
		Chain & c = *chains[li];
		std::vector<int> seen;
		lists[li].forEach([&](const Handle & h, Cb & cb) { c.handles[cb.id] = h; seen.push_back(cb.id); });
		if(frames.empty() && seen != c.ids) fail("forEach content differs from model");
	}

	bool busy(int li) const { return chains[li]->inProgress != 0; }

	void setCounter(int li) {
		unsigned v = 0xFFFFFFFFu - (unsigned)rnd(6);
		// only forward jumps are reachable through the API
		if(v >= counters[li]->load()) counters[li]->store(v);
	}

	void randomOp() {
		++ops;
		int li = rnd(K), lj = rnd(K);
		int r = rnd(100);
		if(r < 30) { if(chains[li]->ids.size() < 7) add(li, rnd(3)); else removeOne(li); }
		else if(r < 50) removeOne(li);
		else if(r < 65) { if((int)frames.size() <= depthLimit) invoke(li); }
		else if(r < 72) { // swap
			if(rnd(2)) lists[li].swap(lists[lj]); else { using std::swap; swap(lists[li], lists[lj]); }
			std::swap(chains[li], chains[lj]);
		}
		else if(r < 78) { // copy assign
			if(! busy(li)) {
				lists[li] = lists[lj];
				if(li != lj) {
					ChainPtr n = std::make_shared<Chain>();
					n->ids = chains[lj]->ids; n->nextId = chains[lj]->nextId;
					chains[li] = n;
					refreshHandles(li);
				}
			}
		}
		else if(r < 84) { // move assign
			if(! busy(li) && li != lj) {
				lists[li] = std::move(lists[lj]);
				chains[li] = chains[lj];
				chains[lj] = std::make_shared<Chain>();
			}
		}
		else if(r < 88) { // copy construct temp, use it, maybe keep it
			if(! busy(li)) {
				CL tmp(lists[lj]);
				RegAtomic<unsigned> * tc = RegAtomic<unsigned>::last();
				(void)tc;
				if(rnd(2)) {
					lists[li].swap(tmp);
					ChainPtr n = std::make_shared<Chain>();
					n->ids = chains[lj]->ids; n->nextId = chains[lj]->nextId;
					chains[li] = n;
					refreshHandles(li);
				}
			}
		}
		else if(r < 92) { // move construct temp and move back into another
			if(! busy(li) && ! busy(lj) && li != lj) {
				CL tmp(std::move(lists[lj]));
				ChainPtr moved = chains[lj];
				chains[lj] = std::make_shared<Chain>();
				lists[li] = std::move(tmp);
				chains[li] = moved;
			}
		}
		else if(r < 97) setCounter(li);
		else refreshHandles(li);

		if(frames.empty()) quiescent();
	}

	void quiescent() {
		size_t expected = 0;
		for(int i = 0; i < K; ++i) expected += chains[i]->ids.size();
		if(liveCbs.size() != expected) {
			std::fprintf(stderr, "live=%zu expected=%zu\n", liveCbs.size(), expected);
			fail("ledger: live callbacks differ from the lists' content at a quiescent point");
		}
	}
};

void Cb::operator() () const
{
	if(! liveCbs.count(this)) fail("invoked a destroyed callback");
	const int myId = id;
	H->onCall(myId);
}

static unsigned currentSeed = 0;
static void fail(const char * msg)
{
	std::printf("FAIL seed=%u ops=%ld: %s\n", currentSeed, H ? H->ops : -1L, msg);
	std::fflush(stdout);
	std::abort();
}

int main(int argc, char ** argv)
{
	unsigned from = argc > 1 ? (unsigned)std::atoi(argv[1]) : 1;
	unsigned to = argc > 2 ? (unsigned)std::atoi(argv[2]) : 200;
	int opsPerSeed = argc > 3 ? std::atoi(argv[3]) : 400;
	for(unsigned seed = from; seed <= to; ++seed) {
		currentSeed = seed;
		{
			// recover counters: construct lists one by one is not possible with array; use placement order
			Harness * h = new Harness(seed);
			H = h;
			// array members are constructed in index order; last() now points to lists[K-1]'s counter.
			// Find the others by constructing knowledge: re-register by swapping trick
			for(int i = 0; i < K; ++i) {
				// Construct a fresh list, its counter is last(); swap-in: swap exchanges values not objects,
				// so instead move-assign into lists[i] does not move the atomic object either.
				// => determine the object address by a marker value.
				h->counters[i] = nullptr;
			}
			// marker approach: append to list i increments exactly its counter
			{
				// we know all counters are 0. Use address arithmetic: atomics are members at the same offset.
				RegAtomic<unsigned> * lastC = RegAtomic<unsigned>::last();
				char * base = reinterpret_cast<char *>(&h->lists[K - 1]);
				std::ptrdiff_t off = reinterpret_cast<char *>(lastC) - base;
				for(int i = 0; i < K; ++i) {
					h->counters[i] = reinterpret_cast<RegAtomic<unsigned> *>(reinterpret_cast<char *>(&h->lists[i]) + off);
				}
				// verify
				for(int i = 0; i < K; ++i) {
					unsigned b = h->counters[i]->load();
					auto hd = h->lists[i].append(Cb(0));
					if(h->counters[i]->load() != b + 1) { std::printf("counter discovery failed\n"); return 3; }
					h->lists[i].remove(hd);
				}
			}
			for(int i = 0; i < opsPerSeed; ++i) { h->opBudget = h->ops + 60; h->randomOp(); }
			delete h;
			H = nullptr;
			if(! liveCbs.empty()) { std::printf("FAIL seed=%u: %zu callbacks leaked after destruction\n", seed, liveCbs.size()); return 1; }
		}
	}
	std::printf("wraps=%ld nestedWraps=%ld invokes=%ld nestedInvokes=%ld calls=%ld exemptCalls=%ld\n", statWraps, statWrapsNested, statInvokes, statNestedInvokes, statCalls, statExemptCalls);
	std::printf("fuzz_cl ok seeds %u..%u constructed=%ld destroyed=%ld\n", from, to, constructed, destroyed);
	return 0;
}
