#include <eventpp/eventqueue.h>
#include <eventpp/hetereventqueue.h>
#include <cstdio>
#include <cstring>
#include <new>
#include <chrono>
struct SP { using Threading = eventpp::SingleThreading; };
template <typename Q> bool wf(Q&q, std::true_type){ return q.waitFor(std::chrono::milliseconds(1)); }
template <typename Q> bool wf(Q&q, std::false_type){ return !q.emptyQueue(); }
template <typename Q, typename Enq>
int testQ(const char* name, Enq enq, unsigned char fill){
  int bad=0;
  alignas(64) static unsigned char buf[3][sizeof(Q)+64];
  for(auto&b:buf) std::memset(b, fill, sizeof(b));
  Q* src = new (buf[0]) Q();
  int calls=0;
  src->appendListener(1, [&](int){++calls;});
  enq(*src); // pending in the source
  Q* cp = new (buf[1]) Q(*src);
  if(!cp->emptyQueue()) { printf("%s copy not empty\n",name); ++bad; }
  if(wf(*cp, std::is_same<typename Q::Mutex,std::mutex>())) { printf("%s copy waitFor true on empty\n",name); ++bad; }
  if(cp->process()) { printf("%s copy processed something\n",name); ++bad; }
  enq(*cp);
  if(cp->emptyQueue()) { printf("%s copy empty after enqueue\n",name); ++bad; }
  if(!wf(*cp, std::is_same<typename Q::Mutex,std::mutex>())) { printf("%s copy waitFor false\n",name); ++bad; }
  calls=0; cp->process(); if(calls!=1){ printf("%s copy calls=%d\n",name,calls); ++bad; }
  if(!cp->emptyQueue()) { printf("%s copy not empty after process\n",name); ++bad; }
  Q* mv = new (buf[2]) Q(std::move(*cp));
  if(!mv->emptyQueue()) { printf("%s moved not empty\n",name); ++bad; }
  enq(*mv); calls=0; mv->process(); if(calls!=1){ printf("%s moved calls=%d\n",name,calls); ++bad; }
  if(!mv->emptyQueue()) { printf("%s moved not empty after process\n",name); ++bad; }
  // source still has its event
  calls=0; src->process(); if(calls!=1){ printf("%s src calls=%d\n",name,calls); ++bad; }
  // moved-from usable
  cp->appendListener(1,[&](int){++calls;}); enq(*cp); calls=0; cp->process(); if(calls!=1){ printf("%s movedfrom calls=%d\n",name,calls); ++bad; }
  mv->~Q(); cp->~Q(); src->~Q();
  return bad;
}
int main(){
  int bad=0;
  for(unsigned char fill : {0x00, 0xFF, 0xA5, 0x01}) {
    bad += testQ<eventpp::EventQueue<int, void(int)>>("homo", [](eventpp::EventQueue<int, void(int)>&q){ q.enqueue(1, 5); }, fill);
    bad += testQ<eventpp::EventQueue<int, void(int), SP>>("homoS", [](eventpp::EventQueue<int, void(int), SP>&q){ q.enqueue(1, 5); }, fill);
    bad += testQ<eventpp::HeterEventQueue<int, eventpp::HeterTuple<void(int)>>>("heter", [](eventpp::HeterEventQueue<int, eventpp::HeterTuple<void(int)>>&q){ q.enqueue(1, 5); }, fill);
    bad += testQ<eventpp::HeterEventQueue<int, eventpp::HeterTuple<void(int)>, SP>>("heterS", [](eventpp::HeterEventQueue<int, eventpp::HeterTuple<void(int)>, SP>&q){ q.enqueue(1, 5); }, fill);
  }
  printf("bad=%d\n",bad); return bad!=0;
}
