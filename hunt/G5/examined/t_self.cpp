#include <eventpp/eventqueue.h>
#include <eventpp/hetereventqueue.h>
#include <eventpp/mixins/mixinfilter.h>
#include <eventpp/mixins/mixinheterfilter.h>
#include <cstdio>
#include <string>
struct FP { using Mixins = eventpp::MixinList<eventpp::MixinFilter>; };
struct HFP { using Mixins = eventpp::MixinList<eventpp::MixinHeterFilter>; };
struct MapP { template <typename K, typename V> using Map = std::map<K,V>; using Mixins = eventpp::MixinList<eventpp::MixinFilter>; };
std::string lg; int bad=0;
void ck(const char*w,const std::string&e){ if(lg!=e){printf("BAD %s: '%s' expected '%s'\n",w,lg.c_str(),e.c_str());++bad;} lg.clear(); }
template<class D> void homo(const char*n){
  D d; d.appendListener(1,[](int){lg+="L1;";}); d.appendListener(1,[](int){lg+="L2;";}); d.appendListener(2,[](int){lg+="M;";}); d.appendFilter([](int&){lg+="F;";return true;});
  D& r=d; d = r; d.dispatch(1); ck(n,"F;L1;L2;");
  d.swap(r); d.dispatch(1); ck(n,"F;L1;L2;"); d.dispatch(2); ck(n,"F;M;");
  // self assign inside a listener
  bool once=true; d.appendListener(3,[&](int){ lg+="S;"; if(once){once=false; D& rr=d; d=rr; d.swap(rr);} }); d.appendListener(3,[](int){lg+="T;";});
  d.dispatch(3); ck(n,"F;S;T;"); d.dispatch(3); ck(n,"F;S;T;");
}
int main(){
  homo<eventpp::EventDispatcher<int,void(int),FP>>("ED");
  homo<eventpp::EventDispatcher<int,void(int),MapP>>("EDmap");
  homo<eventpp::EventQueue<int,void(int),FP>>("EQ");
  { using D=eventpp::HeterEventDispatcher<int,eventpp::HeterTuple<void(int),void()>,HFP>; D d; d.appendListener(1,[](int){lg+="L1;";}); d.appendListener(1,[](){lg+="V;";}); d.appendFilter([](int&){lg+="F;";return true;});
    D& r=d; d=r; d.swap(r); using std::swap; swap(d,r); d.dispatch(1,3); ck("HED","F;L1;"); d.dispatch(1); ck("HED","V;"); }
  { using C=eventpp::HeterCallbackList<eventpp::HeterTuple<void(int),void()>>; C c; c.append([](int){lg+="a;";}); c.append([](){lg+="b;";}); C&r=c; c=r; c.swap(r); swap(c,r); c(1); c(); ck("HCL","a;b;"); }
  { using C=eventpp::CallbackList<void()>; C c; c.append([](){lg+="a;";}); c.append([](){lg+="b;";}); C&r=c; c=r; c.swap(r); swap(c,r); c = std::move(r); c(); ck("CL","a;b;"); }
  printf("bad=%d\n",bad); return bad;
}
