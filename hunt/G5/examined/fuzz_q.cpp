// Random ledger test of EventQueue / HeterEventQueue for C08 (and some C10), single threaded, with exceptions.
#include <eventpp/eventqueue.h>
#include <eventpp/hetereventqueue.h>
#include <eventpp/utilities/orderedqueuelist.h>
#include <cstdio>
#include <cstdlib>
#include <random>
#include <set>
#include <string>
#include <vector>

static unsigned currentSeed = 0;
static long ops = 0;
static void fail(const char * msg)
{
	std::printf("FAIL seed=%u ops=%ld: %s\n", currentSeed, ops, msg);
	std::fflush(stdout);
	std::abort();
}

static std::mt19937 rng;
static int rnd(int n) { return (int)(rng() % (unsigned)n); }
static int throwPermille = 0;
struct Boom {};
static void maybeThrow() { if(throwPermille > 0 && rnd(1000) < throwPermille) throw Boom(); }

template <int Tag>
struct Payload
{
	static std::set<const Payload *> & live() { static std::set<const Payload *> s; return s; }
	int v;
	char pad[Tag * 24 + 1];
	explicit Payload(int v) : v(v) { reg(); }
	Payload(const Payload & o) : v(o.v) { if(! live().count(&o)) fail("copy from dead"); maybeThrow(); reg(); }
	Payload(Payload && o) : v(o.v) { if(! live().count(&o)) fail("move from dead"); maybeThrow(); o.v = -1; reg(); }
	Payload & operator = (const Payload & o) { if(! live().count(&o) || ! live().count(this)) fail("assign dead"); v = o.v; return *this; }
	Payload & operator = (Payload && o) { if(! live().count(&o) || ! live().count(this)) fail("move assign dead"); v = o.v; o.v = -1; return *this; }
	~Payload() { if(! live().erase(this)) fail("double destruction of payload"); }
	void reg() { if(! live().insert(this).second) fail("constructed over live payload"); }
	void touch() const { if(! live().count(this)) fail("dead payload passed to listener"); }
};
using P1 = Payload<1>;
using P2 = Payload<2>;
static size_t liveAll() { return P1::live().size() + P2::live().size(); }

struct OrderedPolicies {
	template <typename Item> using QueueList = eventpp::OrderedQueueList<Item>;
};
struct SinglePolicies {
	using Threading = eventpp::SingleThreading;
};

template <typename Q>
struct HomoDriver
{
	std::vector<Q *> qs;
	int depth = 0;
	long budget = 0;

	HomoDriver() {
		for(int i = 0; i < 2; ++i) { qs.push_back(new Q()); attach(*qs.back()); }
	}
	~HomoDriver() { for(Q * q : qs) delete q; }

	void attach(Q & q) {
		for(int e = 0; e < 3; ++e) {
			q.appendListener(e, [this](const P1 & a, P2 b) {
				a.touch(); b.touch();
				nested();
				maybeThrow();
			});
		}
	}

	void nested() {
		if(depth < 3 && ops < budget) {
			int n = rnd(3);
			for(int i = 0; i < n; ++i) op();
		}
	}

	void op() {
		++ops;
		++depth;
		Q & q = *qs[rnd((int)qs.size())];
		int r = rnd(100);
		try {
			if(r < 35) {
				int e = rnd(3);
				if(rnd(2)) { P1 a(e); P2 b(e); q.enqueue(e, a, b); }
				else q.enqueue(e, P1(e), P2(e));
			}
			else if(r < 45) q.process();
			else if(r < 55) q.processOne();
			else if(r < 65) q.processIf([this](const P1 & a, const P2 & b) { a.touch(); b.touch(); maybeThrow(); return rnd(2) == 0; });
			else if(r < 72) q.processUntil([this](const P1 & a, const P2 & b) { a.touch(); b.touch(); maybeThrow(); return rnd(3) == 0; });
			else if(r < 78) { typename Q::QueuedEvent ev{0, std::tuple<P1, P2>(P1(0), P2(0))}; if(q.takeEvent(&ev)) { std::get<0>(ev.arguments).touch(); if(rnd(2)) q.dispatch(ev); } }
			else if(r < 84) { typename Q::QueuedEvent ev{0, std::tuple<P1, P2>(P1(0), P2(0))}; if(q.peekEvent(&ev)) { std::get<1>(ev.arguments).touch(); } }
			else if(r < 88) q.clearEvents();
			else if(r < 91) { Q copy(q); if(! copy.emptyQueue()) fail("copy not empty"); copy.enqueue(1, P1(1), P2(1)); if(copy.emptyQueue()) fail("copy empty after enqueue"); if(rnd(2)) copy.process(); }
			else if(r < 94) { if(depth == 1) { Q moved(std::move(q)); if(! moved.emptyQueue()) fail("moved not empty"); moved.enqueue(1, P1(1), P2(1)); moved.process(); q = std::move(moved); } }
			else if(r < 97) { if(depth == 1) { Q & o = *qs[rnd((int)qs.size())]; q = o; } }
			else { q.dispatch(rnd(3), P1(5), P2(5)); }
		}
		catch(const Boom &) {
		}
		--depth;
	}

	void quiesce() {
		const int saved = throwPermille;
		throwPermille = 0;
		for(Q * q : qs) {
			q->clearEvents();
			if(! q->emptyQueue()) fail("not empty after clearEvents");
		}
		if(liveAll() != 0) { std::printf("live=%zu\n", liveAll()); fail("payloads alive after clearEvents at a quiescent point"); }
		throwPermille = saved;
	}
};

template <typename Q>
struct HeterDriver
{
	std::vector<Q *> qs;
	int depth = 0;
	long budget = 0;

	HeterDriver() {
		for(int i = 0; i < 2; ++i) { qs.push_back(new Q()); attach(*qs.back()); }
	}
	~HeterDriver() { for(Q * q : qs) delete q; }

	void attach(Q & q) {
		for(int e = 0; e < 3; ++e) {
			q.appendListener(e, [this](const P1 & a) { a.touch(); nested(); maybeThrow(); });
			q.appendListener(e, [this](const P2 & a, int) { a.touch(); nested(); maybeThrow(); });
		}
	}
	void nested() {
		if(depth < 3 && ops < budget) {
			int n = rnd(3);
			for(int i = 0; i < n; ++i) op();
		}
	}
	void op() {
		++ops;
		++depth;
		Q & q = *qs[rnd((int)qs.size())];
		int r = rnd(100);
		try {
			if(r < 20) { q.enqueue(rnd(3), P1(1)); }
			else if(r < 40) { P2 b(2); q.enqueue(rnd(3), b, 7); }
			else if(r < 52) q.process();
			else if(r < 62) q.processOne();
			else if(r < 70) q.processIf([this](const P1 & a) { a.touch(); maybeThrow(); return rnd(2) == 0; });
			else if(r < 78) q.processIf([this](const P2 & a, int) { a.touch(); maybeThrow(); return rnd(2) == 0; });
			else if(r < 84) q.clearEvents();
			else if(r < 88) { Q copy(q); if(! copy.emptyQueue()) fail("copy not empty"); copy.enqueue(1, P1(1)); if(copy.emptyQueue()) fail("copy empty after enqueue"); if(rnd(2)) copy.process(); }
			else if(r < 92) { if(depth == 1) { Q moved(std::move(q)); if(! moved.emptyQueue()) fail("moved not empty"); moved.enqueue(1, P1(1)); moved.process(); q = std::move(moved); } }
			else if(r < 96) { if(depth == 1) { Q & o = *qs[rnd((int)qs.size())]; q = o; } }
			else { q.dispatch(rnd(3), P1(5)); }
		}
		catch(const Boom &) {
		}
		--depth;
	}
	void quiesce() {
		const int saved = throwPermille;
		throwPermille = 0;
		for(Q * q : qs) {
			q->clearEvents();
			if(! q->emptyQueue()) fail("not empty after clearEvents");
		}
		if(liveAll() != 0) { std::printf("live=%zu\n", liveAll()); fail("payloads alive after clearEvents at a quiescent point"); }
		throwPermille = saved;
	}
};

template <typename Driver>
void run(const char * name, unsigned from, unsigned to, int opsPerSeed)
{
	for(unsigned seed = from; seed <= to; ++seed) {
		currentSeed = seed;
		rng.seed(seed);
		throwPermille = (seed % 3 == 0) ? 0 : 40;
		ops = 0;
		{
			Driver d;
			for(int i = 0; i < opsPerSeed; ++i) {
				d.budget = ops + 40;
				d.op();
				if(rnd(10) == 0) d.quiesce();
			}
			// leave events in the queues on purpose: destruction must release them
			throwPermille = 0;
		}
		if(liveAll() != 0) { std::printf("live=%zu\n", liveAll()); fail("payloads leaked after destruction"); }
	}
	std::printf("%s ok\n", name);
}

int main(int argc, char ** argv)
{
	unsigned from = argc > 1 ? (unsigned)std::atoi(argv[1]) : 1;
	unsigned to = argc > 2 ? (unsigned)std::atoi(argv[2]) : 500;
	int n = argc > 3 ? std::atoi(argv[3]) : 300;
	run<HomoDriver<eventpp::EventQueue<int, void (const P1 &, P2)> > >("homo default", from, to, n);
	run<HomoDriver<eventpp::EventQueue<int, void (const P1 &, P2), SinglePolicies> > >("homo single", from, to, n);
	run<HomoDriver<eventpp::EventQueue<int, void (const P1 &, P2), OrderedPolicies> > >("homo ordered", from, to, n);
	run<HeterDriver<eventpp::HeterEventQueue<int, eventpp::HeterTuple<void (const P1 &), void (const P2 &, int)> > > >("heter default", from, to, n);
	return 0;
}
