#include <eventpp/callbacklist.h>
#include <eventpp/hetercallbacklist.h>
#include <eventpp/eventdispatcher.h>
#include <cstdio>
static int live=0; static int countdown=-1;
struct Cb { Cb(){++live;} Cb(const Cb&){ if(countdown>=0 && countdown--==0) throw 1; ++live;} ~Cb(){--live;} void operator()() const {} void operator()(int) const {} };
struct P { using Callback = Cb; };
int main(){
  int bad=0;
  for(int k=0;k<12;++k){
    { eventpp::CallbackList<void(), P> a; for(int i=0;i<4;++i) a.append(Cb());
      countdown=k; try { eventpp::CallbackList<void(), P> b(a); b.append(Cb()); eventpp::CallbackList<void(), P> c; c.append(Cb()); c = a; c(); } catch(int){} countdown=-1; a(); }
    if(live!=0){ printf("CL leak k=%d live=%d\n",k,live); ++bad; live=0; }
    { eventpp::HeterCallbackList<eventpp::HeterTuple<void(), void(int)>> a; for(int i=0;i<3;++i) a.append(Cb());
      a.append(std::function<void(int)>(Cb()));
      countdown=k; try { auto b(a); b(); b(1); decltype(a) c; c.append(Cb()); c = a; } catch(int){} countdown=-1; a(); a(2); }
    if(live!=0){ printf("HCL leak k=%d live=%d\n",k,live); ++bad; live=0; }
    { eventpp::EventDispatcher<int, void(), P> a; for(int i=0;i<4;++i) a.appendListener(i%2, Cb());
      countdown=k; try { auto b(a); b.dispatch(1); decltype(a) c; c.appendListener(0,Cb()); c.appendListener(5,Cb()); c = a; c.dispatch(0);} catch(int){} countdown=-1; a.dispatch(0); }
    if(live!=0){ printf("ED leak k=%d live=%d\n",k,live); ++bad; live=0; }
  }
  printf("bad=%d\n",bad); return bad;
}
