// Finding 2 (C19): the generation counter is drawn (and wrapped) OUTSIDE the critical section that
// links the node / that traversals synchronise with. Around the wrap this
//   (a) loses a callback for good: it is in the list (ownsHandle, remove find it), but no later
//       invocation and no forEach ever reaches it;
//   (b) makes an invocation that runs while the wrap is being handled call NOTHING;
//   (c) shows (a) once more without any second thread: the nested append is issued from the
//       callback's copy constructor, which the library runs between drawing the generation and
//       linking the node.
//
// (a) and (b): the interleavings are forced with a custom Threading policy (eventpp::GeneralThreading
// with a parking Mutex and a registering Atomic), no sleeps: the Mutex parks one chosen thread at its
// next lock() until the main thread has done its part. All waits are bounded.
//
// The counter is brought close to its maximum through the Atomic policy object (the library's own
// member, reached through the user-supplied Atomic type). That is exactly the state a list is in
// after 2^32-3 append()/remove() pairs; build with -DREAL_WRAP to reach it through the public API
// instead (same output, about 17 minutes with -O2).

#include <eventpp/callbacklist.h>

#include <atomic>
#include <chrono>
#include <condition_variable>
#include <functional>
#include <iostream>
#include <mutex>
#include <string>
#include <thread>
#include <vector>

namespace {

thread_local int myThreadId = 0;            // 0 = main thread
std::atomic<int> parkRequestFor(0);         // thread id that has to park at its next lock()
std::atomic<bool> parked(false);            // the chosen thread is parked (it does not hold the mutex)
std::atomic<bool> release(false);           // main thread lets the parked thread go on

bool waitFlag(const std::atomic<bool> & flag, const int milliseconds = 10000)
{
	const auto deadline = std::chrono::steady_clock::now() + std::chrono::milliseconds(milliseconds);
	while(! flag.load()) {
		if(std::chrono::steady_clock::now() > deadline) {
			return false;
		}
		std::this_thread::yield();
	}
	return true;
}

struct ParkingMutex
{
	void lock() {
		int expected = myThreadId;
		if(myThreadId != 0 && parkRequestFor.compare_exchange_strong(expected, 0)) {
			parked.store(true);
			if(! waitFlag(release, 20000)) {
				std::cout << "INCONCLUSIVE: parked thread was never released" << std::endl;
			}
		}
		mutex.lock();
	}
	void unlock() {
		mutex.unlock();
	}
	std::mutex mutex;
};

template <typename T>
struct RegisteringAtomic : public std::atomic<T>
{
	RegisteringAtomic() noexcept : std::atomic<T>() { last() = this; }
	RegisteringAtomic(T value) noexcept : std::atomic<T>(value) { last() = this; }
	using std::atomic<T>::operator =;
	static RegisteringAtomic * & last() { static RegisteringAtomic * p = nullptr; return p; }
};

struct Policies
{
	using Threading = eventpp::GeneralThreading<ParkingMutex, RegisteringAtomic>;
};

using CL = eventpp::CallbackList<void (), Policies>;

// Puts the generation counter of the (empty) list to `value`.
void placeCounter(CL & list, RegisteringAtomic<unsigned int> * counter, const unsigned int value)
{
#ifdef REAL_WRAP
	(void)counter;
	for(unsigned int i = 0; i < value; ++i) {
		list.remove(list.append([]() {}));
	}
#else
	(void)list;
	counter->store(value);
#endif
}

int failures = 0;

void check(const std::string & what, const std::string & observed, const std::string & expected)
{
	if(observed != expected) {
		++failures;
		std::cout << "FAIL " << what << ": observed \"" << observed << "\" expected \"" << expected << "\"" << std::endl;
	}
	else {
		std::cout << "ok   " << what << ": \"" << observed << "\"" << std::endl;
	}
}

// (a) A callback whose counter was drawn before the wrap and which is linked after it --------
int scenarioLostCallback()
{
	std::string log;
	CL list;
	RegisteringAtomic<unsigned int> * counter = RegisteringAtomic<unsigned int>::last();
	placeCounter(list, counter, 0xFFFFFFFDu);

	list.append([&log]() { log += "A;"; });           // generation 0xFFFFFFFE

	parked = false; release = false;
	CL::Handle handleB;
	parkRequestFor = 1;
	std::thread t1([&]() {
		myThreadId = 1;
		// draws generation 0xFFFFFFFF, allocates the node, then parks in front of append's lock_guard
		handleB = list.append([&log]() { log += "B;"; });
	});
	if(! waitFlag(parked)) {
		std::cout << "INCONCLUSIVE: thread 1 did not reach the mutex" << std::endl;
		release = true; t1.join();
		return 2;
	}

	// Main thread: this append wraps the counter; every linked node (only A) is reset to generation 1,
	// C gets generation 1, currentCounter == 1.
	list.append([&log]() { log += "C;"; });

	release = true;          // thread 1 now links B, which still carries generation 0xFFFFFFFF
	t1.join();

	std::cout << "(a) currentCounter after the wrap = " << counter->load() << std::endl;
	check("(a) B is in the list (ownsHandle)", list.ownsHandle(handleB) ? "yes" : "no", "yes");

	for(int i = 1; i <= 3; ++i) {
		log.clear();
		list();
		check("(a) invocation #" + std::to_string(i) + " after all appends returned", log, "A;C;B;");
	}

	list.append([&log]() { log += "D;"; });
	log.clear();
	list();
	check("(a) invocation after one more append", log, "A;C;B;D;");

	int visited = 0;
	list.forEach([&visited](CL::Callback &) { ++visited; });
	check("(a) forEach visits", std::to_string(visited), "4");

	check("(a) remove(handleB) finds it", list.remove(handleB) ? "removed" : "not found", "removed");
	return 0;
}

// (b) An invocation that starts while another thread is between "counter became 0" and the reset ---
int scenarioEmptyInvocation()
{
	std::string log;
	CL list;
	RegisteringAtomic<unsigned int> * counter = RegisteringAtomic<unsigned int>::last();
	placeCounter(list, counter, 0xFFFFFFFDu);

	list.append([&log]() { log += "A;"; });           // generation 0xFFFFFFFE
	list.append([&log]() { log += "B;"; });           // generation 0xFFFFFFFF

	log.clear();
	list();
	check("(b) invocation before the wrap", log, "A;B;");

	parked = false; release = false;
	parkRequestFor = 2;
	std::thread t2([&]() {
		myThreadId = 2;
		// ++currentCounter gives 0; parks in front of the lock_guard of the wrap handling in getNextCounter
		list.append([&log]() { log += "C;"; });
	});
	if(! waitFlag(parked)) {
		std::cout << "INCONCLUSIVE: thread 2 did not reach the mutex" << std::endl;
		release = true; t2.join();
		return 2;
	}

	std::cout << "(b) currentCounter while thread 2 is parked = " << counter->load() << std::endl;
	log.clear();
	list();                  // A and B have been in the list all the time
	check("(b) invocation while the append that wraps is in progress", log, "A;B;");
	check("(b) list.empty() at that moment", list.empty() ? "empty" : "not empty", "not empty");

	release = true;
	t2.join();

	log.clear();
	list();
	check("(b) invocation after the append returned", log, "A;B;C;");
	return 0;
}


// (c) The same window without any second thread: the library copies the callback (user code: the
// callback's copy constructor) after it drew the generation and before it links the node. If that
// copy constructor registers something in the same list and this inner append is the one that wraps,
// the outer callback is linked with its pre-wrap generation and is lost exactly as in (a).
struct SelfRegistering
{
	CL * list;
	std::string * log;
	bool * armed;

	SelfRegistering(CL * list, std::string * log, bool * armed) : list(list), log(log), armed(armed) {}
	SelfRegistering(const SelfRegistering & other) : list(other.list), log(other.log), armed(other.armed) {
		if(*armed) {
			*armed = false;
			std::string * l = log;
			list->append([l]() { *l += "C;"; });
		}
	}
	void operator() () const { *log += "B;"; }
};

int scenarioSingleThreaded()
{
	std::string log;
	bool armed = false;
	CL list;
	RegisteringAtomic<unsigned int> * counter = RegisteringAtomic<unsigned int>::last();
	placeCounter(list, counter, 0xFFFFFFFDu);

	list.append([&log]() { log += "A;"; });                     // generation 0xFFFFFFFE
	const CL::Callback callbackB(SelfRegistering(&list, &log, &armed));
	armed = true;                                                // the next copy of B appends C
	const CL::Handle handleB = list.append(callbackB);           // draws 0xFFFFFFFF, copy appends C (wrap), B linked
	check("(c) the copy constructor ran inside append", armed ? "no" : "yes", "yes");
	check("(c) B is in the list (ownsHandle)", list.ownsHandle(handleB) ? "yes" : "no", "yes");

	for(int i = 1; i <= 2; ++i) {
		log.clear();
		list();
		check("(c) invocation #" + std::to_string(i), log, "A;C;B;");
	}
	return 0;
}

} // namespace

int main()
{
	const int a = scenarioLostCallback();
	const int b = scenarioEmptyInvocation();
	scenarioSingleThreaded();
	if(a == 2 || b == 2) {
		return 2;
	}
	if(failures != 0) {
		std::cout << "FAIL finding2: generation-counter wrap lost / skipped callbacks (" << failures << " checks)" << std::endl;
		return 1;
	}
	std::cout << "PASS finding2" << std::endl;
	return 0;
}
