// Finding 1 (C10): swap() of a dispatcher exchanges the listeners but NOT the filters.
//
// EventDispatcher / HeterEventDispatcher (and the swap() member inherited by EventQueue /
// HeterEventQueue) with the MixinFilter / MixinHeterFilter mixin: copy construction, copy assignment,
// move construction and move assignment all carry the filters along with the listeners, but
// swap() only exchanges eventCallbackListMap. After swap(a, b) object a dispatches b's listeners
// behind a's OWN filters, i.e. the result is neither "a" nor "b" but a mixture.
//
// Single threaded, deterministic.

#include <eventpp/eventdispatcher.h>
#include <eventpp/hetereventdispatcher.h>
#include <eventpp/eventqueue.h>
#include <eventpp/mixins/mixinfilter.h>
#include <eventpp/mixins/mixinheterfilter.h>

#include <iostream>
#include <string>

static int failures = 0;

static void check(const char * what, const std::string & observed, const std::string & expected)
{
	if(observed != expected) {
		++failures;
		std::cout << "FAIL " << what << ": observed \"" << observed << "\" expected \"" << expected << "\"" << std::endl;
	}
	else {
		std::cout << "ok   " << what << ": \"" << observed << "\"" << std::endl;
	}
}

struct HomoPolicies {
	using Mixins = eventpp::MixinList<eventpp::MixinFilter>;
};
struct HeterPolicies {
	using Mixins = eventpp::MixinList<eventpp::MixinHeterFilter>;
};

template <typename D>
static void fillHomo(D & d, const std::string & name, std::string & log, const bool pass)
{
	d.appendListener(1, [&log, name](int) { log += "L" + name + ";"; });
	d.appendFilter([&log, name, pass](int &) -> bool { log += "F" + name + ";"; return pass; });
}

int main()
{
	std::string log;

	// 1. homogeneous EventDispatcher, ADL swap (the friend function) --------------------------
	{
		using D = eventpp::EventDispatcher<int, void (int), HomoPolicies>;
		D a, b;
		fillHomo(a, "a", log, true);
		fillHomo(b, "b", log, true);

		using std::swap;
		swap(a, b);

		log.clear(); a.dispatch(1);
		check("EventDispatcher: a after swap(a,b)", log, "Fb;Lb;");
		log.clear(); b.dispatch(1);
		check("EventDispatcher: b after swap(a,b)", log, "Fa;La;");
	}

	// 2. a blocking filter stays behind: the listeners of b become unreachable in a ------------
	{
		using D = eventpp::EventDispatcher<int, void (int), HomoPolicies>;
		D a, b;
		fillHomo(a, "a", log, false); // a's filter rejects every event
		fillHomo(b, "b", log, true);

		a.swap(b);

		log.clear(); a.dispatch(1);
		check("EventDispatcher: a after a.swap(b), a's old filter rejects", log, "Fb;Lb;");
		log.clear(); b.dispatch(1);
		check("EventDispatcher: b after a.swap(b), a's old filter rejects", log, "Fa;");
	}

	// 2b. b has no filter at all: after the swap a is not "like a freshly built dispatcher with b's
	//     listeners" (they are blocked by a filter b never had), and a's listener lost its filter.
	{
		using D = eventpp::EventDispatcher<int, void (int), HomoPolicies>;
		D a, b;
		fillHomo(a, "a", log, false); // a's filter rejects every event
		b.appendListener(1, [&log](int) { log += "Lb;"; });

		a.swap(b);

		log.clear(); a.dispatch(1);
		check("EventDispatcher: a after a.swap(b), b never had a filter", log, "Lb;");
		log.clear(); b.dispatch(1);
		check("EventDispatcher: b after a.swap(b), b never had a filter", log, "Fa;");
	}

	// 3. reference: the same exchange spelled with moves does carry the filters ----------------
	{
		using D = eventpp::EventDispatcher<int, void (int), HomoPolicies>;
		D a, b;
		fillHomo(a, "a", log, true);
		fillHomo(b, "b", log, true);

		D tmp(std::move(a));
		a = std::move(b);
		b = std::move(tmp);

		log.clear(); a.dispatch(1);
		check("EventDispatcher: a after exchange by moves (reference)", log, "Fb;Lb;");
		log.clear(); b.dispatch(1);
		check("EventDispatcher: b after exchange by moves (reference)", log, "Fa;La;");
	}

	// 4. EventQueue inherits the same swap() member ---------------------------------------------
	{
		using Q = eventpp::EventQueue<int, void (int), HomoPolicies>;
		Q a, b;
		fillHomo(a, "a", log, true);
		fillHomo(b, "b", log, true);

		a.swap(b);

		log.clear(); a.enqueue(1, 0); a.process();
		check("EventQueue: a after a.swap(b)", log, "Fb;Lb;");
		log.clear(); b.enqueue(1, 0); b.process();
		check("EventQueue: b after a.swap(b)", log, "Fa;La;");
	}

	// 5. heterogeneous dispatcher ---------------------------------------------------------------
	{
		using D = eventpp::HeterEventDispatcher<int, eventpp::HeterTuple<void (int)>, HeterPolicies>;
		D a, b;
		a.appendListener(1, [&log](int) { log += "La;"; });
		a.appendFilter([&log](int &) -> bool { log += "Fa;"; return true; });
		b.appendListener(1, [&log](int) { log += "Lb;"; });
		b.appendFilter([&log](int &) -> bool { log += "Fb;"; return true; });

		using std::swap;
		swap(a, b);

		log.clear(); a.dispatch(1, 5);
		check("HeterEventDispatcher: a after swap(a,b)", log, "Fb;Lb;");
		log.clear(); b.dispatch(1, 5);
		check("HeterEventDispatcher: b after swap(a,b)", log, "Fa;La;");
	}

	if(failures != 0) {
		std::cout << "FAIL finding1: swap() exchanged the listeners but left the filters behind (" << failures << " checks)" << std::endl;
		return 1;
	}
	std::cout << "PASS finding1" << std::endl;
	return 0;
}
