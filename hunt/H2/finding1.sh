#!/bin/sh
# usage: finding1.sh <eventpp include dir>
INC="${1:-/tmp/mut/H2/include}"
DIR="$(cd "$(dirname "$0")" && pwd)"
CXX="${CXX:-g++}"
rc=0
for STD in c++11 c++17; do
	echo "== $CXX -std=$STD"
	"$CXX" -std=$STD -O1 -Wall -I"$INC" "$DIR/finding1.cpp" -o "$DIR/finding1.bin" -pthread || { echo "FAIL: does not compile"; rc=2; continue; }
	"$DIR/finding1.bin" || rc=1
	rm -f "$DIR/finding1.bin"
done
exit $rc
