// Finding 3 (C20, "no result depends on ... what the object's memory held before construction"):
// the Handle of the heterogeneous classes (HeterCallbackList / HeterEventDispatcher / HeterEventQueue)
// is an aggregate { int index; std::weak_ptr<void> homoHandle; } without member initialisers, so a
// default-constructed ("empty") handle -- `Handle h;` -- has an indeterminate `index`.
// HeterCallbackList::remove() uses it unchecked as callbackListList[handle.index].
// The homogeneous CallbackList::Handle is a weak_ptr: default-constructed it is empty and remove()
// returns false, whatever the memory held before.
//
// The handle is constructed with placement new over pre-filled storage (what a dirty stack slot or a
// reused heap block is). Pattern 0x00: remove() returns false. Pattern 0x7f: index is 2139062143 for
// a list with 2 prototypes and remove() reads ~34 GB behind the object.
#include <eventpp/hetercallbacklist.h>
#include <eventpp/callbacklist.h>
#include <csignal>
#include <cstdio>
#include <cstdlib>
#include <cstring>
#include <new>

using HomoList = eventpp::CallbackList<void ()>;
using HeterList = eventpp::HeterCallbackList<eventpp::HeterTuple<void (), void (int)> >;
static const int prototypeCount = 2;
using HomoHandle = HomoList::Handle;
using HeterHandle = HeterList::Handle;

static void onCrash(int sig)
{
	// Reached only when remove() dereferences callbackListList[garbage].
	static const char message[] = "FAIL: HeterCallbackList::remove(default-constructed Handle) crashed (signal caught)\n";
	std::fputs(message, stdout);
	std::fflush(stdout);
	(void)sig;
	std::_Exit(1);
}

template <typename Handle>
Handle * makeDefault(void * storage, unsigned char pattern)
{
	std::memset(storage, pattern, sizeof(Handle));
	return new (storage) Handle; // default-initialisation, exactly what `Handle h;` does
}

int main()
{
	std::signal(SIGSEGV, onCrash);
	std::signal(SIGBUS, onCrash);

	int failures = 0;
	const unsigned char patterns[] = { 0x00, 0x7f };

	HomoList homo;
	homo.append([]() {});
	HeterList heter;
	heter.append([]() {});
	heter.append([](int) {});

	for(unsigned char pattern : patterns) {
		alignas(16) unsigned char homoStorage[sizeof(HomoList::Handle)];
		HomoList::Handle * hh = makeDefault<HomoList::Handle>(homoStorage, pattern);
		const bool homoRemoved = homo.remove(*hh);
		std::printf("%s pattern 0x%02x: CallbackList::remove(default Handle) returned %d (expected 0)\n",
			homoRemoved ? "FAIL" : "ok  ", pattern, (int)homoRemoved);
		if(homoRemoved) ++failures;
		hh->~HomoHandle();
	}

	for(unsigned char pattern : patterns) {
		alignas(16) unsigned char heterStorage[sizeof(HeterList::Handle)];
		HeterList::Handle * h = makeDefault<HeterList::Handle>(heterStorage, pattern);
		int index;
		std::memcpy(&index, heterStorage, sizeof(index)); // `index` is the first member
		const bool inRange = (index >= 0 && index < prototypeCount);
		std::printf("%s pattern 0x%02x: default-constructed HeterCallbackList::Handle has index %d (list has %d prototypes)\n",
			inRange ? "ok  " : "FAIL", pattern, index, prototypeCount);
		std::fflush(stdout);
		if(! inRange) ++failures;
		const bool removed = heter.remove(*h); // out-of-bounds read of callbackListList[index] when ! inRange
		std::printf("%s pattern 0x%02x: HeterCallbackList::remove(default Handle) returned %d (expected 0)\n",
			removed ? "FAIL" : "ok  ", pattern, (int)removed);
		if(removed) ++failures;
		h->~HeterHandle();
	}

	if(failures) {
		std::printf("FAIL: %d\n", failures);
		return 1;
	}
	std::printf("PASS\n");
	return 0;
}
