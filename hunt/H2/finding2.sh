#!/bin/sh
# usage: finding2.sh <eventpp include dir>
INC="${1:-/tmp/mut/H2/include}"
DIR="$(cd "$(dirname "$0")" && pwd)"
CXX="${CXX:-g++}"
"$CXX" -std=c++11 -O1 -Wall -I"$INC" "$DIR/finding2.cpp" -o "$DIR/finding2.bin" -pthread || { echo "FAIL: does not compile"; exit 2; }
"$DIR/finding2.bin"; rc=$?
rm -f "$DIR/finding2.bin"
exit $rc
