#!/bin/sh
# usage: finding4.sh <eventpp include dir>
INC="${1:-/tmp/mut/H2/include}"
DIR="$(cd "$(dirname "$0")" && pwd)"
CXX="${CXX:-g++}"
"$CXX" -std=c++11 -O1 -Wall -I"$INC" "$DIR/finding4.cpp" -o "$DIR/finding4.bin" -pthread || { echo "FAIL: does not compile"; exit 2; }
"$DIR/finding4.bin"; rc=$?
rm -f "$DIR/finding4.bin"
exit $rc
