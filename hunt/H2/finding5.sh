#!/bin/sh
# usage: finding5.sh <eventpp include dir>
INC="${1:-/tmp/mut/H2/include}"
DIR="$(cd "$(dirname "$0")" && pwd)"
CXX="${CXX:-g++}"
rc=0
for CONFIG in 0 1 2; do
	if "$CXX" -std=c++11 -O1 -I"$INC" -DCONFIG=$CONFIG "$DIR/finding5.cpp" -o "$DIR/finding5.bin" -pthread 2> "$DIR/finding5.err"; then
		"$DIR/finding5.bin" || { echo "FAIL: config $CONFIG behaves differently"; rc=1; }
	else
		echo "FAIL: config $CONFIG: the same program does not compile:"
		grep -m1 "error" "$DIR/finding5.err" | cut -c1-260
		rc=1
	fi
	rm -f "$DIR/finding5.bin" "$DIR/finding5.err"
done
exit $rc
