// Finding 1 (C04): EventDispatcher::dispatch(Args...) (include-event form) looks the callback list up
// AFTER the by-value arguments have been moved on. If the event key yielded by getEvent refers to the
// argument it was obtained from (std::string_view, or any user "reference" key type), the key has
// changed by the time it is looked up: the listeners of the dispatched event are not invoked, and the
// listeners of ANOTHER event are.
//
// C++11 part: user key type NameRef (ordered map).  C++17 part: std::string_view (hashed map).
#include <eventpp/eventdispatcher.h>
#include <string>
#include <cstdio>
#if __cplusplus >= 201703L
#include <string_view>
#endif

// A non-owning key: compares the string it refers to. Implicitly constructible from the first
// argument, which is all DefaultGetEvent needs.
struct NameRef
{
	NameRef(const std::string & s) : p(&s) {}
	bool operator < (const NameRef & other) const { return *p < *other.p; }
	const std::string * p;
};

static int failures = 0;

static void check(const char * what, int gotRight, int gotWrong)
{
	const bool ok = (gotRight == 1 && gotWrong == 0);
	std::printf("%s %s: listener of dispatched event \"abc\" ran %d time(s) (expected 1), "
		"listener of other event ran %d time(s) (expected 0)\n",
		ok ? "ok  " : "FAIL", what, gotRight, gotWrong);
	if(! ok) ++failures;
}

static const std::string keyAbc("abc");
static const std::string keyEmpty("");

int main()
{
	// Control 1: same key type, prototype takes the argument by const reference: routed correctly.
	{
		eventpp::EventDispatcher<NameRef, void (const std::string &)> d;
		int right = 0, wrong = 0;
		d.appendListener(keyAbc, [&](const std::string &) { ++right; });
		d.appendListener(keyEmpty, [&](const std::string &) { ++wrong; });
		d.dispatch(std::string("abc"));
		check("NameRef key, void(const std::string &), include form", right, wrong);
	}
	// Control 2: by-value prototype, exclude-event form: routed correctly.
	{
		eventpp::EventDispatcher<NameRef, void (std::string)> d;
		int right = 0, wrong = 0;
		d.appendListener(keyAbc, [&](std::string) { ++right; });
		d.appendListener(keyEmpty, [&](std::string) { ++wrong; });
		d.dispatch(std::string("abc"), std::string("payload"));
		check("NameRef key, void(std::string), exclude form      ", right, wrong);
	}
	// The violation: by-value prototype, include-event form, temporary argument.
	{
		eventpp::EventDispatcher<NameRef, void (std::string)> d;
		int right = 0, wrong = 0;
		d.appendListener(keyAbc, [&](std::string) { ++right; });
		d.appendListener(keyEmpty, [&](std::string) { ++wrong; });
		d.dispatch(std::string("abc"));
		check("NameRef key, void(std::string), include form, rvalue", right, wrong);
	}
	// Same with an lvalue argument: the caller's string is untouched, but dispatch's own copy is moved.
	{
		eventpp::EventDispatcher<NameRef, void (std::string)> d;
		int right = 0, wrong = 0;
		d.appendListener(keyAbc, [&](std::string) { ++right; });
		d.appendListener(keyEmpty, [&](std::string) { ++wrong; });
		std::string arg("abc");
		d.dispatch(arg);
		check("NameRef key, void(std::string), include form, lvalue", right, wrong);
	}
#if __cplusplus >= 201703L
	// std::string_view as the event type (hashed map). A moved-from short std::string is "" whose
	// buffer starts with '\0', so the view {"abc", 3} now reads "\0bc".
	{
		eventpp::EventDispatcher<std::string_view, void (std::string)> d;
		int right = 0, wrong = 0;
		d.appendListener("abc", [&](std::string) { ++right; });
		d.appendListener(std::string_view("\0bc", 3), [&](std::string) { ++wrong; });
		d.dispatch(std::string("abc"));
		check("string_view key, void(std::string), include form   ", right, wrong);
	}
#endif
	if(failures) {
		std::printf("FAIL: %d dispatch(es) did not reach the listeners of the event obtained from their arguments\n", failures);
		return 1;
	}
	std::printf("PASS\n");
	return 0;
}
