#!/bin/sh
# usage: finding3.sh <eventpp include dir>
INC="${1:-/tmp/mut/H2/include}"
DIR="$(cd "$(dirname "$0")" && pwd)"
CXX="${CXX:-g++}"
"$CXX" -std=c++11 -O0 -Wall -I"$INC" "$DIR/finding3.cpp" -o "$DIR/finding3.bin" -pthread || { echo "FAIL: does not compile"; exit 2; }
"$DIR/finding3.bin"; rc=$?
rm -f "$DIR/finding3.bin"
exit $rc
