// Finding 2 (C04): a getEvent policy that returns the event BY REFERENCE (e.g. const std::string &)
// is silently not detected. HasFunctionGetEvent forms "decltype(C::getEvent(...)) *", a pointer to a
// reference, which is ill-formed, so SFINAE answers "the policy has no getEvent" and DefaultGetEvent
// (the first argument) is used instead. If the first argument happens to convert to the event type
// the program compiles and every dispatch/enqueue goes to the wrong event.
// The same trait shape is used for canContinueInvoking (a policy returning const bool & is ignored).
#include <eventpp/eventdispatcher.h>
#include <eventpp/eventqueue.h>
#include <string>
#include <cstdio>

// Event = topic. The prototype is (sender, topic); the event is the SECOND argument.
struct PoliciesByValue
{
	static std::string getEvent(const std::string & /*sender*/, const std::string & topic) { return topic; }
};
struct PoliciesByReference
{
	static const std::string & getEvent(const std::string & /*sender*/, const std::string & topic) { return topic; }
};

struct Ev { int type; bool go; };
struct StopByValue
{
	static int getEvent(const Ev & e) { return e.type; }
	static bool canContinueInvoking(const Ev & e) { return e.go; }
};
struct StopByReference
{
	static int getEvent(const Ev & e) { return e.type; }
	static const bool & canContinueInvoking(const Ev & e) { return e.go; }
};

static int failures = 0;

template <typename Policies>
void testDispatch(const char * name)
{
	eventpp::EventDispatcher<std::string, void (const std::string &, const std::string &), Policies> d;
	int news = 0, alice = 0;
	d.appendListener("news", [&](const std::string &, const std::string &) { ++news; });
	d.appendListener("alice", [&](const std::string &, const std::string &) { ++alice; });
	d.dispatch("alice", "news"); // sender alice, topic news: getEvent yields "news"
	const bool ok = (news == 1 && alice == 0);
	std::printf("%s dispatch, getEvent returns %s: listeners of \"news\" ran %d (expected 1), listeners of \"alice\" ran %d (expected 0)\n",
		ok ? "ok  " : "FAIL", name, news, alice);
	if(! ok) ++failures;
}

template <typename Policies>
void testQueue(const char * name)
{
	eventpp::EventQueue<std::string, void (const std::string &, const std::string &), Policies> q;
	int news = 0, alice = 0;
	q.appendListener("news", [&](const std::string &, const std::string &) { ++news; });
	q.appendListener("alice", [&](const std::string &, const std::string &) { ++alice; });
	q.enqueue("alice", "news");
	q.process();
	const bool ok = (news == 1 && alice == 0);
	std::printf("%s enqueue+process, getEvent returns %s: listeners of \"news\" ran %d (expected 1), listeners of \"alice\" ran %d (expected 0)\n",
		ok ? "ok  " : "FAIL", name, news, alice);
	if(! ok) ++failures;
}

template <typename Policies>
void testStop(const char * name)
{
	eventpp::EventDispatcher<int, void (const Ev &), Policies> d;
	int first = 0, second = 0;
	d.appendListener(3, [&](const Ev &) { ++first; });
	d.appendListener(3, [&](const Ev &) { ++second; });
	d.dispatch(Ev { 3, false }); // canContinueInvoking is false: only the first listener may run
	const bool ok = (first == 1 && second == 0);
	std::printf("%s dispatch, canContinueInvoking returns %s: first ran %d (expected 1), second ran %d (expected 0)\n",
		ok ? "ok  " : "FAIL", name, first, second);
	if(! ok) ++failures;
}

int main()
{
	testDispatch<PoliciesByValue>("std::string        ");
	testDispatch<PoliciesByReference>("const std::string &");
	testQueue<PoliciesByValue>("std::string        ");
	testQueue<PoliciesByReference>("const std::string &");
	testStop<StopByValue>("bool        ");
	testStop<StopByReference>("const bool &");
	if(failures) {
		std::printf("FAIL: %d case(s): a policy function returning a reference was silently ignored\n", failures);
		return 1;
	}
	std::printf("PASS\n");
	return 0;
}
