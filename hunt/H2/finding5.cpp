// Finding 5 (C20, compile-time): EventQueue::wait()/waitFor() exist only for Threading policies whose
// Mutex is std::mutex. With the library's own SingleThreading policy, and with the SpinLock policy
// exactly as written in doc/policies.md (GeneralThreading<SpinLock>, ConditionVariable defaulted to
// std::condition_variable), a program that calls waitFor() does not compile:
//  - SingleThreading::ConditionVariable::wait/wait_for take std::unique_lock<std::mutex> &, but the
//    queue passes std::unique_lock<SingleThreading::Mutex>;
//  - std::condition_variable accepts only std::unique_lock<std::mutex>, the queue passes
//    std::unique_lock<SpinLock>.
// Compile with -DCONFIG=0 (MultipleThreading), 1 (SingleThreading), 2 (GeneralThreading<SpinLock>).
#include <eventpp/eventqueue.h>
#include <chrono>
#include <cstdio>

struct Policies
{
#if CONFIG == 0
	using Threading = eventpp::MultipleThreading;
#elif CONFIG == 1
	using Threading = eventpp::SingleThreading;
#else
	using Threading = eventpp::GeneralThreading<eventpp::SpinLock>;
#endif
};

int main()
{
	eventpp::EventQueue<int, void (int), Policies> queue;
	int got = 0;
	queue.appendListener(1, [&](int v) { got = v; });
	queue.enqueue(1, 5);
	const bool ready = queue.waitFor(std::chrono::milliseconds(100)); // an event is queued: must be true
	queue.process();
	std::printf("config %d: waitFor returned %d (expected 1), listener got %d (expected 5)\n", CONFIG, (int)ready, got);
	return (ready && got == 5) ? 0 : 1;
}
