// Finding 4 (C04 statement "argument values equal to those the caller supplied", heterogeneous
// counterpart; incompleteness of the repair "the event must not be moved out of, or read after, the
// arguments in IncludeEvent mode"):
// in ArgumentPassingIncludeEvent mode HeterEventDispatcher::dispatch and HeterEventQueue::enqueue
// hand the first argument to the getEvent policy as std::forward<T>(first) -- an rvalue when the
// caller passed a temporary -- and afterwards forward the same object to the listeners / into the
// queue. A getEvent policy that takes its parameter by value therefore MOVES the event object away,
// and the listeners receive a moved-from argument. EventDispatcher / EventQueue pass lvalues to
// getEvent, so the very same policy leaves the argument intact there.
#include <eventpp/eventqueue.h>
#include <eventpp/hetereventqueue.h>
#include <string>
#include <cstdio>

struct MyEvent
{
	int type;
	std::string message;
};

struct Policies
{
	using ArgumentPassingMode = eventpp::ArgumentPassingIncludeEvent;
	// Callable with the same arguments as dispatch/enqueue, as doc/policies.md requires.
	static int getEvent(MyEvent e) { return e.type; }
};

static const std::string text("the quick brown fox jumps over the lazy dog"); // longer than any SSO buffer
static int failures = 0;

static void check(const char * what, const std::string & got)
{
	const bool ok = (got == text);
	std::printf("%s %s: listener received message \"%s\"\n", ok ? "ok  " : "FAIL", what, got.c_str());
	if(! ok) ++failures;
}

int main()
{
	{
		eventpp::EventQueue<int, void (MyEvent), Policies> q;
		std::string got("<not called>");
		q.appendListener(3, [&](MyEvent e) { got = e.message; });
		q.dispatch(MyEvent { 3, text });
		check("EventQueue::dispatch           ", got);
		got = "<not called>";
		q.enqueue(MyEvent { 3, text });
		q.process();
		check("EventQueue::enqueue+process    ", got);
	}
	{
		eventpp::HeterEventQueue<int, eventpp::HeterTuple<void (MyEvent)>, Policies> q;
		std::string got("<not called>");
		q.appendListener(3, [&](MyEvent e) { got = e.message; });
		q.dispatch(MyEvent { 3, text });
		check("HeterEventQueue::dispatch       ", got);
		got = "<not called>";
		q.enqueue(MyEvent { 3, text });
		q.process();
		check("HeterEventQueue::enqueue+process", got);
	}
	if(failures) {
		std::printf("FAIL: %d case(s): the listeners did not receive the argument value the caller supplied\n", failures);
		return 1;
	}
	std::printf("PASS\n");
	return 0;
}
