#!/bin/sh
# usage: observation1.sh <include-dir>   (borderline observation, see report.txt)
cd "$(dirname "$0")" || exit 2
g++ -std=c++17 -O1 -pthread -I"$1" observation1.cpp -o o1 || exit 2
./o1; rc=$?
rm -f o1
exit $rc
