// Finding 2 (property C03): a callback appended concurrently with the append that makes the
// 32-bit generation counter wrap is LOST: it is in the list (remove() on it succeeds) but no later
// invocation or enumeration visits it - even after all threads have been joined.
//
// Interleaving (forced with a Mutex wrapper that parks thread T2 at its first lock()):
//   history prefix: 2^32-2 times { append; remove }                 (counter = 2^32-2)
//   T2:   append(L): draws counter 2^32-1 (callbacklist.h:413,457), parks before lock at :182
//   main: append(O): draws 0 -> wrap branch :458-467 resets the nodes IN THE LIST to 1, draws 1; O linked
//   T2:   resumes, links L with counter 2^32-1                      (L was not in the list, so not reset)
//   join; then, sequentially: list(), forEach, remove(L)
// The base mutex is eventpp::SpinLock, atomics are std::atomic (both inside the C03 quantifier);
// the wrapper only delays one lock() call.
#include <eventpp/callbacklist.h>
#include <atomic>
#include <thread>
#include <chrono>
#include <cstdio>
#include <cstdint>
#include <string>
#include <vector>
#include <condition_variable>

namespace ctl {
	thread_local bool parkMe = false;
	std::atomic<int> arrived(0);
	std::atomic<int> released(0);
	std::atomic<int> timedOut(0);
}

struct ParkMutex
{
	void lock() {
		if(ctl::parkMe) {
			ctl::parkMe = false;
			ctl::arrived.store(1);
			const auto deadline = std::chrono::steady_clock::now() + std::chrono::seconds(20);
			while(! ctl::released.load()) {
				if(std::chrono::steady_clock::now() > deadline) { ctl::timedOut.store(1); break; }
				std::this_thread::yield();
			}
		}
		base.lock();
	}
	void unlock() { base.unlock(); }
	eventpp::SpinLock base;
};

struct Threading
{
	using Mutex = ParkMutex;
	template <typename T> using Atomic = std::atomic<T>;
	using ConditionVariable = std::condition_variable;
};

struct Policies
{
	using Threading = ::Threading;
	using Callback = void (*)();
};
using CL = eventpp::CallbackList<void (), Policies>;

static std::vector<char> g_trace;
static void cbNop() {}
static void cbL() { g_trace.push_back('L'); }
static void cbO() { g_trace.push_back('O'); }

int main()
{
	CL list;

	const std::uint64_t warmup = 0xFFFFFFFFull - 1; // 2^32-2 draws
	for(std::uint64_t i = 0; i < warmup; ++i) {
		list.remove(list.append(&cbNop));
	}

	CL::Handle hL, hO;
	std::thread t2([&]() {
		ctl::parkMe = true;
		hL = list.append(&cbL);
	});
	{
		const auto deadline = std::chrono::steady_clock::now() + std::chrono::seconds(20);
		while(! ctl::arrived.load() && std::chrono::steady_clock::now() < deadline) std::this_thread::yield();
	}
	if(! ctl::arrived.load()) { std::printf("harness error: T2 did not reach the lock\n"); ctl::released.store(1); t2.join(); return 2; }

	hO = list.append(&cbO);

	ctl::released.store(1);
	t2.join();
	if(ctl::timedOut.load()) { std::printf("harness error: park timed out\n"); return 2; }

	// Everything below is sequential: both appends have returned, all threads are joined.
	list();
	const std::string invoked(g_trace.begin(), g_trace.end());
	g_trace.clear();
	int enumerated = 0;
	list.forEach([&](const CL::Handle &, CL::Callback & cb) { ++enumerated; cb(); });
	const std::string enumeratedTrace(g_trace.begin(), g_trace.end());
	const bool ownsL = list.ownsHandle(hL);
	const bool ownsO = list.ownsHandle(hO);

	std::printf("ownsHandle(L)=%d ownsHandle(O)=%d\n", (int)ownsL, (int)ownsO);
	std::printf("invocation after join visited: \"%s\" (expected both L and O)\n", invoked.c_str());
	std::printf("forEach after join visited %d callbacks: \"%s\" (expected 2)\n", enumerated, enumeratedTrace.c_str());
	const bool removedL = list.remove(hL);
	const bool removedO = list.remove(hO);
	std::printf("remove(L)=%d remove(O)=%d, empty afterwards=%d\n", (int)removedL, (int)removedO, (int)list.empty());

	const bool ok = invoked.size() == 2 && enumerated == 2;
	if(! ok && ownsL && removedL) {
		std::printf("FAIL: C03 violated - callback L is in the list (ownsHandle and remove succeed) but invocation/enumeration never visit it (lost after counter wrap)\n");
		return 1;
	}
	if(! ok) { std::printf("FAIL: unexpected state\n"); return 1; }
	std::printf("PASS\n");
	return 0;
}
