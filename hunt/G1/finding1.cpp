// Finding 1 (property C02): a callback appended from inside a running invocation IS called
// by that same invocation when the append makes the 32-bit generation counter wrap.
//
// Every append/prepend/insert draws one value from CallbackList::currentCounter (unsigned int).
// The history below is: 2^32-2 times { append; remove } (a perfectly legal, if long, history),
// then one invocation whose only callback appends two further callbacks.
// No special policy is needed; SingleThreading and a function-pointer Callback are used only
// to make the 2^32 steps fast.  Set FINDING1_MT=1 at compile time to use the default policies.
#include <eventpp/callbacklist.h>
#include <cstdio>
#include <cstdint>
#include <vector>
#include <string>

#ifndef FINDING1_MT
struct Policies {
	using Threading = eventpp::SingleThreading;
	using Callback = void (*)();
};
#else
struct Policies {
	using Callback = void (*)();
};
#endif
using CL = eventpp::CallbackList<void (), Policies>;

static CL * g_list;
static std::vector<std::string> g_trace;

static void cbNop() {}
static void cbX() { g_trace.push_back("X"); }
static void cbY() { g_trace.push_back("Y"); }
static void cbA() {
	g_trace.push_back("A");
	g_list->append(&cbX);   // draws counter 2^32-1
	g_list->append(&cbY);   // draws 0 -> wrap -> every node in the list (X included) is reset to 1, Y gets 1
}

int main()
{
	CL list;
	g_list = &list;

	// History prefix: 2^32-3 append/remove pairs. Each draws exactly one counter value.
	const std::uint64_t warmup = 0xFFFFFFFFull - 2; // counter becomes 2^32-3
	for(std::uint64_t i = 0; i < warmup; ++i) {
		list.remove(list.append(&cbNop));
	}
	if(! list.empty()) { std::printf("unexpected: list not empty\n"); return 2; }

	list.append(&cbA);      // counter 2^32-2
	list();                 // invocation captures 2^32-2; A appends X and Y

	std::string got;
	for(const auto & s : g_trace) got += s;
	std::printf("trace of the invocation during which X and Y were appended: %s (expected: A)\n", got.c_str());

	// For reference, an identical program without the prefix gives "A".
	{
		CL fresh; g_list = &fresh; g_trace.clear();
		fresh.append(&cbA);
		fresh();
		std::string ref;
		for(const auto & s : g_trace) ref += s;
		std::printf("same program on a fresh list: %s\n", ref.c_str());
	}

	if(got != "A") {
		std::printf("FAIL: C02 violated - callbacks added during an invocation were called by that invocation (after counter wrap)\n");
		return 1;
	}
	std::printf("PASS\n");
	return 0;
}
