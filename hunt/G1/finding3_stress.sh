#!/bin/sh
# usage: finding3_stress.sh <include-dir>
# Supplementary to finding3.sh: plain (no sanitizer) -O0 build of the same program; the race between the
# test at callbacklist.h:264 and the copy at :265 ends in a null dereference (SIGSEGV) within
# milliseconds (20/20 runs here). Stress-based, bounded to 30 s; optimised builds fuse the two loads
# and survive much longer, so finding3.sh (ThreadSanitizer) is the deterministic demonstration.
cd "$(dirname "$0")" || exit 2
g++ -std=c++17 -O0 -pthread -I"$1" finding3.cpp -o f3s || exit 2
./f3s; rc=$?
rm -f f3s
exit $rc
