// Observation O1 (borderline for C02 "no such call deadlocks"; NOT counted as a finding):
// the list destroys removed nodes - and therefore the user's callback objects - while holding its
// mutex: callbacklist.h:358-362 (traversal step "node = node->next" inside the lock_guard scope) and
// :244-251 (remove(): the local 'node' is declared after the lock_guard, so it dies first).
// If the callback object owns anything whose destructor touches the same list (RAII un-registration,
// e.g. eventpp::ScopedRemover held by a lambda), a callback that merely removes ITSELF during an
// invocation makes that invocation self-deadlock on the non-recursive std::mutex.
#include <eventpp/callbacklist.h>
#include <atomic>
#include <thread>
#include <chrono>
#include <memory>
#include <cstdio>
#include <cstdlib>
#include <unistd.h>

using CL = eventpp::CallbackList<void ()>;   // default policies: std::mutex

struct Guard {
	CL * list; CL::Handle h;
	~Guard() { list->remove(h); }        // RAII un-registration of a companion callback
};

int main()
{
	CL list;
	std::atomic<bool> done(false);
	CL::Handle hA;
	CL::Handle hC = list.append([]() {});
	auto guard = std::make_shared<Guard>(Guard{ &list, hC });
	hA = list.prepend([guard, &list, &hA]() { list.remove(hA); });   // A removes itself when invoked
	guard.reset();                                                    // A's callback object is the only owner now

	std::thread t([&]() { list(); done.store(true); });
	const auto deadline = std::chrono::steady_clock::now() + std::chrono::seconds(5);
	while(! done.load() && std::chrono::steady_clock::now() < deadline) {
		std::this_thread::sleep_for(std::chrono::milliseconds(10));
	}
	if(! done.load()) {
		std::printf("FAIL: invocation blocked for 5 s: self-deadlock, callback object destroyed under the list mutex\n");
		std::fflush(stdout);
		_exit(1);
	}
	t.join();
	std::printf("PASS: invocation returned\n");
	return 0;
}
