#!/bin/sh
# usage: finding3.sh <include-dir>
# Deterministic demonstration: ThreadSanitizer build. The program prints the FAIL line itself
# (via the __tsan_on_report hook); the first race report is shown from the log as evidence.
cd "$(dirname "$0")" || exit 2
g++ -std=c++17 -O1 -g -fsanitize=thread -pthread -I"$1" finding3.cpp -o f3 || exit 2
./f3 2> f3.tsan.log; rc=$?
grep -m1 -A4 "WARNING: ThreadSanitizer" f3.tsan.log
grep -E "callbacklist.h:(199|264|265|419|422)" f3.tsan.log | sed 's/.*\(\/[^ ]*callbacklist.h:[0-9]*\).*/    involves \1/' | sort | uniq -c
if [ "$rc" -eq 0 ] && grep -q "ThreadSanitizer: data race" f3.tsan.log; then
	echo "FAIL: C03 violated - ThreadSanitizer reported a data race between ownsHandle(X, hY) and prepend/remove on Y"
	rc=1
fi
rm -f f3 f3.tsan.log
exit $rc
