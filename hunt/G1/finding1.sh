#!/bin/sh
# usage: finding1.sh <include-dir>     (runs ~4 minutes: the history contains 2^32 append/remove steps)
cd "$(dirname "$0")" || exit 2
g++ -std=c++17 -O2 -pthread -I"$1" finding1.cpp -o f1 || exit 2
./f1; rc=$?
rm -f f1
exit $rc
