#!/bin/sh
# usage: finding2.sh <include-dir>     (runs ~6 minutes: the history contains 2^32 append/remove steps)
cd "$(dirname "$0")" || exit 2
g++ -std=c++17 -O2 -pthread -I"$1" finding2.cpp -o f2 || exit 2
./f2; rc=$?
rm -f f2
exit $rc
