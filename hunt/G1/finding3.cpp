// Finding 3 (property C03): EventDispatcher::ownsHandle(eventX, handle) walks the nodes the handle
// belongs to while holding only the mutex of eventX's callback list. When the handle was created for
// another event Y of the SAME dispatcher (the very case ownsHandle exists to detect, see
// doc/eventdispatcher.md "ownsHandle" / "insertListener"), the walk reads the 'previous' links of
// list Y (callbacklist.h:264-265) with no lock in common with the threads that prepend/remove
// listeners of Y (writes at callbacklist.h:199, 419, 422 under Y's mutex): a data race on
// std::shared_ptr objects (non-atomic refcounted copies racing with assignments -> wrong control
// block, use-after-free, or null dereference between the test at :264 and the copy at :265).
//
// Default policies (std::mutex, std::atomic, std::map). Two modes:
//   * built with -fsanitize=thread: ThreadSanitizer reports the race deterministically (this is the
//     mode finding3.sh uses);
//   * built without it (optionally -fsanitize=address): bounded stress run that waits for the
//     crash / bad result (finding3_stress.sh, supplementary).
#include <eventpp/eventdispatcher.h>
#include <atomic>
#include <thread>
#include <chrono>
#include <cstdio>
#include <cstdlib>
#include <csignal>
#include <unistd.h>

#if defined(__SANITIZE_THREAD__)
#define WITH_TSAN 1
#elif defined(__has_feature)
#if __has_feature(thread_sanitizer)
#define WITH_TSAN 1
#endif
#endif

static std::atomic<int> g_tsanReports(0);
#ifdef WITH_TSAN
extern "C" void __tsan_on_report(void *) { ++g_tsanReports; }
#endif

static void onCrash(int sig)
{
	static const char msgSegv[] = "FAIL: C03 violated - SIGSEGV (memory error) while ownsHandle(X, hY) races with prepend/remove on list Y\n";
	static const char msgOther[] = "FAIL: C03 violated - SIGABRT/SIGBUS (memory error) while ownsHandle(X, hY) races with prepend/remove on list Y\n";
	if(sig == SIGSEGV) (void)!write(1, msgSegv, sizeof(msgSegv) - 1);
	else (void)!write(1, msgOther, sizeof(msgOther) - 1);
	_exit(1);
}

using Dispatcher = eventpp::EventDispatcher<int, void ()>;

int main()
{
	std::signal(SIGSEGV, onCrash);
	std::signal(SIGBUS, onCrash);
	std::signal(SIGABRT, onCrash);

	Dispatcher d;
	const int X = 1, Y = 2;
	d.appendListener(X, []() {});
	Dispatcher::Handle hFirst = d.appendListener(Y, []() {});
	const Dispatcher::Handle hY = d.appendListener(Y, []() {});   // stays in list Y for the whole run

#ifdef WITH_TSAN
	const long iterations = 2000;
	const int seconds = 60;
#else
	const long iterations = -1;
	const int seconds = 30;
#endif

	std::atomic<bool> stop(false);
	std::atomic<long> wrongAnswers(0);
	std::atomic<long> queries(0);

	// T1: the query. One dispatcher, one event, a handle of a sibling event: must simply answer false.
	std::thread t1([&]() {
		for(long i = 0; (iterations < 0 || i < iterations) && ! stop.load(std::memory_order_relaxed); ++i) {
			if(d.ownsHandle(X, hY)) ++wrongAnswers;
			++queries;
		}
	});
	// T2: ordinary listener management of event Y on the same dispatcher.
	std::thread t2([&]() {
		Dispatcher::Handle h = hFirst;
		for(long i = 0; (iterations < 0 || i < iterations) && ! stop.load(std::memory_order_relaxed); ++i) {
			d.removeListener(Y, h);              // hY->previous: node -> null   (callbacklist.h:419)
			h = d.prependListener(Y, []() {});   // hY->previous: null -> node   (callbacklist.h:199)
		}
	});

	if(iterations < 0) {
		const auto deadline = std::chrono::steady_clock::now() + std::chrono::seconds(seconds);
		while(std::chrono::steady_clock::now() < deadline && wrongAnswers.load() == 0) {
			std::this_thread::sleep_for(std::chrono::milliseconds(50));
		}
		stop.store(true);
	}
	t1.join();
	t2.join();

	std::printf("queries=%ld wrongAnswers=%ld tsanReports=%d\n", queries.load(), wrongAnswers.load(), g_tsanReports.load());
	if(wrongAnswers.load() != 0) {
		std::printf("FAIL: C03 violated - ownsHandle(X, handle of Y) returned true\n");
		return 1;
	}
	if(g_tsanReports.load() != 0) {
		std::printf("FAIL: C03 violated - ThreadSanitizer reported %d data race(s) between ownsHandle(X, hY) and prepend/remove on Y\n", g_tsanReports.load());
		return 1;
	}
	std::printf("no violation observed in this run\n");
	return 0;
}
