#!/bin/sh
# usage: sh finding2.sh <eventpp include dir>
cd "$(dirname "$0")" || exit 2
g++ -std=c++17 -O1 -pthread -I"$1" finding2.cpp -o f2 && ./f2
rc=$?
rm -f f2
exit $rc
