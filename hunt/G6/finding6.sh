#!/bin/sh
# usage: sh finding6.sh <eventpp include dir>
cd "$(dirname "$0")" || exit 2
g++ -std=c++17 -O1 -pthread -I"$1" finding6.cpp -o f6 && ./f6
rc=$?
rm -f f6
exit $rc
