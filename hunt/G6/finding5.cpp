// Finding 5 (property C16, "all trigger counts (including zero and negative)"): CounterRemover's wrapper does
// 'if(--data->triggerCount <= 0) remove'. For triggerCount == INT_MIN the decrement is a signed overflow
// (undefined behaviour; UBSan: "signed integer overflow: -2147483648 - 1 cannot be represented in type 'int'").
// With GCC the value wraps to INT_MAX, the test is false, and the listener is NOT removed: it is invoked on
// every trigger instead of on exactly the first max(n, 1) = 1 trigger.
#include <eventpp/callbacklist.h>
#include <eventpp/eventdispatcher.h>
#include <eventpp/utilities/counterremover.h>
#include <climits>
#include <iostream>

int main(int argc, char **)
{
	int failures = 0;

	// keep the compiler from constant-folding the count
	volatile int base = INT_MIN;
	const int counts[] = { 0, -1, INT_MIN + 1, base + (argc > 100 ? 1 : 0) };
	for(const int count : counts) {
		eventpp::CallbackList<void ()> callbackList;
		int invoked = 0;
		eventpp::counterRemover(callbackList).append([&invoked]() { ++invoked; }, count);
		for(int i = 0; i < 5; ++i) {
			callbackList();
		}
		std::cout << "CallbackList, trigger count " << count << ": invoked " << invoked << " time(s) in 5 triggers, expected 1" << std::endl;
		if(invoked != 1) {
			++failures;
		}
	}

	{
		eventpp::EventDispatcher<int, void ()> dispatcher;
		int invoked = 0;
		eventpp::counterRemover(dispatcher).appendListener(3, [&invoked]() { ++invoked; }, base);
		for(int i = 0; i < 5; ++i) {
			dispatcher.dispatch(3);
		}
		std::cout << "EventDispatcher, trigger count " << base << ": invoked " << invoked << " time(s) in 5 triggers, expected 1" << std::endl;
		if(invoked != 1) {
			++failures;
		}
	}

	if(failures != 0) {
		std::cout << "FAIL: a listener added with trigger count INT_MIN is never removed" << std::endl;
		return 1;
	}
	std::cout << "PASS" << std::endl;
	return 0;
}
