// Finding 3 (properties C14 "with intact arguments" / C04 "argument values equal to those the caller supplied"):
// in the heterogeneous classes with ArgumentPassingIncludeEvent, the first argument is *forwarded* to the
// getEvent policy and afterwards forwarded once more to the listeners (HeterEventDispatcher) or into the stored
// tuple (HeterEventQueue). If getEvent takes its parameter by value (allowed: "it works as long as getEvent can
// be invoked using the same arguments as dispatch"), an rvalue first argument is moved into getEvent's parameter
// and the listeners receive the moved-from object. The homogeneous classes pass lvalues to getEvent and deliver
// the arguments intact with the very same policy.
#include <eventpp/hetereventqueue.h>
#include <eventpp/eventqueue.h>
#include <iostream>
#include <string>

struct MyEvent
{
	int type;
	std::string message;
};

struct Policies
{
	using ArgumentPassingMode = eventpp::ArgumentPassingIncludeEvent;
	static int getEvent(MyEvent e) { return e.type; }
	static int getEvent(MyEvent e, int) { return e.type; }
};

static int failures = 0;
static void check(bool ok, const std::string & what)
{
	if(! ok) {
		++failures;
		std::cout << "FAIL: " << what << std::endl;
	}
	else {
		std::cout << "ok:   " << what << std::endl;
	}
}

int main()
{
	const std::string message = "a message that is long enough to live on the heap";
	std::string seen;

	// Control: homogeneous queue, same policy.
	{
		eventpp::EventQueue<int, void (MyEvent), Policies> queue;
		queue.appendListener(3, [&seen](MyEvent e) { seen = e.message; });
		seen = "<not called>";
		queue.dispatch(MyEvent { 3, message });
		check(seen == message, "homogeneous dispatch(MyEvent{3, message}): listener sees the message");
		seen = "<not called>";
		queue.enqueue(MyEvent { 3, message });
		queue.process();
		check(seen == message, "homogeneous enqueue(MyEvent{3, message}) + process(): listener sees the message");
	}

	{
		eventpp::HeterEventQueue<int, eventpp::HeterTuple<void (MyEvent), void (MyEvent, int)>, Policies> queue;
		queue.appendListener(3, [&seen](MyEvent e) { seen = e.message; });
		queue.appendListener(3, [&seen](const MyEvent & e, int) { seen = e.message; });

		seen = "<not called>";
		queue.dispatch(MyEvent { 3, message });
		std::cout << "      listener saw [" << seen << "]" << std::endl;
		check(seen == message, "heterogeneous dispatch(MyEvent{3, message}): listener sees the message");

		seen = "<not called>";
		queue.dispatch(MyEvent { 3, message }, 1);
		std::cout << "      listener saw [" << seen << "]" << std::endl;
		check(seen == message, "heterogeneous dispatch(MyEvent{3, message}, 1): listener sees the message");

		seen = "<not called>";
		queue.enqueue(MyEvent { 3, message });
		queue.process();
		std::cout << "      listener saw [" << seen << "]" << std::endl;
		check(seen == message, "heterogeneous enqueue(MyEvent{3, message}) + process(): listener sees the message");

		// lvalue arguments are fine
		MyEvent e { 3, message };
		seen = "<not called>";
		queue.dispatch(e);
		check(seen == message, "heterogeneous dispatch(lvalue): listener sees the message");
	}

	if(failures != 0) {
		std::cout << "FAIL (" << failures << " check(s) failed)" << std::endl;
		return 1;
	}
	std::cout << "PASS" << std::endl;
	return 0;
}
