// Finding 6 (properties C12 canContinueInvoking clause, C04 getEvent clause) - BORDERLINE, see report.txt.
// The library decides whether the policies class has canContinueInvoking / getEvent by testing a call with
// std::declval<Args>()... (by-value prototype parameters appear as RVALUES), but it then calls the function
// with the named parameters 'args...' (LVALUES). A policy function that takes a by-value prototype parameter by
// non-const lvalue reference - exactly what the call site would hand it, and the same shape the filters of
// MixinFilter have - fails the detection and is silently replaced by the default (always continue / first
// argument is the event). No diagnostic; the policy simply never runs.
#include <eventpp/eventdispatcher.h>
#include <iostream>
#include <string>
#include <vector>

static int policyCalls = 0;

struct StopPolicies
{
	// Stop after the first listener, whatever the argument.
	static bool canContinueInvoking(int & /*value*/) { ++policyCalls; return false; }
};

struct ControlStopPolicies
{
	static bool canContinueInvoking(const int & /*value*/) { ++policyCalls; return false; }
};

struct EventPolicies
{
	// The event is the SECOND argument.
	static int getEvent(int & /*a*/, int & b) { ++policyCalls; return b; }
};

struct ControlEventPolicies
{
	static int getEvent(const int & /*a*/, const int & b) { ++policyCalls; return b; }
};

static int failures = 0;
static void check(bool ok, const std::string & what)
{
	if(! ok) {
		++failures;
		std::cout << "FAIL: " << what << std::endl;
	}
	else {
		std::cout << "ok:   " << what << std::endl;
	}
}

template <typename Policies>
int countInvokedListeners()
{
	eventpp::CallbackList<void (int), Policies> callbackList;
	int invoked = 0;
	callbackList.append([&invoked](int) { ++invoked; });
	callbackList.append([&invoked](int) { ++invoked; });
	callbackList.append([&invoked](int) { ++invoked; });
	callbackList(1);
	return invoked;
}

template <typename Policies>
std::vector<int> dispatchedTo()
{
	eventpp::EventDispatcher<int, void (int, int), Policies> dispatcher;
	std::vector<int> result;
	dispatcher.appendListener(1, [&result](int, int) { result.push_back(1); });
	dispatcher.appendListener(2, [&result](int, int) { result.push_back(2); });
	dispatcher.dispatch(1, 2);    // the policy says: event is the second argument, 2
	return result;
}

int main()
{
	policyCalls = 0;
	int invoked = countInvokedListeners<ControlStopPolicies>();
	check(invoked == 1 && policyCalls == 1, "control: canContinueInvoking(const int &) stops after the first listener");

	policyCalls = 0;
	invoked = countInvokedListeners<StopPolicies>();
	std::cout << "      listeners invoked " << invoked << ", policy called " << policyCalls << " time(s)" << std::endl;
	check(invoked == 1, "canContinueInvoking(int &) returns false: no further listener may run after the first");

	policyCalls = 0;
	std::vector<int> events = dispatchedTo<ControlEventPolicies>();
	check(events == std::vector<int>{ 2 } && policyCalls == 1, "control: getEvent(const int &, const int &) routes dispatch(1, 2) to event 2");

	policyCalls = 0;
	events = dispatchedTo<EventPolicies>();
	std::cout << "      dispatched to event";
	for(int e : events) std::cout << " " << e;
	std::cout << ", policy called " << policyCalls << " time(s)" << std::endl;
	check(events == std::vector<int>{ 2 }, "getEvent(int &, int &) yields 2 for dispatch(1, 2): exactly the listeners of event 2 run");

	if(failures != 0) {
		std::cout << "FAIL (" << failures << " check(s) failed)" << std::endl;
		return 1;
	}
	std::cout << "PASS" << std::endl;
	return 0;
}
