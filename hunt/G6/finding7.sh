#!/bin/sh
# usage: sh finding7.sh <eventpp include dir>
cd "$(dirname "$0")" || exit 2
g++ -std=c++17 -O1 -pthread -I"$1" finding7.cpp -o f7 && ./f7
rc=$?
rm -f f7
exit $rc
