// Finding 7 (property C04 "dispatch invokes exactly the listeners registered for the event that the getEvent
// policy yields from the call's own arguments ... listeners of other events are neither invoked nor affected",
// together with C12) - LOWER CONFIDENCE, see report.txt.
// EventDispatcher::dispatch obtains the event first and runs the filters afterwards (directDispatch), so a filter
// that rewrites the first argument changes what the listeners see but not which listeners run.
// HeterEventDispatcher::doDispatch (ArgumentPassingIncludeEvent) runs the filters first and calls getEvent on the
// arguments the filters have already rewritten: the dispatch is re-routed to the listeners of ANOTHER event, and
// the listeners of the dispatched event are skipped.
#include <eventpp/hetereventdispatcher.h>
#include <eventpp/eventdispatcher.h>
#include <eventpp/mixins/mixinfilter.h>
#include <iostream>
#include <string>
#include <vector>

struct HomoPolicies
{
	using Mixins = eventpp::MixinList<eventpp::MixinFilter>;
	using ArgumentPassingMode = eventpp::ArgumentPassingIncludeEvent;
};

struct HeterPolicies
{
	using Mixins = eventpp::MixinList<eventpp::MixinHeterFilter>;
	using ArgumentPassingMode = eventpp::ArgumentPassingIncludeEvent;
};

int main()
{
	int failures = 0;

	{
		std::vector<std::string> trace;
		eventpp::EventDispatcher<int, void (int), HomoPolicies> dispatcher;
		dispatcher.appendListener(1, [&trace](int e) { trace.push_back("listener-of-1(" + std::to_string(e) + ")"); });
		dispatcher.appendListener(2, [&trace](int e) { trace.push_back("listener-of-2(" + std::to_string(e) + ")"); });
		dispatcher.appendFilter([](int & e) -> bool { e = 2; return true; });
		dispatcher.dispatch(1);
		std::cout << "homogeneous   dispatch(1):";
		for(const auto & s : trace) std::cout << " " << s;
		std::cout << std::endl;
		if(trace != std::vector<std::string>{ "listener-of-1(2)" }) {
			++failures;
			std::cout << "FAIL: homogeneous dispatch(1) must run exactly the listeners of event 1" << std::endl;
		}
	}

	{
		std::vector<std::string> trace;
		eventpp::HeterEventDispatcher<int, eventpp::HeterTuple<void (int)>, HeterPolicies> dispatcher;
		dispatcher.appendListener(1, [&trace](int e) { trace.push_back("listener-of-1(" + std::to_string(e) + ")"); });
		dispatcher.appendListener(2, [&trace](int e) { trace.push_back("listener-of-2(" + std::to_string(e) + ")"); });
		dispatcher.appendFilter([](int & e) -> bool { e = 2; return true; });
		dispatcher.dispatch(1);
		std::cout << "heterogeneous dispatch(1):";
		for(const auto & s : trace) std::cout << " " << s;
		std::cout << std::endl;
		if(trace != std::vector<std::string>{ "listener-of-1(2)" }) {
			++failures;
			std::cout << "FAIL: heterogeneous dispatch(1) ran the listeners of event 2 and skipped those of event 1" << std::endl;
		}
	}

	if(failures != 0) {
		std::cout << "FAIL (" << failures << " check(s) failed)" << std::endl;
		return 1;
	}
	std::cout << "PASS" << std::endl;
	return 0;
}
