#!/bin/sh
# usage: sh finding5.sh <eventpp include dir>
cd "$(dirname "$0")" || exit 2
g++ -std=c++17 -O1 -pthread -I"$1" finding5.cpp -o f5 && ./f5
rc=$?
rm -f f5
exit $rc
