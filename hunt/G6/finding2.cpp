// Finding 2 (property C12, heterogeneous dispatcher with MixinHeterFilter): the filters that gate a dispatch
// are chosen by another rule than the listeners the dispatch reaches.
//   listeners: HeterCallbackList::operator() -> FindPrototypeByArgs<PrototypeList, Args...>
//              = first prototype CALLABLE WITH the argument types (implicit conversions allowed)
//   filters:   MixinHeterFilter::mixinBeforeDispatch -> filterList.forEachIf<void (Args & ...)>
//              -> FindPrototypeByCallable<FilterPrototypeList, void (Args & ...)>
//              = first filter prototype whose (lvalue reference) parameters can BIND TO the argument lvalues
// When the argument types differ from the selected prototype's parameter types, the filters bound to the
// prototype whose listeners run are skipped, and the filters of another prototype run instead.
#include <eventpp/hetereventdispatcher.h>
#include <iostream>
#include <string>
#include <vector>

static int failures = 0;
static void check(bool ok, const std::string & what)
{
	if(! ok) {
		++failures;
		std::cout << "FAIL: " << what << std::endl;
	}
	else {
		std::cout << "ok:   " << what << std::endl;
	}
}

static void show(const std::vector<std::string> & trace)
{
	std::cout << "      trace:";
	for(const auto & s : trace) std::cout << " " << s;
	std::cout << std::endl;
}

struct Policies
{
	using Mixins = eventpp::MixinList<eventpp::MixinHeterFilter>;
};

int main()
{
	// Scenario A
	{
		using Dispatcher = eventpp::HeterEventDispatcher<
			int,
			eventpp::HeterTuple<void (std::string), void (const char *)>,
			Policies
		>;
		Dispatcher dispatcher;
		std::vector<std::string> trace;

		dispatcher.appendListener(1, [&trace](std::string s) { trace.push_back("L_string(" + s + ")"); });              // prototype 0
		dispatcher.appendListener(1, [&trace](const char * s) { trace.push_back(std::string("L_cstr(") + s + ")"); });   // prototype 1
		// A filter of prototype 0 that blocks every dispatch of that prototype.
		dispatcher.appendFilter([&trace](std::string & s) -> bool { trace.push_back("F_string(" + s + ")=false"); return false; });
		// A filter of prototype 1 that lets everything pass.
		dispatcher.appendFilter([&trace](const char * & s) -> bool { trace.push_back(std::string("F_cstr(") + s + ")=true"); return true; });

		// Control: an argument of exactly the prototype's type. The blocking filter runs, no listener runs.
		std::string text("abc");
		dispatcher.dispatch(1, text);
		show(trace);
		check(trace == std::vector<std::string>{ "F_string(abc)=false" }, "A: control, dispatch(1, std::string) is blocked by the void(std::string) filter");

		// The first listed prototype callable with a 'const char *' is prototype 0, void(std::string):
		// its listener is the one that runs. So its filters have to run first - and they block everything.
		trace.clear();
		const char * pointer = "xyz";
		dispatcher.dispatch(1, pointer);
		show(trace);
		bool blockingFilterRan = false;
		bool stringListenerRan = false;
		for(const auto & s : trace) {
			if(s.find("F_string") == 0) blockingFilterRan = true;
			if(s.find("L_string") == 0) stringListenerRan = true;
		}
		check(blockingFilterRan, "A: dispatch(1, const char *) reaches the void(std::string) listeners, so the void(std::string) filter must run first");
		check(! stringListenerRan, "A: the void(std::string) listener must not run, a filter of its prototype returns false for every dispatch");
	}

	// Scenario B, arithmetic types
	{
		using Dispatcher = eventpp::HeterEventDispatcher<
			int,
			eventpp::HeterTuple<void (double), void (int)>,
			Policies
		>;
		Dispatcher dispatcher;
		std::vector<std::string> trace;
		dispatcher.appendListener(1, [&trace](double v) { trace.push_back("L_double(" + std::to_string(v) + ")"); });    // prototype 0
		dispatcher.appendFilter([&trace](double &) -> bool { trace.push_back("F_double=false"); return false; });          // filter prototype 0, blocks
		dispatcher.appendFilter([&trace](int & v) -> bool { trace.push_back("F_int"); v += 100; return true; });           // filter prototype 1

		dispatcher.dispatch(1, 5.0);
		show(trace);
		check(trace == std::vector<std::string>{ "F_double=false" }, "B: control, dispatch(1, 5.0) is blocked by the void(double) filter");

		trace.clear();
		dispatcher.dispatch(1, 5);    // first prototype callable with an int is void(double)
		show(trace);
		bool listenerRan = false;
		for(const auto & s : trace) {
			if(s.find("L_double") == 0) listenerRan = true;
		}
		check(! listenerRan, "B: dispatch(1, 5) reaches the void(double) listeners, which the void(double) filter blocks");
	}

	if(failures != 0) {
		std::cout << "FAIL (" << failures << " check(s) failed)" << std::endl;
		return 1;
	}
	std::cout << "PASS" << std::endl;
	return 0;
}
