// Finding 4 (property C17, "constructed from an object of any type and size ... holds its own copy"):
// AnyData constructs the held object with placement new in 'std::array<std::uint8_t, maxSize> buffer', which
// follows the 'functions' pointer. alignof(AnyData) is alignof(void *) and the buffer starts at offset
// sizeof(void *), so every type whose alignment is stricter than that of a pointer (long double, __int128,
// SIMD vectors, anything alignas(16) or more) and which fits the inline capacity is constructed, read and
// destroyed at a misaligned address: undefined behaviour (UBSan: "store to misaligned address ... requires 16
// byte alignment"; aligned SSE/AVX loads fault). Objects beyond the capacity go to the heap with 'new' and are
// aligned, so small and large objects do NOT behave identically.
#include <eventpp/utilities/anydata.h>
#include <cstdint>
#include <iostream>

struct alignas(16) Vec4
{
	float v[4];
};

struct alignas(16) BigVec
{
	float v[64];
};

int main()
{
	using Data = eventpp::AnyData<64>;
	int misaligned = 0;

	std::cout << "alignof(Vec4)=" << alignof(Vec4) << " alignof(AnyData<64>)=" << alignof(Data)
		<< " sizeof(AnyData<64>)=" << sizeof(Data) << std::endl;

	// Two adjacent AnyData objects are sizeof(Data) == 72 bytes apart; 72 % 16 == 8, so whatever the address of
	// the array is, at least one of the two inline payloads is not 16-byte aligned.
	Data small[2] = { Data(Vec4 { { 1, 2, 3, 4 } }), Data(Vec4 { { 5, 6, 7, 8 } }) };
	for(const Data & item : small) {
		const std::uintptr_t address = reinterpret_cast<std::uintptr_t>(item.getAddress());
		std::cout << "inline Vec4 at address % 16 = " << (address % 16) << " isType<Vec4>=" << item.isType<Vec4>() << std::endl;
		if(address % alignof(Vec4) != 0) {
			++misaligned;
		}
	}

	// Same alignment requirement, but larger than the capacity: heap allocated, correctly aligned.
	Data large[2] = { Data(BigVec()), Data(BigVec()) };
	for(const Data & item : large) {
		const std::uintptr_t address = reinterpret_cast<std::uintptr_t>(item.getAddress());
		std::cout << "heap BigVec at address % 16 = " << (address % 16) << std::endl;
	}

	if(misaligned != 0) {
		std::cout << "FAIL: " << misaligned << " inline payload(s) of a type with alignof 16 live at a misaligned address" << std::endl;
		return 1;
	}
	std::cout << "PASS" << std::endl;
	return 0;
}
