// Finding 1 (property C14): HeterEventQueue chooses the prototype of a queued event a second time when the
// event is processed, from the *stored* (decayed, const) tuple element types, instead of using the prototype
// that enqueue selected from the caller's argument types. The two selections can differ, so a queued event
// reaches the callbacks of another prototype - or no callback at all - while the very same arguments given
// to dispatch() reach the right ones.
#include <eventpp/hetereventqueue.h>
#include <iostream>
#include <string>
#include <vector>

struct Celsius { double v; Celsius(double d) : v(d) {} };                    // double  -> Celsius      (1 user conversion)
struct Temperature { double k; Temperature(const Celsius & c) : k(c.v + 273.15) {} }; // Celsius -> Temperature (1 user conversion)
// double -> Temperature needs two user-defined conversions, so void(Temperature) is NOT callable with a double.

static int failures = 0;
static void check(bool ok, const std::string & what)
{
	if(! ok) {
		++failures;
		std::cout << "FAIL: " << what << std::endl;
	}
	else {
		std::cout << "ok:   " << what << std::endl;
	}
}

int main()
{
	// Scenario A: the queued event is delivered to the callbacks of a different prototype.
	{
		using Queue = eventpp::HeterEventQueue<int, eventpp::HeterTuple<void (Temperature), void (Celsius)> >;
		Queue queue;
		std::vector<std::string> trace;
		// callable with Temperature only -> bound to prototype 0
		queue.appendListener(1, [&trace](Temperature) { trace.push_back("T"); });
		// not callable with Temperature, callable with Celsius -> bound to prototype 1
		queue.appendListener(1, [&trace](Celsius) { trace.push_back("C"); });

		// first listed prototype callable with a double is prototype 1, void(Celsius)
		queue.dispatch(1, 36.6);
		check(trace == std::vector<std::string>{ "C" }, "A: dispatch(1, 36.6) reaches exactly the void(Celsius) listener");

		trace.clear();
		queue.enqueue(1, 36.6);   // enqueue selects prototype 1 too (callableIndex == 1, stored as tuple<Celsius>)
		queue.process();
		std::cout << "      trace after enqueue(1, 36.6) + process():";
		for(const auto & s : trace) std::cout << " " << s;
		std::cout << std::endl;
		check(trace == std::vector<std::string>{ "C" }, "A: enqueue(1, 36.6) + process() reaches exactly the void(Celsius) listener");

		trace.clear();
		queue.enqueue(1, 36.6);
		// the predicate is callable with prototype 1 only and the event *is* examined as prototype 1 ...
		const bool processed = queue.processIf([](const Celsius &) { return true; });
		// ... but then it is dispatched to prototype 0
		check(processed && trace == std::vector<std::string>{ "C" }, "A: enqueue(1, 36.6) + processIf(Celsius predicate) reaches exactly the void(Celsius) listener");
	}

	// Scenario B: the queued event is silently lost (dispatched to an empty callback list).
	{
		using Queue = eventpp::HeterEventQueue<int, eventpp::HeterTuple<void (int &), void (int)> >;
		Queue queue;
		int calls = 0;
		queue.appendListener(1, [&calls](int &) { ++calls; });   // bound to prototype 0
		queue.appendListener(1, [&calls](int) { ++calls; });     // callable with int & too -> also bound to prototype 0

		int value = 7;
		queue.dispatch(1, value);      // argument type int & -> prototype 0 -> both listeners
		check(calls == 2, "B: dispatch(1, lvalue) reaches the two listeners bound to void(int &)");

		calls = 0;
		queue.enqueue(1, value);       // argument type int & -> prototype 0 as well (callableIndex == 0)
		const bool processed = queue.process();
		std::cout << "      process() returned " << processed << ", listeners invoked " << calls << " time(s)" << std::endl;
		check(calls == 2, "B: enqueue(1, lvalue) + process() reaches the two listeners bound to void(int &)");
	}

	if(failures != 0) {
		std::cout << "FAIL (" << failures << " check(s) failed)" << std::endl;
		return 1;
	}
	std::cout << "PASS" << std::endl;
	return 0;
}
