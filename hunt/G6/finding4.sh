#!/bin/sh
# usage: sh finding4.sh <eventpp include dir>
cd "$(dirname "$0")" || exit 2
g++ -std=c++17 -O1 -pthread -I"$1" finding4.cpp -o f4 && ./f4
rc=$?
rm -f f4
exit $rc
