// C14: "... an invocation, dispatch or enqueue selects the first listed prototype callable with its argument
// types and reaches exactly the callbacks bound to that prototype, in their order, once each, WITH INTACT
// ARGUMENTS."
// HeterEventDispatcher::dispatch and HeterEventQueue::enqueue in ArgumentPassingIncludeEvent mode hand
// std::forward<T>(first) to the getEvent policy and afterwards pass / store the same `first` again. A getEvent
// that receives the event object by value (or consumes an rvalue) leaves the listeners with a moved-from
// first argument. The homogeneous EventDispatcher / EventQueue were repaired for exactly this (they call
// getEvent(args...) with lvalues); the heterogeneous classes were not.
#include <eventpp/eventdispatcher.h>
#include <eventpp/eventqueue.h>
#include <eventpp/hetereventdispatcher.h>
#include <eventpp/hetereventqueue.h>
#include <iostream>
#include <string>

struct Ev
{
	int type;
	std::string text;
};

struct Policies
{
	using ArgumentPassingMode = eventpp::ArgumentPassingIncludeEvent;

	// "getEvent can be non-template or template function. It works as long as getEvent can be invoked using
	// the same arguments as dispatch / enqueue" (doc/policies.md). This one takes the event object by value.
	template <typename ...A>
	static int getEvent(Ev e, A && ...) {
		return e.type;
	}
};

static const std::string text = "a fairly long text that does not fit into a small string buffer";
static int fails = 0;

static void verdict(const char * name, const std::string & got, const bool mustHold)
{
	const bool ok = (got == text);
	std::cout << name << ": listener received text of length " << got.size()
		<< (ok ? " (intact)" : " (MOVED-FROM, expected length 63)") << std::endl;
	if(! ok && mustHold) ++fails;
}

int main()
{
	using Prototypes = eventpp::HeterTuple<void(const Ev &), void(const Ev &, int)>;

	{
		eventpp::EventDispatcher<int, void(const Ev &, int), Policies> d;
		std::string got = "?";
		d.appendListener(1, [&](const Ev & e, int) { got = e.text; });
		d.dispatch(Ev{1, text}, 5);
		verdict("control  EventDispatcher::dispatch     ", got, true);
	}
	{
		eventpp::EventQueue<int, void(const Ev &, int), Policies> q;
		std::string got = "?";
		q.appendListener(1, [&](const Ev & e, int) { got = e.text; });
		q.enqueue(Ev{1, text}, 5);
		q.process();
		verdict("control  EventQueue::enqueue+process   ", got, true);
	}
	{
		eventpp::HeterEventDispatcher<int, Prototypes, Policies> d;
		std::string got = "?";
		d.appendListener(1, [&](const Ev & e, int) { got = e.text; });
		d.dispatch(Ev{1, text}, 5);
		verdict("subject  HeterEventDispatcher::dispatch", got, true);
	}
	{
		eventpp::HeterEventQueue<int, Prototypes, Policies> q;
		std::string got = "?";
		q.appendListener(1, [&](const Ev & e, int) { got = e.text; });
		q.enqueue(Ev{1, text}, 5);
		q.process();
		verdict("subject  HeterEventQueue::enqueue+process", got, true);
	}

	if(fails) {
		std::cout << "FAIL: " << fails << " heterogeneous path(s) delivered a moved-from event argument" << std::endl;
		return 1;
	}
	std::cout << "PASS" << std::endl;
	return 0;
}
