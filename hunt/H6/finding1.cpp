// C12: with MixinFilter every dispatch runs the filters (once) in the order they were added.
// A mixin WITHOUT mixinBeforeDispatch (the interceptor is documented as optional) listed before
// MixinFilter makes every filter run twice per dispatch, direct or queued, homogeneous or heterogeneous.
#include <eventpp/eventdispatcher.h>
#include <eventpp/eventqueue.h>
#include <eventpp/hetereventdispatcher.h>
#include <eventpp/mixins/mixinfilter.h>
#include <eventpp/mixins/mixinheterfilter.h>
#include <iostream>
#include <string>

// A mixin that only adds a member function; it has no interceptor.
template <typename Base>
class PlainMixin : public Base
{
public:
	int answer() const { return 42; }
};

struct FilterOnly { using Mixins = eventpp::MixinList<eventpp::MixinFilter>; };
struct FilterThenPlain { using Mixins = eventpp::MixinList<eventpp::MixinFilter, PlainMixin>; };
struct PlainThenFilter { using Mixins = eventpp::MixinList<PlainMixin, eventpp::MixinFilter>; };
struct HeterPlainThenFilter { using Mixins = eventpp::MixinList<PlainMixin, eventpp::MixinHeterFilter>; };

static int fails = 0;

static void verdict(const char * name, const std::string & trace, const int seen)
{
	const bool ok = (trace == "f1 f2 L " && seen == 11);
	std::cout << name << ": trace = " << trace << " listener saw " << seen
		<< " (expected trace f1 f2 L, value 11)" << (ok ? " ok" : " WRONG") << std::endl;
	if(! ok) ++fails;
}

template <typename Dispatcher>
void runDispatcher(const char * name)
{
	Dispatcher d;
	std::string trace;
	int seen = -1;
	d.appendFilter([&](int & v) -> bool { trace += "f1 "; v += 1; return true; });
	d.appendFilter([&](int &) -> bool { trace += "f2 "; return true; });
	d.appendListener(1, [&](int v) { trace += "L "; seen = v; });
	d.dispatch(1, 10);
	verdict(name, trace, seen);
}

template <typename Queue>
void runQueue(const char * name)
{
	Queue q;
	std::string trace;
	int seen = -1;
	q.appendFilter([&](int & v) -> bool { trace += "f1 "; v += 1; return true; });
	q.appendFilter([&](int &) -> bool { trace += "f2 "; return true; });
	q.appendListener(1, [&](int v) { trace += "L "; seen = v; });
	q.enqueue(1, 10);
	q.process();
	verdict(name, trace, seen);
}

int main()
{
	runDispatcher<eventpp::EventDispatcher<int, void(int), FilterOnly> >("control  EventDispatcher MixinList<MixinFilter>            ");
	runDispatcher<eventpp::EventDispatcher<int, void(int), FilterThenPlain> >("control  EventDispatcher MixinList<MixinFilter, PlainMixin>");
	runDispatcher<eventpp::EventDispatcher<int, void(int), PlainThenFilter> >("subject  EventDispatcher MixinList<PlainMixin, MixinFilter>");
	runQueue<eventpp::EventQueue<int, void(int), PlainThenFilter> >("subject  EventQueue      MixinList<PlainMixin, MixinFilter>");
	runDispatcher<eventpp::HeterEventDispatcher<int, eventpp::HeterTuple<void(int), void(int, int)>, HeterPlainThenFilter> >(
		"subject  HeterEventDispatcher MixinList<PlainMixin, MixinHeterFilter>");

	if(fails) {
		std::cout << "FAIL: filters ran twice in " << fails << " configuration(s)" << std::endl;
		return 1;
	}
	std::cout << "PASS" << std::endl;
	return 0;
}
