// C12, last clause: "a listener wrapped by argumentAdapter receives those same argument values
// converted to its own parameter types".
// When the adapted prototype contains a std::shared_ptr parameter, every OTHER parameter is converted by
// adapter_internal_::StaticCast<T>::cast, which RETURNS static_cast<T>(value). For a parameter of type
// "const X &" whose conversion creates a temporary X, the temporary dies inside cast() and the listener
// is called with a dangling (gcc: null) reference. Without a shared_ptr in the prototype the same
// conversion is done in the call expression and the temporary lives through the listener call.
#include <eventpp/eventdispatcher.h>
#include <eventpp/utilities/argumentadapter.h>
#include <iostream>
#include <memory>

struct Base { virtual ~Base() {} };
struct Derived : Base {};

// The converted value. Its lifetime is tracked so that the listener can tell, WITHOUT touching the
// reference it got, whether the object it refers to is still alive.
struct Number
{
	Number(int v) : value(v) { ++alive; }
	Number(const Number & other) : value(other.value) { ++alive; }
	~Number() { --alive; }
	int value;
	static int alive;
};
int Number::alive = 0;

int main()
{
	int fails = 0;

	{
		// control: no shared_ptr in the adapted prototype
		eventpp::EventDispatcher<int, void(Base *, int)> d;
		int aliveInListener = -1, value = -1;
		d.appendListener(1, eventpp::argumentAdapter<void(Derived *, const Number &)>(
			[&](Derived *, const Number & n) {
				aliveInListener = Number::alive;
				if(aliveInListener == 1) value = n.value;
			}));
		Derived object;
		d.dispatch(1, &object, 5);
		std::cout << "control (Derived *, const Number &): converted objects alive inside the listener = "
			<< aliveInListener << ", value read = " << value << std::endl;
		if(aliveInListener != 1 || value != 5) ++fails;
	}

	{
		// subject: the first parameter is a shared_ptr, the second one is converted exactly as above
		eventpp::EventDispatcher<int, void(std::shared_ptr<Base>, int)> d;
		int aliveInListener = -1, value = -1;
		d.appendListener(1, eventpp::argumentAdapter<void(std::shared_ptr<Derived>, const Number &)>(
			[&](std::shared_ptr<Derived>, const Number & n) {
				aliveInListener = Number::alive;
				// Only read through the reference when the object is alive: otherwise it dangles
				// (with gcc it is a null reference and reading it is a segmentation fault).
				if(aliveInListener == 1) value = n.value;
			}));
		d.dispatch(1, std::make_shared<Derived>(), 5);
		std::cout << "subject (shared_ptr<Derived>, const Number &): converted objects alive inside the listener = "
			<< aliveInListener << ", value read = " << value << " (expected 1 and 5)" << std::endl;
		if(aliveInListener != 1 || value != 5) {
			std::cout << "FAIL: the listener got a reference to an already destroyed converted argument" << std::endl;
			++fails;
		}
	}

	if(! fails) std::cout << "PASS" << std::endl;
	return fails ? 1 : 0;
}
