#!/bin/sh
# usage: finding1.sh <eventpp include dir>
cd "$(dirname "$0")" || exit 2
${CXX:-g++} -std=c++11 -O0 -I"$1" finding1.cpp -o finding1.bin -pthread || { echo "compile error"; exit 2; }
./finding1.bin; rc=$?
rm -f finding1.bin
exit $rc
