#!/bin/sh
# usage: finding3.sh <eventpp include dir>
cd "$(dirname "$0")" || exit 2
${CXX:-g++} -std=c++11 -O0 -I"$1" finding3.cpp -o finding3.bin -pthread || { echo "compile error"; exit 2; }
./finding3.bin; rc=$?
rm -f finding3.bin
exit $rc
