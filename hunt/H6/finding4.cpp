// C12 (borderline, see report.txt): "With a canContinueInvoking policy, listeners are invoked in order until
// the policy returns false for the current arguments, after which no further listener of that dispatch runs",
// quantifier "... homogeneous and heterogeneous dispatchers".
// HeterCallbackList creates its per-prototype lists as CallbackList<T, UnderlyingPoliciesType_> where
// UnderlyingPoliciesType_ is an EMPTY struct, so the user's policies never reach the lists that invoke the
// callbacks: canContinueInvoking (and Callback, and Threading) are silently ignored by HeterCallbackList,
// HeterEventDispatcher and HeterEventQueue.
#include <eventpp/callbacklist.h>
#include <eventpp/eventdispatcher.h>
#include <eventpp/hetercallbacklist.h>
#include <eventpp/hetereventdispatcher.h>
#include <eventpp/hetereventqueue.h>
#include <iostream>

struct Ev
{
	int type;
	mutable bool canceled;
};

struct Policies
{
	static bool canContinueInvoking(const Ev & e) { return ! e.canceled; }
	static bool canContinueInvoking(int, const Ev & e) { return ! e.canceled; }
};

static int fails = 0;

static void verdict(const char * name, const int calls)
{
	std::cout << name << ": listeners run = " << calls << " (expected 1: the first one cancels the event)"
		<< (calls == 1 ? " ok" : " WRONG") << std::endl;
	if(calls != 1) ++fails;
}

int main()
{
	using Prototypes = eventpp::HeterTuple<void(const Ev &), void(int, const Ev &)>;
	{
		eventpp::CallbackList<void(const Ev &), Policies> cl;
		int calls = 0;
		cl.append([&](const Ev & e) { ++calls; e.canceled = true; });
		cl.append([&](const Ev &) { ++calls; });
		cl(Ev{1, false});
		verdict("control  CallbackList        ", calls);
	}
	{
		eventpp::EventDispatcher<int, void(const Ev &), Policies> d;
		int calls = 0;
		d.appendListener(1, [&](const Ev & e) { ++calls; e.canceled = true; });
		d.appendListener(1, [&](const Ev &) { ++calls; });
		d.dispatch(1, Ev{1, false});
		verdict("control  EventDispatcher     ", calls);
	}
	{
		eventpp::HeterCallbackList<Prototypes, Policies> cl;
		int calls = 0;
		cl.append([&](const Ev & e) { ++calls; e.canceled = true; });
		cl.append([&](const Ev &) { ++calls; });
		cl(Ev{1, false});
		verdict("subject  HeterCallbackList   ", calls);
	}
	{
		eventpp::HeterEventDispatcher<int, Prototypes, Policies> d;
		int calls = 0;
		d.appendListener(1, [&](const Ev & e) { ++calls; e.canceled = true; });
		d.appendListener(1, [&](const Ev &) { ++calls; });
		d.dispatch(1, Ev{1, false});
		verdict("subject  HeterEventDispatcher", calls);
	}
	{
		eventpp::HeterEventQueue<int, Prototypes, Policies> q;
		int calls = 0;
		q.appendListener(1, [&](const Ev & e) { ++calls; e.canceled = true; });
		q.appendListener(1, [&](const Ev &) { ++calls; });
		q.enqueue(1, Ev{1, false});
		q.process();
		verdict("subject  HeterEventQueue     ", calls);
	}
	if(fails) {
		std::cout << "FAIL: canContinueInvoking ignored in " << fails << " heterogeneous class(es)" << std::endl;
		return 1;
	}
	std::cout << "PASS" << std::endl;
	return 0;
}
