#!/bin/sh
# usage: finding4.sh <eventpp include dir>
cd "$(dirname "$0")" || exit 2
${CXX:-g++} -std=c++11 -O0 -I"$1" finding4.cpp -o finding4.bin -pthread || { echo "compile error"; exit 2; }
./finding4.bin; rc=$?
rm -f finding4.bin
exit $rc
