#!/bin/sh
# usage: finding2.sh <eventpp include dir>
cd "$(dirname "$0")" || exit 2
${CXX:-g++} -std=c++11 -O0 -w -I"$1" finding2.cpp -o finding2.bin -pthread || { echo "compile error"; exit 2; }
./finding2.bin; rc=$?
rm -f finding2.bin
exit $rc
