// Finding 3: EventDispatcher keeps using a pointer to a CallbackList stored in the Map after releasing
// listenerMutex (doFindCallableList returns &it->second; directDispatch / forEach / removeListener use it unlocked).
// The documented requirements for a custom Map policy are only "must support operations [], find(), and end()".
// With a Map that satisfies exactly that but relocates its elements on insertion (a flat map over std::vector,
// like boost::container::flat_map), a listener that adds a listener for a NEW event while its own event is being
// dispatched - a plain C02 program - makes the dispatcher go on traversing a CallbackList that has been moved
// away and destroyed: the traversal locks the mutex of a dead object in freed memory.
//
// The violation is made visible without a sanitizer through a Threading policy whose Mutex registers its
// lifetime: locking a mutex that is not alive is reported. Single thread, deterministic.
#include <eventpp/eventdispatcher.h>
#include <cstdio>
#include <set>
#include <vector>
#include <utility>

static std::set<const void *> & liveMutexes() { static std::set<const void *> s; return s; }
static int deadLocks = 0;

struct CheckedMutex
{
	CheckedMutex() { liveMutexes().insert(this); }
	~CheckedMutex() { liveMutexes().erase(this); }
	CheckedMutex(const CheckedMutex &) = delete;
	CheckedMutex & operator = (const CheckedMutex &) = delete;
	void lock() {
		if(liveMutexes().count(this) == 0) {
			++deadLocks;
			std::printf("  lock() on a mutex that was destroyed (object at %p is dead)\n", (const void *)this);
		}
	}
	void unlock() {}
};

// Minimal map: [], find(), end() - all the documentation asks for.
template <typename Key, typename T>
struct FlatMap
{
	using Storage = std::vector<std::pair<Key, T> >;
	using iterator = typename Storage::iterator;
	using const_iterator = typename Storage::const_iterator;

	iterator end() { return storage.end(); }
	const_iterator end() const { return storage.end(); }
	iterator find(const Key & key) {
		for(iterator it = storage.begin(); it != storage.end(); ++it) if(it->first == key) return it;
		return storage.end();
	}
	const_iterator find(const Key & key) const {
		for(const_iterator it = storage.begin(); it != storage.end(); ++it) if(it->first == key) return it;
		return storage.end();
	}
	T & operator [] (const Key & key) {
		iterator it = find(key);
		if(it == storage.end()) {
			storage.emplace_back(key, T());
			return storage.back().second;
		}
		return it->second;
	}

	Storage storage;
};

struct Policies
{
	using Threading = eventpp::GeneralThreading<CheckedMutex>;
	template <typename Key, typename T>
	using Map = FlatMap<Key, T>;
};

using Dispatcher = eventpp::EventDispatcher<int, void(), Policies>;

int main()
{
	Dispatcher dispatcher;
	std::vector<int> trace;

	dispatcher.appendListener(1, [&]() {
		trace.push_back(1);
		// a listener adds listeners for other events of the same dispatcher
		for(int e = 2; e < 10; ++e) {
			dispatcher.appendListener(e, [&trace, e]() { trace.push_back(e); });
		}
	});
	dispatcher.appendListener(1, [&]() { trace.push_back(11); });

	std::printf("dispatch(1):\n");
	dispatcher.dispatch(1);
	std::printf("trace:");
	for(int v : trace) std::printf(" %d", v);
	std::printf("\n");

	if(deadLocks > 0) {
		std::printf("FAIL: the dispatch kept using a CallbackList after it was relocated and destroyed (%d lock(s) of a dead mutex = use after free)\n", deadLocks);
		return 1;
	}
	std::printf("PASS\n");
	return 0;
}
