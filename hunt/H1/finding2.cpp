// Finding 2: removed nodes keep their 'next' link (on purpose). When callbacks are removed in list order while a
// traversal stands on the first of them, the removed nodes form a chain R1 -> R2 -> ... -> Rn in which every node
// is owned only by its predecessor. If the traversal ends on R1 (forEachIf functor returns false,
// CanContinueInvoking returns false, or the callback throws), dropping R1 destroys the chain RECURSIVELY
// (~Node -> ~shared_ptr(next) -> ~Node -> ...): stack exhaustion and a crash for a few ten thousand callbacks.
// The library avoids exactly this recursion in doFreeAllNodes (iterative unlink) but not here.
//
// Single thread. The scenario runs in a child process so that the crash can be reported.
#include <eventpp/callbacklist.h>
#include <cstdio>
#include <cstdlib>
#include <vector>
#include <sys/types.h>
#include <sys/wait.h>
#include <unistd.h>

using CL = eventpp::CallbackList<void()>;

// An invocation (operator()) that stops after the first callback, through the documented CanContinueInvoking policy
static bool stopInvoking = false;
struct StopPolicies {
	static bool canContinueInvoking() { return ! stopInvoking; }
};
using CLStop = eventpp::CallbackList<void(), StopPolicies>;

static int N = 1000000;

// mode 0: callback #0 removes ALL callbacks front to back (itself included), enumeration stops afterwards
// mode 1: control - same removal, enumeration continues to the end (no early stop)
// mode 2: control - same removal outside any invocation
static int scenario(int mode)
{
	CL list;
	std::vector<CL::Handle> handles;
	handles.reserve(N);
	int calls = 0;
	for(int i = 0; i < N; ++i) {
		handles.push_back(list.append([&calls]() { ++calls; }));
	}
	int removed = 0;
	auto removeAll = [&]() {
		for(auto & h : handles) {
			if(list.remove(h)) ++removed;
		}
	};
	if(mode == 2) {
		removeAll();
	}
	else {
		bool first = true;
		list.forEachIf([&](const CL::Handle &, const CL::Callback &) -> bool {
			if(first) {
				first = false;
				removeAll();          // the functor/callback removes every callback, in list order
				return mode == 1;     // mode 0: "handled, stop here"
			}
			return true;
		});
	}
	if(removed != N || ! list.empty()) {
		return 3;
	}
	return 0;
}

// mode 3: the same through operator(): callback #0 removes all callbacks and asks to stop the invocation
static int scenarioInvoke()
{
	CLStop list;
	std::vector<CLStop::Handle> handles;
	handles.reserve(N);
	int removed = 0;
	for(int i = 0; i < N; ++i) {
		if(i == 0) {
			handles.push_back(list.append([&]() {
				for(auto & h : handles) {
					if(list.remove(h)) ++removed;
				}
				stopInvoking = true;
			}));
		}
		else {
			handles.push_back(list.append([]() {}));
		}
	}
	list();
	return (removed == N && list.empty()) ? 0 : 3;
}

// mode 4: no early stop at all: the LAST callback removes all callbacks back to front (itself first). The removed
// nodes then form a chain through their stale 'previous' links (Rn -> Rn-1 -> ... -> R1); the traversal lets go of
// Rn when it steps past the end of the list.
static int scenarioReverse()
{
	CL list;
	std::vector<CL::Handle> handles;
	handles.reserve(N);
	int removed = 0;
	for(int i = 0; i < N; ++i) {
		if(i == N - 1) {
			handles.push_back(list.append([&]() {
				for(auto it = handles.rbegin(); it != handles.rend(); ++it) {
					if(list.remove(*it)) ++removed;
				}
			}));
		}
		else {
			handles.push_back(list.append([]() {}));
		}
	}
	list();
	return (removed == N && list.empty()) ? 0 : 3;
}

static int runInChild(int mode, const char * name)
{
	std::fflush(stdout);
	const pid_t pid = fork();
	if(pid == 0) {
		_exit(mode == 4 ? scenarioReverse() : mode == 3 ? scenarioInvoke() : scenario(mode));
	}
	int status = 0;
	waitpid(pid, &status, 0);
	if(WIFSIGNALED(status)) {
		std::printf("%s: child killed by signal %d\n", name, WTERMSIG(status));
		return -1;
	}
	std::printf("%s: child exit status %d\n", name, WEXITSTATUS(status));
	return WEXITSTATUS(status);
}

int main(int argc, char * argv[])
{
	if(argc > 1) N = std::atoi(argv[1]);
	std::printf("N = %d callbacks\n", N);
	const int c2 = runInChild(2, "control  (remove all, front to back, outside an invocation)     ");
	const int c1 = runInChild(1, "control  (remove all from the first callback, enumeration goes on)");
	const int r0 = runInChild(0, "scenario (remove all from the first callback, enumeration stops)  ");
	const int r3 = runInChild(3, "scenario (same from a callback in operator(), canContinueInvoking false)");
	const int r4 = runInChild(4, "scenario (last callback removes all callbacks back to front, plain operator())");
	if(c1 != 0 || c2 != 0) {
		std::printf("controls did not behave as expected, inconclusive\n");
		return 2;
	}
	if(r0 != 0 || r3 != 0 || r4 != 0) {
		std::printf("FAIL: forEachIf / operator() crashed (stack exhausted by the recursive destruction of the chain of removed nodes)\n");
		return 1;
	}
	std::printf("PASS\n");
	return 0;
}
