// Finding 1: callbacks discarded by an assignment to the list (there is no clear(); "list = CL()" is the
// only way to empty a list) are not marked as removed (doFreeAllNodes leaves Node::counter alone).
// A running invocation and the handles of such callbacks therefore still treat them as present.
//
// All operations are issued from inside a callback of the list being invoked; single thread.
#include <eventpp/callbacklist.h>
#include <cstdio>
#include <string>
#include <vector>

using CL = eventpp::CallbackList<void()>;

static int failures = 0;
static void check(bool ok, const char * what)
{
	std::printf("%s: %s\n", ok ? "ok  " : "FAIL", what);
	if(! ok) ++failures;
}

static std::string traceOf(CL & list)
{
	std::string s;
	list.forEach([&s](const CL::Callback & cb) { (void)cb; s += "x"; });
	return s;
}

int main()
{
	// ---- Scenario A: a callback that was discarded before its turn is still called
	{
		CL list;
		std::string trace;
		CL::Handle hA, hB, hC;
		hA = list.append([&]() {
			trace += "A";
			list.remove(hA);   // A removes itself (allowed, C02)
			list = CL();       // ... and empties the list: B and C are not in the list any more
		});
		hB = list.append([&]() { trace += "B"; });
		hC = list.append([&]() { trace += "C"; });
		list();
		std::printf("scenario A: invocation trace = \"%s\", list.empty() = %d\n", trace.c_str(), (int)list.empty());
		check(trace == "A", "A: callbacks taken out of the list before their turn are not called (expected trace \"A\")");

		// control: the same program without the self-removal does not call B
		CL list2;
		std::string trace2;
		list2.append([&]() { trace2 += "A"; list2 = CL(); });
		list2.append([&]() { trace2 += "B"; });
		list2.append([&]() { trace2 += "C"; });
		list2();
		std::printf("control   : invocation trace = \"%s\"\n", trace2.c_str());
	}

	// ---- Scenario B: handle of a callback that is no longer in the list: remove says true, insert loses the callback
	{
		CL list;
		CL::Handle hA;
		bool removeResult = false, ownsResult = true;
		int added = 0;
		hA = list.append([&]() {
			list = CL();                       // list is empty now; callback A is only referenced by the running invocation
			ownsResult = list.ownsHandle(hA);   // false (correct)
			list.insert([&]() { ++added; }, hA); // A is not in the list -> must be appended at the back
			removeResult = list.remove(hA);     // A is not in the list -> must return false
		});
		list();
		const bool emptyAfter = list.empty();
		const std::string content = traceOf(list);
		list();
		std::printf("scenario B: ownsHandle=%d remove=%d empty()=%d callbacks enumerated=%zu, new callback invoked %d time(s)\n",
			(int)ownsResult, (int)removeResult, (int)emptyAfter, content.size(), added);
		check(! ownsResult, "B: ownsHandle(handle of discarded callback) is false");
		check(! removeResult, "B: remove(handle of discarded callback) returns false (it took nothing out of the list)");
		check(content.size() == 1 && added == 1, "B: insert before a callback that is no longer in the list appends at the back (callback must be in the list and be invoked)");

		// what the same operations produce outside an invocation
		CL ref;
		int refAdded = 0;
		CL::Handle h = ref.append([]() {});
		ref = CL();
		ref.insert([&]() { ++refAdded; }, h);
		const bool refRemove = ref.remove(h);
		ref();
		std::printf("reference (same operations outside an invocation): remove=%d, new callback invoked %d time(s)\n", (int)refRemove, refAdded);
	}

	// ---- Scenario C: same with move assignment from a non-empty list
	{
		CL list, other;
		std::string trace;
		CL::Handle hA;
		other.append([&]() { trace += "o"; });
		hA = list.append([&]() {
			trace += "A";
			list.remove(hA);
			list = std::move(other);
		});
		list.append([&]() { trace += "B"; });
		list();
		std::printf("scenario C: invocation trace = \"%s\"\n", trace.c_str());
		check(trace == "A", "C: callback B, discarded by the move assignment before its turn, is not called");
	}

	if(failures) {
		std::printf("FAIL: %d check(s) failed\n", failures);
		return 1;
	}
	std::printf("PASS\n");
	return 0;
}
