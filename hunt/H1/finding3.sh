#!/bin/sh
# usage: sh finding3.sh <eventpp include dir>
# exit status non-zero and a line starting with FAIL when the violation shows
INC="${1:-/tmp/mut/H1/include}"
DIR="$(cd "$(dirname "$0")" && pwd)"
BIN="$DIR/finding3.bin"
${CXX:-g++} -std=c++11 -O1 -pthread -I"$INC" "$DIR/finding3.cpp" -o "$BIN" || { echo "compile error"; exit 99; }
"$BIN"
rc=$?
rm -f "$BIN"
exit $rc
