#!/bin/sh
# usage: finding4.sh <eventpp include dir>
cd "$(dirname "$0")" || exit 2
g++ -std=c++17 -O1 -pthread -I"$1" finding4.cpp -o f4 || exit 2
./f4; rc=$?
rm -f f4
exit $rc
