// Finding 4: ScopedRemover<EventDispatcher>::reset() and the operations built on it.
// reset() removes the recorded listeners one by one with dispatcher->removeListener(), which
// compares the user's event type for every item.
//  (a) If the comparison throws for the 2nd item, reset() fails with that exception but the 1st
//      listener has already been removed: a failed listener-management call changed the dispatcher.
//  (b) The move assignment operator is declared noexcept and calls reset(). The same throwing
//      comparison can not reach the caller: std::terminate is called.
#include <eventpp/eventdispatcher.h>
#include <eventpp/utilities/scopedremover.h>
#include <cstdio>
#include <cstdlib>
#include <exception>
#include <stdexcept>
#include <unistd.h>

struct Fault : std::runtime_error { Fault() : std::runtime_error("injected comparison fault") {} };
static int throwAtComparison = -1;

struct Ev { int v; };
bool operator < (const Ev & a, const Ev & b) {
	if(throwAtComparison >= 0 && throwAtComparison-- == 0) {
		throw Fault();
	}
	return a.v < b.v;
}

using D = eventpp::EventDispatcher<Ev, void ()>;
static int failures = 0;

static void onTerminate()
{
	std::printf("std::terminate called from ScopedRemover::operator=(ScopedRemover &&): the exception of the event comparison could not reach the caller\n");
	std::printf("FAIL: %d violation(s) before + std::terminate in a listener-management operation\n", failures);
	std::fflush(stdout);
	_exit(1);
}

int main()
{
	// (a) find the first comparison that belongs to the 2nd item and throw there
	{
		D dispatcher;
		int calls1 = 0, calls2 = 0;
		eventpp::ScopedRemover<D> remover(dispatcher);
		remover.appendListener(Ev{ 1 }, [&calls1]() { ++calls1; });
		remover.appendListener(Ev{ 2 }, [&calls2]() { ++calls2; });
		bool thrown = false;
		for(int k = 0; k < 16 && ! thrown; ++k) {
			// only try throw points after which the first listener is already gone
			throwAtComparison = k;
			try {
				remover.reset();
				throwAtComparison = -1;
				break;
			}
			catch(const Fault &) {
				throwAtComparison = -1;
				calls1 = calls2 = 0;
				dispatcher.dispatch(Ev{ 1 });
				dispatcher.dispatch(Ev{ 2 });
				if(calls1 + calls2 == 2) {
					continue; // nothing was removed at this throw point: fine, try the next point
				}
				thrown = true;
				std::printf("(a) reset() threw at comparison %d; listener 1 registered: %s, listener 2 registered: %s (expected: both, the call failed)\n",
					k, calls1 ? "yes" : "no", calls2 ? "yes" : "no");
				++failures;
			}
		}
		if(! thrown) {
			std::printf("(a) no partial reset observed\n");
		}
	}

	// (b)
	std::set_terminate(&onTerminate);
	{
		D dispatcher;
		eventpp::ScopedRemover<D> target(dispatcher);
		eventpp::ScopedRemover<D> source(dispatcher);
		target.appendListener(Ev{ 1 }, []() {});
		source.appendListener(Ev{ 2 }, []() {});
		throwAtComparison = 0;
		try {
			target = std::move(source);
			std::printf("(b) move assignment returned normally?\n");
		}
		catch(const Fault &) {
			std::printf("(b) the exception reached the caller (that is what the property asks for)\n");
		}
		throwAtComparison = -1;
	}

	if(failures != 0) {
		std::printf("FAIL: %d violation(s)\n", failures);
		return 1;
	}
	std::printf("PASS\n");
	return 0;
}
