#!/bin/sh
# usage: finding1.sh <eventpp include dir>
# Builds and runs both demonstrations of finding 1 (throwing comparison, throwing assignment).
cd "$(dirname "$0")" || exit 2
g++ -std=c++17 -O1 -pthread -I"$1" finding1.cpp -o f1 || exit 2
g++ -std=c++17 -O1 -pthread -I"$1" finding1b.cpp -o f1b || exit 2
./f1; rc1=$?
./f1b; rc2=$?
rm -f f1 f1b
[ $rc1 -ne 0 ] || [ $rc2 -ne 0 ] && exit 1
exit 0
