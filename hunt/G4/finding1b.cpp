// Finding 1, variant (b): same function, different single fault point.
// ScopedRemover<EventDispatcher>::removeListener erases the record from a std::vector<Item>.
// vector::erase shifts the following items down with Item's move assignment, which assigns the
// user's event type. If the 2nd shift throws, the first one has already overwritten the record
// of the listener to remove: the call fails, nothing was removed from the dispatcher, and the
// remover has lost the record - the listener outlives the remover.
#include <eventpp/eventdispatcher.h>
#include <eventpp/utilities/scopedremover.h>
#include <cstdio>
#include <stdexcept>

struct Fault : std::runtime_error { Fault() : std::runtime_error("injected fault") {} };
static int throwAtAssignment = -1; // k: the k-th assignment of Ev from now throws (0 based)

struct Ev {
	int v;
	explicit Ev(int v) : v(v) {}
	Ev(const Ev &) = default;
	Ev & operator = (const Ev & other) {
		if(throwAtAssignment >= 0 && throwAtAssignment-- == 0) {
			throw Fault(); // strong: nothing modified
		}
		v = other.v;
		return *this;
	}
};
bool operator < (const Ev & a, const Ev & b) { return a.v < b.v; }

int main()
{
	using D = eventpp::EventDispatcher<Ev, void ()>;
	D dispatcher;
	int callsA = 0, callsB = 0, callsC = 0;
	bool thrown = false;
	{
		eventpp::ScopedRemover<D> remover(dispatcher);
		auto hA = remover.appendListener(Ev(1), [&callsA]() { ++callsA; });
		remover.appendListener(Ev(2), [&callsB]() { ++callsB; });
		remover.appendListener(Ev(3), [&callsC]() { ++callsC; });

		throwAtAssignment = 1; // the second assignment of the event type inside removeListener
		try {
			remover.removeListener(Ev(1), hA);
		}
		catch(const Fault &) {
			thrown = true;
		}
		throwAtAssignment = -1;
		std::printf("removeListener(A) threw: %s\n", thrown ? "yes" : "no");
		dispatcher.dispatch(Ev(1));
		std::printf("A still registered after the failed call: %s (expected yes, nothing may change)\n", callsA == 1 ? "yes" : "no");
	}
	callsA = callsB = callsC = 0;
	dispatcher.dispatch(Ev(1));
	dispatcher.dispatch(Ev(2));
	dispatcher.dispatch(Ev(3));
	std::printf("after the ScopedRemover was destroyed: A called %d, B called %d, C called %d (expected 0 0 0)\n", callsA, callsB, callsC);
	if(thrown && (callsA + callsB + callsC) != 0) {
		std::printf("FAIL: a listener added through the ScopedRemover outlived it after a failed removeListener\n");
		return 1;
	}
	std::printf("PASS\n");
	return 0;
}
