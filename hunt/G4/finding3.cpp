// Finding 3: ScopedRemover<EventDispatcher>::appendListener / prependListener / insertListener:
// two faults in succession leave a listener in the dispatcher although the call failed.
// The listener is added to the dispatcher first, then the (event, handle) pair is recorded in the
// remover's vector (doAddItem). Recording copies the user's event type (and may allocate). If that
// throws, the catch block tries to undo the add with dispatcher->removeListener(), which compares
// the user's event type - the very next user-code point. If that throws too, the undo is skipped:
// the caller gets an exception (and no handle), the listener stays registered for ever and the
// remover does not know it.
#include <eventpp/eventdispatcher.h>
#include <eventpp/utilities/scopedremover.h>
#include <cstdio>
#include <stdexcept>

struct Fault : std::runtime_error { Fault() : std::runtime_error("injected fault") {} };

// User-code fault points of the event type: copies and comparisons. Point number `firstFault` and
// the one right after it throw ("singly and in succession").
static int pointCounter = 0;
static int firstFault = -1;
static int faultsInARow = 0;
static void userPoint()
{
	const int p = pointCounter++;
	if(firstFault >= 0 && p >= firstFault && p < firstFault + faultsInARow) {
		throw Fault();
	}
}

struct Ev {
	int v;
	explicit Ev(int v) : v(v) {}
	Ev(const Ev & other) : v(other.v) { userPoint(); }
	Ev & operator = (const Ev & other) { userPoint(); v = other.v; return *this; }
};
bool operator < (const Ev & a, const Ev & b) {
	userPoint();
	return a.v < b.v;
}

int main()
{
	using D = eventpp::EventDispatcher<Ev, void ()>;
	int failures = 0;
	int singleFailures = 0;

	for(int succession = 1; succession <= 2; ++succession) {
		for(int k = 0; k < 64; ++k) {
			D dispatcher;
			int calls = 0;
			bool thrown = false;
			const Ev ev(1);
			{
				eventpp::ScopedRemover<D> remover(dispatcher);
				remover.appendListener(Ev(7), []() {}); // some unrelated state

				pointCounter = 0;
				firstFault = k;
				faultsInARow = succession;
				try {
					remover.appendListener(ev, [&calls]() { ++calls; });
				}
				catch(const Fault &) {
					thrown = true;
				}
				firstFault = -1;
				if(! thrown) {
					break; // k is beyond the last fault point of the operation
				}

				// the call failed: the listener must not be in the dispatcher
				dispatcher.dispatch(ev);
				if(calls != 0) {
					std::printf("faults at user points %d..%d: appendListener threw, but the listener is registered (called %d time)\n",
						k, k + succession - 1, calls);
				}
			}
			calls = 0;
			dispatcher.dispatch(ev);
			if(calls != 0) {
				std::printf("faults at user points %d..%d: ...and it is still registered after the ScopedRemover was destroyed\n",
					k, k + succession - 1);
				++failures;
				if(succession == 1) ++singleFailures;
			}
		}
	}

	if(failures != 0) {
		std::printf("FAIL: a failed ScopedRemover::appendListener left its listener in the dispatcher (%d fault sequences, %d of them single faults)\n", failures, singleFailures);
		return 1;
	}
	std::printf("PASS\n");
	return 0;
}
