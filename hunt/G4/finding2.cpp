// Finding 2: EventQueue::enqueue with the OrderedQueueList policy is not exception safe.
// OrderedQueueList::splice links the new event into the queue first and sorts afterwards. The
// sort runs the user's comparison. If the comparison throws, enqueue() fails with that exception
// but the event has ALREADY been added: the queue is not "exactly as it was before the call".
// In addition no waiting thread is notified about the event that was added.
#include <eventpp/eventqueue.h>
#include <eventpp/utilities/orderedqueuelist.h>
#include <cstdio>
#include <stdexcept>
#include <vector>

static int throwAtComparison = -1; // -1: never; k: the k-th comparison from now throws (0 based)
struct Fault : std::runtime_error { Fault() : std::runtime_error("injected comparison fault") {} };

struct MyCompare
{
	template <typename T>
	bool operator() (const T & a, const T & b) const {
		if(throwAtComparison >= 0 && throwAtComparison-- == 0) {
			throw Fault();
		}
		return a.event < b.event;
	}
};

struct MyPolicies
{
	template <typename Item>
	using QueueList = eventpp::OrderedQueueList<Item, MyCompare>;
};

int main()
{
	using Q = eventpp::EventQueue<int, void (int), MyPolicies>;
	int failures = 0;

	for(int k = 0; k < 16; ++k) {
		Q queue;
		std::vector<int> seen;
		for(int e = 1; e <= 5; ++e) {
			queue.appendListener(e, [&seen](int v) { seen.push_back(v); });
		}
		queue.enqueue(3);
		queue.enqueue(1);
		queue.enqueue(5);

		bool thrown = false;
		throwAtComparison = k;
		try {
			queue.enqueue(2);
		}
		catch(const Fault &) {
			thrown = true;
		}
		throwAtComparison = -1;
		if(! thrown) {
			break; // fewer than k+1 comparisons in this enqueue
		}

		// enqueue(2) failed, so the queue must still hold exactly 1 3 5 (in any case no 2)
		queue.process();
		std::printf("k=%d: enqueue(2) threw; events processed afterwards:", k);
		bool has2 = false;
		for(int v : seen) {
			std::printf(" %d", v);
			if(v == 2) has2 = true;
		}
		std::printf("  (expected: 1 3 5)\n");
		if(has2 || seen.size() != 3) {
			++failures;
		}
	}

	if(failures != 0) {
		std::printf("FAIL: the event of a failed enqueue() was added to the queue anyway (%d throw points)\n", failures);
		return 1;
	}
	std::printf("PASS\n");
	return 0;
}
