// Finding 1: ScopedRemover<EventDispatcher>::removeListener is not exception safe.
// It forgets the listener (erases it from its own item list) BEFORE it asks the dispatcher to
// remove it. dispatcher->removeListener() looks the event up in the map, which compares the user's
// event type. If that comparison throws, the exception reaches the caller, the listener is still
// in the dispatcher, but the remover does not own it any more: it is never removed when the
// remover is reset / goes out of scope (the very thing ScopedRemover exists for), and a retry of
// removeListener reports `false`.
#include <eventpp/eventdispatcher.h>
#include <eventpp/utilities/scopedremover.h>
#include <cstdio>
#include <stdexcept>

static int throwAtComparison = -1; // -1: never; k: the k-th comparison from now throws (0 based)

struct Fault : std::runtime_error { Fault() : std::runtime_error("injected comparison fault") {} };

struct Ev {
	int v;
};
bool operator < (const Ev & a, const Ev & b) {
	if(throwAtComparison >= 0 && throwAtComparison-- == 0) {
		throw Fault();
	}
	return a.v < b.v;
}

int main()
{
	using D = eventpp::EventDispatcher<Ev, void ()>; // Ev has no std::hash -> std::map<Ev, CallbackList>
	int failures = 0;

	// every comparison executed by the operation is tried as the throw point
	for(int k = 0; k < 8; ++k) {
		D dispatcher;
		int calls = 0;
		bool thrown = false;
		bool retry = false;
		{
			eventpp::ScopedRemover<D> remover(dispatcher);
			auto handle = remover.appendListener(Ev{ 1 }, [&calls]() { ++calls; });

			throwAtComparison = k;
			try {
				remover.removeListener(Ev{ 1 }, handle);
			}
			catch(const Fault &) {
				thrown = true;
			}
			throwAtComparison = -1;
			if(! thrown) {
				break; // the operation has fewer than k+1 comparison points
			}

			// The call failed: everything must be as before, i.e. the listener is in the dispatcher
			// (it is) AND the remover is still responsible for it.
			dispatcher.dispatch(Ev{ 1 });
			std::printf("k=%d: removeListener threw; listener still registered: %s\n", k, calls == 1 ? "yes" : "no");

			retry = remover.removeListener(Ev{ 1 }, handle);
			std::printf("k=%d: retry of removeListener returned %s (expected true)\n", k, retry ? "true" : "false");
			if(! retry) {
				++failures;
			}
		}
		// remover is gone: no listener added through it may survive
		calls = 0;
		dispatcher.dispatch(Ev{ 1 });
		std::printf("k=%d: calls after the ScopedRemover was destroyed: %d (expected 0)\n", k, calls);
		if(calls != 0) {
			++failures;
		}
	}

	if(failures != 0) {
		std::printf("FAIL: ScopedRemover::removeListener lost track of a listener after a throwing event comparison (%d violations)\n", failures);
		return 1;
	}
	std::printf("PASS\n");
	return 0;
}
