#!/bin/sh
# usage: ./finding3.sh <eventpp include dir>
cd "$(dirname "$0")" || exit 2
g++ -std=c++17 -O1 -pthread -I"$1" finding3.cpp -o f3 || exit 2
./f3
rc=$?
rm -f f3
exit $rc
