// Finding 2 - property C05: "each enqueued event is consumed exactly once ... in enqueue order"
// over "all finite histories of queue operations, including operations issued from listeners and predicates
// during a processing call".
//
// process()/processIf()/processUntil() swap the whole pending list into a local list before dispatching.
// A consuming call issued from a listener therefore cannot see the OLDER events the outer call still holds,
// only the NEWER ones enqueued meanwhile - and it consumes those first.
//
// History A (single thread):
//   enqueue(1); enqueue(2); enqueue(3);
//   process()            listener of 1: enqueue(4); process();     <- nested call dispatches 4
//   => dispatch order 1 4 2 3, enqueue order 1 2 3 4.
// History B (single thread):
//   enqueue(1); enqueue(2); enqueue(3);
//   processUntil(never)  listener of 1: enqueue(4); takeEvent(&e); <- hands out 4 while 2 and 3 are pending
//   => consumption order 1 4 2 3.
// History C (single thread):
//   enqueue(1); enqueue(2);
//   processIf(all)       listener of 1: enqueue(3); processOne();  <- dispatches 3 before 2
//   => dispatch order 1 3 2.

#include <eventpp/eventqueue.h>

#include <iostream>
#include <vector>

struct Policies { using Threading = eventpp::SingleThreading; };
using EQ = eventpp::EventQueue<int, void (int), Policies>;

static bool report(const char * name, const std::vector<int> & got, const std::vector<int> & expected)
{
	std::cout << name << ": consumed";
	for(int v : got) std::cout << ' ' << v;
	std::cout << " ; enqueue order";
	for(int v : expected) std::cout << ' ' << v;
	std::cout << std::endl;
	if(got != expected) {
		std::cout << "FAIL " << name << ": events were not consumed in enqueue order" << std::endl;
		return true;
	}
	return false;
}

int main()
{
	bool failed = false;

	{
		EQ q;
		std::vector<int> got;
		q.appendListener(7, [&](int v) {
			got.push_back(v);
			if(v == 1) {
				q.enqueue(7, 4);
				q.process();
			}
		});
		q.enqueue(7, 1); q.enqueue(7, 2); q.enqueue(7, 3);
		q.process();
		while(q.process()) {}
		failed = report("A process() nested in process()", got, { 1, 2, 3, 4 }) || failed;
	}

	{
		EQ q;
		std::vector<int> got;
		q.appendListener(7, [&](int v) {
			got.push_back(v);
			if(v == 1) {
				q.enqueue(7, 4);
				EQ::QueuedEvent e;
				if(q.takeEvent(&e)) {
					got.push_back(std::get<0>(e.arguments));
				}
			}
		});
		q.enqueue(7, 1); q.enqueue(7, 2); q.enqueue(7, 3);
		q.processUntil([]() { return false; });
		while(q.process()) {}
		failed = report("B takeEvent() nested in processUntil()", got, { 1, 2, 3, 4 }) || failed;
	}

	{
		EQ q;
		std::vector<int> got;
		q.appendListener(7, [&](int v) {
			got.push_back(v);
			if(v == 1) {
				q.enqueue(7, 3);
				q.processOne();
			}
		});
		q.enqueue(7, 1); q.enqueue(7, 2);
		q.processIf([](int) { return true; });
		while(q.process()) {}
		failed = report("C processOne() nested in processIf()", got, { 1, 2, 3 }) || failed;
	}

	if(! failed) std::cout << "PASS" << std::endl;
	return failed ? 1 : 0;
}
