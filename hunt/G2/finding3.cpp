// Finding 3 (BORDERLINE - counts only if a listener that throws is accepted as part of a "history";
// the quantifiers of C05/C11 do not mention exceptions explicitly).
//
// Property C05: "each enqueued event is consumed exactly once - dispatched ..., or handed out by exactly one
// takeEvent, or discarded by clearEvents", "events a predicate declines stay queued in their original order".
// Property C11: "If emptyQueue returns true ... every event whose enqueue had completed ... has been fully consumed".
//
// process/processIf/processUntil keep the swapped-out events in a LOCAL list. When a listener (or predicate)
// throws, stack unwinding destroys that local list together with every event still in it: events not yet
// reached AND events the predicate had already declined. They are never dispatched, taken or cleared, and
// emptyQueue() says true afterwards.
//
// History A: enqueue 1,2,3; processIf(p) with p declining 1 and 3 and accepting 2; the listener throws on 2.
//            Expected: 1 and 3 (declined) are still queued. Observed: queue empty, 1 and 3 destroyed undelivered.
// History B: enqueue 1,2,3; process(); the listener throws on 1.
//            Expected: 2 and 3 still pending (or at least dispatched/cleared by somebody). Observed: gone.

#include <eventpp/eventqueue.h>

#include <iostream>
#include <memory>
#include <stdexcept>
#include <vector>

struct Payload
{
	explicit Payload(int v, std::vector<int> * destroyed) : value(v), destroyed(destroyed) {}
	~Payload() { destroyed->push_back(value); }
	int value;
	std::vector<int> * destroyed;
};
using Ptr = std::shared_ptr<Payload>;

struct Policies { using Threading = eventpp::SingleThreading; };
using EQ = eventpp::EventQueue<int, void (const Ptr &), Policies>;

int main()
{
	bool failed = false;

	{
		std::vector<int> delivered, destroyed;
		EQ q;
		q.appendListener(7, [&](const Ptr & p) {
			if(p->value == 2) throw std::runtime_error("listener failed");
			delivered.push_back(p->value);
		});
		for(int i = 1; i <= 3; ++i) q.enqueue(7, std::make_shared<Payload>(i, &destroyed));
		bool thrown = false;
		try { q.processIf([](const Ptr & p) { return p->value == 2; }); }
		catch(const std::runtime_error &) { thrown = true; }
		const bool empty = q.emptyQueue();
		EQ::QueuedEvent e;
		const bool took = q.takeEvent(&e);
		std::cout << "A processIf: thrown=" << thrown << " emptyQueue()=" << empty << " takeEvent()=" << took
			<< " delivered=" << delivered.size() << " payloads destroyed undelivered:";
		for(int v : destroyed) std::cout << ' ' << v;
		std::cout << std::endl;
		if(empty && ! took && delivered.empty()) {
			std::cout << "FAIL A: events 1 and 3 were declined by the predicate, yet they are no longer queued and were never dispatched/taken/cleared" << std::endl;
			failed = true;
		}
	}

	{
		std::vector<int> delivered, destroyed;
		EQ q;
		q.appendListener(7, [&](const Ptr & p) {
			if(p->value == 1) throw std::runtime_error("listener failed");
			delivered.push_back(p->value);
		});
		for(int i = 1; i <= 3; ++i) q.enqueue(7, std::make_shared<Payload>(i, &destroyed));
		bool thrown = false;
		try { q.process(); }
		catch(const std::runtime_error &) { thrown = true; }
		const bool empty = q.emptyQueue();
		const bool again = q.process();
		std::cout << "B process: thrown=" << thrown << " emptyQueue()=" << empty << " next process()=" << again
			<< " delivered=" << delivered.size() << " payloads destroyed undelivered:";
		for(int v : destroyed) std::cout << ' ' << v;
		std::cout << std::endl;
		if(empty && ! again && delivered.empty()) {
			std::cout << "FAIL B: events 2 and 3 were never dispatched, taken or cleared, and emptyQueue() is true" << std::endl;
			failed = true;
		}
	}

	if(! failed) std::cout << "PASS" << std::endl;
	return failed ? 1 : 0;
}
