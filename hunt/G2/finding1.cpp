// Finding 1 - property C06, ordering clause:
//   "Events enqueued by one thread and consumed by one thread are consumed in the order they were enqueued"
//
// processIf / processUntil swap the WHOLE pending list out under queueListMutex, release the mutex, and only
// later re-acquire it to put the events they did not dispatch back at the FRONT of the pending list. While the
// events are parked in that private list, another consumer sees only the events enqueued afterwards and
// consumes them first.
//
// Threads: P  = the only producer (enqueues 1, 2, 3 in that order)
//          C1 = the only thread that ever consumes anything (processOne, then process)
//          C2 = calls processUntil / processIf once, its predicate lets nothing through, so C2 consumes nothing
//
// Interleaving (forced with a custom Threading::Mutex, no sleeps): C2 is parked at its SECOND acquisition of
// a queue mutex, i.e. after the swap-out critical section and before the put-back critical section.
//   P : enqueue(1); enqueue(2)
//   C2: processUntil(pred)   -> lock#1: swap out [1,2]; pred(1) says "stop"; lock#2 (put-back) ... parked
//   P : enqueue(3)
//   C1: processOne()         -> dispatches 3
//   C2: released             -> puts [1,2] back, returns false (dispatched nothing)
//   C1: process()            -> dispatches 1, 2
// C1 consumed P's events as 3,1,2.
//
// The same is shown for EventQueue::processIf and HeterEventQueue::processIf.

#include <eventpp/eventqueue.h>
#include <eventpp/hetereventqueue.h>

#include <atomic>
#include <chrono>
#include <condition_variable>
#include <functional>
#include <iostream>
#include <mutex>
#include <thread>
#include <vector>

namespace {

struct Gate
{
	std::mutex m;
	std::condition_variable cv;
	bool opened = false;

	void open() {
		{ std::lock_guard<std::mutex> l(m); opened = true; }
		cv.notify_all();
	}
	// bounded wait: false means "blocked forever" as far as this test is concerned
	bool waitOpen(int ms = 10000) {
		std::unique_lock<std::mutex> l(m);
		return cv.wait_for(l, std::chrono::milliseconds(ms), [this]() { return opened; });
	}
};

// Parking control: the thread whose tlParkAt is N > 0 is parked at its N-th Mutex::lock() call.
thread_local int tlParkAt = 0;
thread_local int tlLockCount = 0;
thread_local Gate * tlParked = nullptr;
thread_local Gate * tlRelease = nullptr;
std::atomic<bool> gTimeout(false);

struct ParkMutex
{
	std::mutex m;
	void lock() {
		if(tlParkAt > 0) {
			++tlLockCount;
			if(tlLockCount == tlParkAt) {
				tlParked->open();
				if(! tlRelease->waitOpen()) {
					gTimeout = true;
				}
			}
		}
		m.lock();
	}
	void unlock() { m.unlock(); }
};

struct Policies
{
	using Threading = eventpp::GeneralThreading<ParkMutex, std::atomic, std::condition_variable_any>;
};

struct Record { int value; std::thread::id tid; };

// A worker thread that executes steps handed to it, so that "P" and "C1" are each really ONE thread.
struct Worker
{
	std::mutex m;
	std::condition_variable cv;
	std::function<void ()> job;
	bool hasJob = false, done = false, quit = false;
	std::thread th;

	Worker() : th([this]() { run(); }) {}
	~Worker() { { std::lock_guard<std::mutex> l(m); quit = true; } cv.notify_all(); th.join(); }

	void run() {
		for(;;) {
			std::function<void ()> j;
			{
				std::unique_lock<std::mutex> l(m);
				cv.wait(l, [this]() { return hasJob || quit; });
				if(quit) return;
				j = job; hasJob = false;
			}
			j();
			{ std::lock_guard<std::mutex> l(m); done = true; }
			cv.notify_all();
		}
	}
	bool exec(std::function<void ()> j) {
		std::unique_lock<std::mutex> l(m);
		job = j; hasJob = true; done = false;
		cv.notify_all();
		return cv.wait_for(l, std::chrono::seconds(10), [this]() { return done; });
	}
};

template <typename Queue, typename Enqueue, typename Park>
bool scenario(const char * name, Enqueue enqueue, Park parkedCall)
{
	Queue queue;
	std::mutex traceMutex;
	std::vector<Record> trace;

	queue.appendListener(7, [&](int v) {
		std::lock_guard<std::mutex> l(traceMutex);
		trace.push_back(Record{ v, std::this_thread::get_id() });
	});

	Gate parked, release;
	gTimeout = false;

	Worker P, C1;
	bool ok = true;
	bool c2Result = true;

	ok = P.exec([&]() { enqueue(queue, 1); enqueue(queue, 2); }) && ok;

	std::thread C2([&]() {
		tlParked = &parked;
		tlRelease = &release;
		tlLockCount = 0;
		tlParkAt = 2; // lock#1 = swap-out, lock#2 = put-back
		c2Result = parkedCall(queue);
		tlParkAt = 0;
	});
	if(! parked.waitOpen()) {
		std::cout << "FAIL(setup) " << name << ": C2 never reached its second lock" << std::endl;
		release.open(); C2.join();
		return true;
	}

	ok = P.exec([&]() { enqueue(queue, 3); }) && ok;
	bool r1 = false, r2 = false;
	ok = C1.exec([&]() { r1 = queue.processOne(); }) && ok;

	release.open();
	C2.join();

	ok = C1.exec([&]() { r2 = queue.process(); }) && ok;

	if(! ok || gTimeout) {
		std::cout << "FAIL(setup) " << name << ": a step timed out" << std::endl;
		return true;
	}

	std::cout << name << ": P enqueued 1 2 3; C2's call returned " << (c2Result ? "true" : "false")
		<< " (it dispatched nothing); C1 processOne=" << r1 << " process=" << r2 << "; consumed:";
	bool sameThread = true;
	for(const Record & r : trace) {
		std::cout << ' ' << r.value;
		if(r.tid != trace.front().tid) sameThread = false;
	}
	std::cout << (sameThread ? "  (all on thread C1)" : "  (on several threads)") << std::endl;

	const bool inOrder = trace.size() == 3 && trace[0].value == 1 && trace[1].value == 2 && trace[2].value == 3;
	if(trace.size() == 3 && sameThread && ! inOrder) {
		std::cout << "FAIL " << name << ": one producer, one consuming thread, yet consumption order is "
			<< trace[0].value << ' ' << trace[1].value << ' ' << trace[2].value << " instead of 1 2 3" << std::endl;
		return true;
	}
	if(! inOrder) {
		std::cout << "FAIL(other) " << name << ": unexpected trace" << std::endl;
		return true;
	}
	return false;
}

// Variant: two overlapping processIf calls (both decline everything). The one that swapped LATER puts back
// LAST, and because every put-back goes to the FRONT, the newer event ends up ahead of the older ones for good:
//   P : enqueue(1); enqueue(2)
//   C2: processIf(decline)  -> swaps out [1,2], parked before put-back
//   P : enqueue(3)
//   C3: processIf(decline)  -> swaps out [3],   parked before put-back
//   C2: released -> queue = [1,2]      C3: released -> queue = [3,1,2]
//   C1: process() (nothing else is running any more) -> dispatches 3, 1, 2
template <typename Queue, typename Enqueue, typename Park>
bool scenarioTwoPutBacks(const char * name, Enqueue enqueue, Park parkedCall)
{
	Queue queue;
	std::mutex traceMutex;
	std::vector<Record> trace;

	queue.appendListener(7, [&](int v) {
		std::lock_guard<std::mutex> l(traceMutex);
		trace.push_back(Record{ v, std::this_thread::get_id() });
	});

	Gate parked2, release2, parked3, release3;
	gTimeout = false;

	Worker P, C1;
	bool ok = true;
	bool r2 = true, r3 = true;

	auto parker = [&](Gate * parked, Gate * release, bool * result) {
		tlParked = parked;
		tlRelease = release;
		tlLockCount = 0;
		tlParkAt = 2;
		*result = parkedCall(queue);
		tlParkAt = 0;
	};

	ok = P.exec([&]() { enqueue(queue, 1); enqueue(queue, 2); }) && ok;
	std::thread C2(parker, &parked2, &release2, &r2);
	const bool p2 = parked2.waitOpen();
	ok = P.exec([&]() { enqueue(queue, 3); }) && ok;
	std::thread C3(parker, &parked3, &release3, &r3);
	const bool p3 = parked3.waitOpen();

	release2.open();
	C2.join();
	release3.open();
	C3.join();

	bool r1 = false;
	ok = C1.exec([&]() { r1 = queue.process(); }) && ok;

	if(! ok || ! p2 || ! p3 || gTimeout) {
		std::cout << "FAIL(setup) " << name << ": a step timed out" << std::endl;
		return true;
	}

	std::cout << name << ": P enqueued 1 2 3; both processIf calls returned " << r2 << "/" << r3
		<< " (dispatched nothing); afterwards a single process() on C1 dispatched:";
	for(const Record & r : trace) {
		std::cout << ' ' << r.value;
	}
	std::cout << std::endl;

	const bool inOrder = trace.size() == 3 && trace[0].value == 1 && trace[1].value == 2 && trace[2].value == 3;
	if(trace.size() == 3 && ! inOrder) {
		std::cout << "FAIL " << name << ": one producer, one consuming thread, yet consumption order is "
			<< trace[0].value << ' ' << trace[1].value << ' ' << trace[2].value << " instead of 1 2 3" << std::endl;
		return true;
	}
	if(! inOrder) {
		std::cout << "FAIL(other) " << name << ": unexpected trace" << std::endl;
		return true;
	}
	return false;
}

} // namespace

int main()
{
	using EQ = eventpp::EventQueue<int, void (int), Policies>;
	using HQ = eventpp::HeterEventQueue<int, eventpp::HeterTuple<void (int)>, Policies>;

	bool failed = false;

	failed = scenario<EQ>(
		"EventQueue::processUntil",
		[](EQ & q, int v) { q.enqueue(7, v); },
		[](EQ & q) { return q.processUntil([](int) { return true; }); }
	) || failed;

	failed = scenario<EQ>(
		"EventQueue::processIf",
		[](EQ & q, int v) { q.enqueue(7, v); },
		[](EQ & q) { return q.processIf([](int) { return false; }); }
	) || failed;

	failed = scenario<HQ>(
		"HeterEventQueue::processIf",
		[](HQ & q, int v) { q.enqueue(7, v); },
		[](HQ & q) { return q.processIf([](int) { return false; }); }
	) || failed;

	failed = scenarioTwoPutBacks<EQ>(
		"EventQueue::processIf x2 (queue left reordered)",
		[](EQ & q, int v) { q.enqueue(7, v); },
		[](EQ & q) { return q.processIf([](int) { return false; }); }
	) || failed;

	if(! failed) {
		std::cout << "PASS" << std::endl;
	}
	return failed ? 1 : 0;
}
