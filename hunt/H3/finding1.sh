#!/bin/sh
# usage: finding1.sh <eventpp include dir>
INC="${1:?usage: $0 <include dir>}"
DIR="$(cd "$(dirname "$0")" && pwd)"
BIN="$(mktemp /tmp/finding1.XXXXXX)"
g++ -std=c++11 -O1 -Wall -I"$INC" "$DIR/finding1.cpp" -o "$BIN" || { rm -f "$BIN"; echo "FAIL compile"; exit 2; }
"$BIN"
RC=$?
rm -f "$BIN"
exit $RC
