// finding1: EventQueue::processIf / processUntil destroy the events they have taken out of the queue
// but not dispatched - the ones the predicate DECLINED earlier in the same call and the ones it has
// not looked at yet - when a listener (or the predicate) throws.
//
// Property C05: "each enqueued event is consumed exactly once - dispatched ..., or handed out by
// exactly one takeEvent, or discarded by clearEvents ... events a predicate declines stay queued in
// their original order ahead of newer ones".
// doc/introduction.md, "Exception safety": listeners may throw when invoked; "Almost all operations
// guarantee strong exception safety ... An except is EventQueue::process".
#include <eventpp/eventqueue.h>

#include <cstdio>
#include <stdexcept>
#include <string>
#include <vector>

namespace {

int failures = 0;

std::string toString(const std::vector<int> & v)
{
	std::string s = "{";
	for(std::size_t i = 0; i < v.size(); ++i) {
		s += (i ? "," : "") + std::to_string(v[i]);
	}
	return s + "}";
}

void check(const char * scenario, const std::vector<int> & dispatched, const std::vector<int> & neverConsumed)
{
	std::printf("%s: dispatched so far %s, events neither dispatched, taken nor cleared: %s\n",
		scenario, toString(dispatched).c_str(), toString(neverConsumed).c_str());
	if(! neverConsumed.empty()) {
		std::printf("FAIL %s: %d event(s) vanished from the queue without being consumed\n",
			scenario, (int)neverConsumed.size());
		++failures;
	}
}

struct Policies { using Threading = eventpp::SingleThreading; };

using Queue = eventpp::EventQueue<int, void (int), Policies>;

// Runs `call` on a queue holding the events 1..5 (all for event key = value), then drains the queue
// and reports which events were never consumed in any way.
template <typename F>
void scenario(const char * name, F call)
{
	Queue queue;
	std::vector<int> dispatched;
	bool armed = true;
	for(int key = 1; key <= 5; ++key) {
		queue.appendListener(key, [&dispatched, &armed](int value) {
			dispatched.push_back(value);
			if(value == 3 && armed) {
				armed = false;
				throw std::runtime_error("listener of event 3 throws");
			}
		});
	}
	for(int value = 1; value <= 5; ++value) {
		queue.enqueue(value);
	}

	bool caught = false;
	try {
		call(queue);
	}
	catch(const std::runtime_error &) {
		caught = true;
	}
	std::printf("%s: exception propagated to the caller: %s; emptyQueue() afterwards: %s\n",
		name, caught ? "yes" : "no", queue.emptyQueue() ? "true" : "false");

	// Whatever is still queued is dispatched now.
	while(queue.process()) {
	}

	std::vector<int> neverConsumed;
	for(int value = 1; value <= 5; ++value) {
		bool found = false;
		for(int d : dispatched) {
			found = found || d == value;
		}
		if(! found) {
			neverConsumed.push_back(value);
		}
	}
	check(name, dispatched, neverConsumed);
}

} // namespace

int main()
{
	// 1 accepted and dispatched, 2 declined, 3 accepted - its listener throws -, 4 and 5 not examined yet.
	scenario("processIf/listener throws", [](Queue & queue) {
		queue.processIf([](int value) { return value != 2; });
	});

	// The same with the user code that throws being the predicate (at event 3).
	scenario("processIf/predicate throws", [](Queue & queue) {
		queue.processIf([](int value) -> bool {
			if(value == 3) {
				throw std::runtime_error("predicate throws");
			}
			return value != 2;
		});
	});

	// processUntil: 1, 2 dispatched, listener of 3 throws, 4 and 5 are behind it.
	scenario("processUntil/listener throws", [](Queue & queue) {
		queue.processUntil([](int value) { return value == 5; });
	});

	// Reference: the same history driven by processOne loses nothing but the event whose listener threw.
	scenario("processOne loop (reference)", [](Queue & queue) {
		while(queue.processOne()) {
		}
	});

	if(failures != 0) {
		std::printf("FAIL finding1: %d scenario(s) lost queued events\n", failures);
		return 1;
	}
	std::printf("PASS finding1\n");
	return 0;
}
