// finding2: EventQueue::takeEvent loses the event when handing it out throws.
//
// takeEvent first unlinks the front slot from queueList, then assigns the event to *queuedEvent.
// If that assignment throws (an argument type whose assignment can fail; a type with user-declared
// copy operations has no move assignment, so std::move falls back to the copying one), the local
// list holding the slot is destroyed: the event has left the queue but was not handed out.
// peekEvent performs the same assignment while the event is still linked and loses nothing.
//
// Property C05: "each enqueued event is consumed exactly once - dispatched ..., or handed out by
// exactly one takeEvent, or discarded by clearEvents".
// doc/introduction.md, "Exception safety": "Almost all operations guarantee strong exception safety,
// which means the underlying data remains original value on exception is thrown. An except is
// EventQueue::process".
#include <eventpp/eventqueue.h>

#include <cstdio>
#include <stdexcept>
#include <string>
#include <vector>

namespace {

bool failNextAssignment = false;

// A copyable payload in the pre-C++11 style: copy operations only, and copying may fail.
struct Payload
{
	Payload() : value(0) {}
	explicit Payload(int value) : value(value) {}
	Payload(const Payload & other) : value(other.value) {}
	Payload & operator = (const Payload & other) {
		if(failNextAssignment) {
			failNextAssignment = false;
			throw std::runtime_error("out of resources while copying Payload");
		}
		value = other.value;
		return *this;
	}

	int value;
};

struct Policies { using Threading = eventpp::SingleThreading; };
using Queue = eventpp::EventQueue<int, void (const Payload &), Policies>;

std::string toString(const std::vector<int> & v)
{
	std::string s = "{";
	for(std::size_t i = 0; i < v.size(); ++i) {
		s += (i ? "," : "") + std::to_string(v[i]);
	}
	return s + "}";
}

// Returns the values that were neither dispatched nor handed out.
std::vector<int> run(const bool useTake)
{
	Queue queue;
	std::vector<int> dispatched;
	queue.appendListener(7, [&dispatched](const Payload & p) { dispatched.push_back(p.value); });
	queue.enqueue(7, Payload(1));
	queue.enqueue(7, Payload(2));
	queue.enqueue(7, Payload(3));

	std::vector<int> handedOut;
	Queue::QueuedEvent event;
	bool caught = false;
	failNextAssignment = true;
	try {
		const bool found = useTake ? queue.takeEvent(&event) : queue.peekEvent(&event);
		if(found) {
			handedOut.push_back(std::get<0>(event.arguments).value);
		}
	}
	catch(const std::runtime_error &) {
		caught = true;
	}
	failNextAssignment = false;

	while(queue.process()) {
	}

	std::vector<int> lost;
	for(int value = 1; value <= 3; ++value) {
		bool found = false;
		for(int d : dispatched) found = found || d == value;
		for(int d : handedOut) found = found || d == value;
		if(! found) lost.push_back(value);
	}
	std::printf("%s: exception propagated: %s, handed out %s, dispatched afterwards %s, lost %s\n",
		useTake ? "takeEvent" : "peekEvent", caught ? "yes" : "no",
		toString(handedOut).c_str(), toString(dispatched).c_str(), toString(lost).c_str());
	return lost;
}

} // namespace

int main()
{
	const std::vector<int> lostByPeek = run(false);
	const std::vector<int> lostByTake = run(true);

	int result = 0;
	if(! lostByPeek.empty()) {
		std::printf("FAIL finding2: a failed peekEvent lost %d event(s)\n", (int)lostByPeek.size());
		result = 1;
	}
	if(! lostByTake.empty()) {
		std::printf("FAIL finding2: a failed takeEvent removed event %s from the queue without handing it out\n",
			toString(lostByTake).c_str());
		result = 1;
	}
	if(result == 0) {
		std::printf("PASS finding2\n");
	}
	return result;
}
