// finding1: C03 - "every call returns without deadlock, crash or memory error".
//
// A traversal (forEachIf / operator() / dispatch) that is parked inside a callback keeps a strong
// reference to its current node only. If another thread meanwhile removes the callbacks of the list in
// list order, every removed node stays alive through the `next` pointer of the node removed before it
// (doFreeNode deliberately keeps node->next / node->previous). When the traversal then ends early
// (forEachIf's functor returns false, canContinueInvoking() returns false, or the callback throws), its
// local `node` is released and the whole chain of removed nodes is destroyed RECURSIVELY:
//   ~Node -> ~shared_ptr(next) -> ~Node -> ~shared_ptr(next) -> ...
// The stack used by that one forEachIf() call therefore grows linearly with the number of remove() calls
// the other thread made, and the call crashes (stack overflow, SIGSEGV) once that number is big enough.
// The same happens through Node::previous when the callbacks are removed from last to first while the
// traversal is parked in the last callback - then not even an early exit is needed: a plain invocation
// that runs to its normal end releases the chain when it steps off the last node.
//
// usage: finding1 measure            -> measures the stack consumed while the call returns, 3 sizes, both variants
//        finding1 crash [N]          -> forward variant with N callbacks (default 1000000): the process dies
//        finding1 crash-reverse [N]  -> reverse variant with N callbacks (default 1000000): the process dies
//
// The interleaving is forced with a gate inside one callback (no sleeps): thread T1 is inside that
// callback while the main thread performs all the removals, then T1 is released.

#include <eventpp/callbacklist.h>

#include <atomic>
#include <condition_variable>
#include <cstdint>
#include <cstdio>
#include <cstdlib>
#include <cstring>
#include <mutex>
#include <thread>
#include <vector>

namespace {

std::atomic<bool> armed(false);
std::atomic<std::uintptr_t> lowest(UINTPTR_MAX);
std::atomic<std::uintptr_t> highest(0);
std::atomic<long> destroyedWhileArmed(0);

// A callback whose destructor only records how deep the stack is. It does not touch the list.
struct Probe
{
	Probe() {}
	Probe(const Probe &) {}
	~Probe() {
		if(armed.load()) {
			volatile char marker = 0;
			const std::uintptr_t address = reinterpret_cast<std::uintptr_t>(&marker);
			std::uintptr_t value = lowest.load();
			while(address < value && ! lowest.compare_exchange_weak(value, address)) {}
			value = highest.load();
			while(address > value && ! highest.compare_exchange_weak(value, address)) {}
			++destroyedWhileArmed;
		}
	}
	void operator() () const {}
};

struct Gate
{
	std::mutex mutex;
	std::condition_variable cv;
	bool entered = false;
	bool resume = false;
};

using CL = eventpp::CallbackList<void ()>;

// Returns the number of bytes of stack between the shallowest and the deepest callback destructor that
// ran while T1's forEachIf() call was returning.
//
// reverse == false: the gate is the FIRST callback, T1 enumerates with forEachIf and stops after it; the
//                   main thread removes the callbacks from first to last (chain through Node::next).
// reverse == true:  the gate is the LAST callback, T1 simply invokes the list with operator() and the
//                   invocation runs to its normal end; the main thread removes the callbacks from last
//                   to first (chain through Node::previous).
std::uintptr_t runHistory(const int count, const bool reverse, bool * allRemoved, long * destroyed)
{
	CL list;
	Gate gate;
	std::vector<CL::Handle> handles;
	handles.reserve(count + 1);

	// Gate callback: parks the traversing thread.
	const auto gateCallback = [&gate]() {
		std::unique_lock<std::mutex> lock(gate.mutex);
		gate.entered = true;
		gate.cv.notify_all();
		gate.cv.wait(lock, [&gate]() { return gate.resume; });
	};
	if(! reverse) {
		handles.push_back(list.append(gateCallback));
	}
	for(int i = 0; i < count; ++i) {
		handles.push_back(list.append(Probe()));
	}
	if(reverse) {
		handles.push_back(list.append(gateCallback));
	}

	lowest = UINTPTR_MAX;
	highest = 0;
	destroyedWhileArmed = 0;

	bool traversalResult = true;
	std::thread traverser([&list, &traversalResult, reverse]() {
		if(reverse) {
			// Plain invocation, runs to its normal end (the Probe callbacks do nothing).
			list();
		}
		else {
			// Invoke the first callback only, then stop the enumeration.
			traversalResult = list.forEachIf([](CL::Callback & callback) -> bool {
				callback();
				return false;
			});
		}
	});

	{
		std::unique_lock<std::mutex> lock(gate.mutex);
		gate.cv.wait(lock, [&gate]() { return gate.entered; });
	}

	// T1 is inside the gate callback. Remove every callback, starting with the gate and walking away from it.
	*allRemoved = true;
	if(! reverse) {
		for(auto it = handles.begin(); it != handles.end(); ++it) {
			if(! list.remove(*it)) {
				*allRemoved = false;
			}
		}
	}
	else {
		for(auto it = handles.rbegin(); it != handles.rend(); ++it) {
			if(! list.remove(*it)) {
				*allRemoved = false;
			}
		}
	}
	if(! list.empty()) {
		*allRemoved = false;
	}

	armed = true;
	{
		std::unique_lock<std::mutex> lock(gate.mutex);
		gate.resume = true;
		gate.cv.notify_all();
	}
	traverser.join();
	armed = false;

	*destroyed = destroyedWhileArmed.load();
	if(highest.load() < lowest.load()) {
		return 0;
	}
	return highest.load() - lowest.load();
}

} //namespace

int main(int argc, char * argv[])
{
	std::setvbuf(stdout, nullptr, _IONBF, 0);

	if(argc >= 2 && std::strncmp(argv[1], "crash", 5) == 0) {
		const bool reverse = (std::strcmp(argv[1], "crash-reverse") == 0);
		const int count = (argc >= 3 ? std::atoi(argv[2]) : 1000000);
		if(! reverse) {
			std::printf("crash mode: %d callbacks, T1 parked in the first one, main thread removes all of them first to last, "
				"then T1's forEachIf functor returns false...\n", count);
		}
		else {
			std::printf("crash-reverse mode: %d callbacks, T1 (plain invocation) parked in the last one, main thread removes "
				"all of them last to first, then T1's invocation finishes normally...\n", count);
		}
		bool allRemoved = false;
		long destroyed = 0;
		const std::uintptr_t depth = runHistory(count, reverse, &allRemoved, &destroyed);
		std::printf("PASS (no crash): the call returned; %ld callbacks destroyed, stack span %lu bytes\n",
			destroyed, (unsigned long)depth);
		return 0;
	}

	int failures = 0;
	for(int variant = 0; variant < 2; ++variant) {
		const bool reverse = (variant == 1);
		std::printf("%s\n", reverse
			? "variant B: T1 = list() parked in the LAST callback, removals last-to-first, invocation ends normally"
			: "variant A: T1 = list.forEachIf(...) parked in the FIRST callback, removals first-to-last, functor returns false");
		const int sizes[3] = { 1000, 2000, 4000 };
		std::uintptr_t depths[3];
		bool ok = true;
		for(int i = 0; i < 3; ++i) {
			bool allRemoved = false;
			long destroyed = 0;
			depths[i] = runHistory(sizes[i], reverse, &allRemoved, &destroyed);
			std::printf("  callbacks removed by the other thread: %5d (every remove() returned true, list empty: %s), "
				"callbacks destroyed inside T1's returning call: %ld, stack consumed there: %lu bytes\n",
				sizes[i], allRemoved ? "yes" : "no", destroyed, (unsigned long)depths[i]);
			if(! allRemoved) {
				ok = false;
			}
		}
		if(! ok) {
			std::printf("ERROR: unexpected remove() result, the scenario was not set up as intended\n");
			return 2;
		}

		// A correct release of the nodes uses a bounded amount of stack, whatever the other thread removed.
		if(depths[1] > depths[0] + depths[0] / 2 && depths[2] > depths[1] + depths[1] / 2) {
			std::printf("FAIL: variant %c: the stack used by ONE %s call grows linearly with the number of remove() calls made "
				"by another thread during it (about %lu bytes per removed callback): recursive destruction of the chain "
				"of removed nodes; a large enough number overflows the stack (see the crash modes)\n",
				reverse ? 'B' : 'A', reverse ? "operator()" : "forEachIf()",
				(unsigned long)((depths[2] - depths[1]) / (sizes[2] - sizes[1])));
			++failures;
		}
		else {
			std::printf("PASS: variant %c: bounded stack use\n", reverse ? 'B' : 'A');
		}
	}

	return failures > 0 ? 1 : 0;
}
