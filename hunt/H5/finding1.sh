#!/bin/sh
# usage: finding1.sh <eventpp include dir>
# Exit status 1 and lines starting with FAIL when the violation shows.
INC="${1:-/tmp/mut/H5/include}"
DIR="$(cd "$(dirname "$0")" && pwd)"
BIN="$DIR/finding1.bin"
g++ -std=c++11 -O0 -pthread -I"$INC" "$DIR/finding1.cpp" -o "$BIN" || exit 3

status=0

# 1. measurement: linear stack growth of one forEachIf()/operator() call (program prints FAIL, returns 1)
"$BIN" measure
[ $? -ne 0 ] && status=1

# 2. the real thing: enough removals make the traversing call overflow its stack
for mode in crash crash-reverse; do
	( "$BIN" $mode 300000 ) 2>/dev/null
	rc=$?
	if [ $rc -ge 128 ]; then
		echo "FAIL: '$mode 300000': the process was killed by signal $((rc - 128)) (11 = SIGSEGV, stack overflow) inside the traversing call"
		status=1
	fi
done

rm -f "$BIN"
exit $status
