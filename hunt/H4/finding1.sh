#!/bin/sh
# usage: finding1.sh <include dir>
set -e
D=$(dirname "$0")
g++ -std=c++11 -O1 -g -I"$1" "$D/finding1.cpp" -o "$D/finding1.bin" -pthread
set +e
"$D/finding1.bin"
RC=$?
rm -f "$D/finding1.bin"
exit $RC
