#!/bin/sh
# usage: finding2.sh <include dir>
set -e
D=$(dirname "$0")
g++ -std=c++11 -O1 -g -I"$1" "$D/finding2.cpp" -o "$D/finding2.bin" -pthread
set +e
"$D/finding2.bin"
RC=$?
rm -f "$D/finding2.bin"
exit $RC
