// Finding 3: HeterCallbackList (and HeterEventDispatcher / HeterEventQueue built on it): after an assignment made
// from inside a running callback, the handle of the running callback (created by this very list) is still accepted
// by the list although its callback is not in the list any more: the per-prototype CallbackList that was replaced
// is kept alive by the running invocation, its nodes are not marked as removed, and the new per-prototype list
// cannot tell that the node belongs to another list.
//   insert(cb, thatHandle): cb is linked into the REPLACED list and silently lost (documented: appended if not found)
//   remove(thatHandle):     returns true (documented: false if not found)
#include <eventpp/hetercallbacklist.h>
#include <eventpp/hetereventdispatcher.h>
#include <cstdio>
#include <vector>
#include <string>
#include <functional>

static std::vector<std::string> trace;
static int failures = 0;
static std::string join(const std::vector<std::string> & v) { std::string s = "["; for(auto & x : v) { if(s.size() > 1) s += ","; s += x; } return s + "]"; }

struct Counted {
	static int live;
	std::string name;
	explicit Counted(const std::string & n) : name(n) { ++live; }
	Counted(const Counted & o) : name(o.name) { ++live; }
	~Counted() { --live; }
	void operator()() const { trace.push_back(name); }
};
int Counted::live = 0;

static void callbackList(bool moveAssign)
{
	using HL = eventpp::HeterCallbackList<eventpp::HeterTuple<void(), void(int)> >;
	HL list, other;
	HL::Handle hN{}, hY{};
	bool done = false, removed = false;
	hN = list.append(std::function<void()>([&]() {
		if(done) return;
		done = true;
		if(moveAssign) list = std::move(other); else list = other;
		hY = list.insert(Counted("Y"), hN);
		removed = list.remove(hN);
	}));
	other.append(Counted("O"));
	list();
	trace.clear();
	list(); // lists the content: every Counted callback pushes its name
	printf("HeterCallbackList(%s): content after the invocation = %s (expected [O,Y]); remove(hN) = %d (expected 0); handle of Y %s\n",
		moveAssign ? "move" : "copy", join(trace).c_str(), (int)removed, hY.homoHandle.expired() ? "expired" : "valid");
	if(trace.size() != 2) { printf("FAIL HeterCallbackList(%s): the inserted callback Y is lost\n", moveAssign ? "move" : "copy"); ++failures; }
	if(removed) { printf("FAIL HeterCallbackList(%s): remove() reports success for a callback that is not in the list\n", moveAssign ? "move" : "copy"); ++failures; }
}

static void dispatcher(bool moveAssign)
{
	using HD = eventpp::HeterEventDispatcher<int, eventpp::HeterTuple<void(), void(int)> >;
	HD d, other;
	HD::Handle hN{}, hY{};
	bool done = false, removed = false;
	hN = d.appendListener(1, std::function<void()>([&]() {
		if(done) return;
		done = true;
		if(moveAssign) d = std::move(other); else d = other;
		hY = d.insertListener(1, Counted("Y"), hN);
		removed = d.removeListener(1, hN);
	}));
	other.appendListener(1, Counted("O"));
	d.dispatch(1);
	trace.clear();
	d.dispatch(1);
	printf("HeterEventDispatcher(%s): listeners after the dispatch = %s (expected [O,Y]); removeListener(hN) = %d (expected 0)\n",
		moveAssign ? "move" : "copy", join(trace).c_str(), (int)removed);
	if(trace.size() != 2) { printf("FAIL HeterEventDispatcher(%s): the inserted listener Y is lost\n", moveAssign ? "move" : "copy"); ++failures; }
	if(removed) { printf("FAIL HeterEventDispatcher(%s): removeListener() reports success for a listener that is not there\n", moveAssign ? "move" : "copy"); ++failures; }
}

int main()
{
	callbackList(false); callbackList(true);
	dispatcher(false); dispatcher(true);
	if(failures) { printf("FAIL: %d violations\n", failures); return 1; }
	printf("PASS\n");
	return 0;
}
