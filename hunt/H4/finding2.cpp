// Finding 2: assigning to an EventDispatcher / EventQueue from inside one of its own listeners destroys the
// CallbackList that is being invoked; when the listener returns, the invocation goes on using the destroyed
// (and, for move assignment, freed) list: it locks the list's mutex to step to the next callback.
// CallbackList itself survives the same program (its nodes are kept by the running invocation), and so do
// HeterEventDispatcher / HeterEventQueue (they hold the per-prototype list by shared_ptr while invoking).
//
// The use of the destroyed list is made visible with a Threading policy whose Mutex keeps a registry of the
// mutexes that are alive: lock()/unlock() on an address that is not registered is reported. (Only the address
// is used, the freed memory is not read by the check. With the default std::mutex the access happens inside
// pthread_mutex_lock, i.e. in uninstrumented libc code, which is why AddressSanitizer stays silent about it.)
#include <eventpp/eventdispatcher.h>
#include <eventpp/eventqueue.h>
#include <cstdio>
#include <set>
#include <atomic>
#include <condition_variable>

static std::set<const void *> liveMutexes;
static int deadLocks = 0;

struct TrackedMutex
{
	TrackedMutex() { liveMutexes.insert(this); }
	~TrackedMutex() { liveMutexes.erase(this); }
	TrackedMutex(const TrackedMutex &) = delete;
	TrackedMutex & operator = (const TrackedMutex &) = delete;
	void lock() { if(! liveMutexes.count(this)) { ++deadLocks; printf("  lock() on destroyed mutex %p\n", (void *)this); } }
	void unlock() { if(! liveMutexes.count(this)) { ++deadLocks; printf("  unlock() on destroyed mutex %p\n", (void *)this); } }
};

struct Policies
{
	using Threading = eventpp::GeneralThreading<TrackedMutex, std::atomic, std::condition_variable_any>;
};

static int failures = 0;

template <typename D, typename Invoke>
static void run(const char * name, bool moveAssign, Invoke invoke)
{
	D target, other;
	int calledOther = 0;
	other.appendListener(1, [&](int) { ++calledOther; });
	other.appendListener(2, [&](int) { ++calledOther; });
	bool done = false;
	target.appendListener(1, [&](int) {
		if(done) return;
		done = true;
		if(moveAssign) target = std::move(other); else target = other;
	});
	target.appendListener(1, [&](int) {});

	deadLocks = 0;
	printf("%s, %s assignment inside a listener:\n", name, moveAssign ? "move" : "copy");
	invoke(target);
	if(deadLocks) {
		printf("FAIL %s(%s): the running invocation used a CallbackList that the assignment destroyed (%d accesses)\n",
			name, moveAssign ? "move" : "copy", deadLocks);
		++failures;
	}
	else {
		printf("  no access to a destroyed list observed\n");
	}
}

int main()
{
	using Dispatcher = eventpp::EventDispatcher<int, void(int), Policies>;
	using Queue = eventpp::EventQueue<int, void(int), Policies>;
	run<Dispatcher>("EventDispatcher", true, [](Dispatcher & d) { d.dispatch(1); });
	run<Queue>("EventQueue", true, [](Queue & q) { q.enqueue(1); q.process(); });
	if(failures) { printf("FAIL: %d violations\n", failures); return 1; }
	printf("PASS\n");
	return 0;
}
