#include <eventpp/hetereventqueue.h>
#include <vector>
#include <deque>
#include <set>
#include <random>
#include <cstdio>
#include <cstdlib>
#include <memory>
#include <stdexcept>
#include <string>

static std::set<const void*> liveSet;
static bool bad=false;
static int throwCountdown=-1;
#define FAILX(...) do{ printf("FAIL: " __VA_ARGS__); printf("\n"); bad=true; }while(0)
static void maybeThrow(){ if(throwCountdown>0 && --throwCountdown==0){ throwCountdown=-1; throw std::runtime_error("payload"); } }
struct P {
	int id;
	explicit P(int id):id(id){ reg(); }
	P(const P&o):id(o.id){ if(!liveSet.count(&o)) FAILX("copy from dead"); maybeThrow(); reg(); }
	P(P&&o):id(o.id){ if(!liveSet.count(&o)) FAILX("move from dead"); maybeThrow(); reg(); o.id=-o.id; }
	P&operator=(const P&o){ if(!liveSet.count(&o)||!liveSet.count(this)) FAILX("assign dead"); id=o.id; return *this;}
	~P(){ if(!liveSet.erase(this)) FAILX("double destroy"); }
	void reg(){ if(!liveSet.insert(this).second) FAILX("ctor on live"); }
};
struct Pol {
#ifdef INCLUDE
	using ArgumentPassingMode = eventpp::ArgumentPassingIncludeEvent;
#endif
};
#ifdef INCLUDE
using Q = eventpp::HeterEventQueue<int, eventpp::HeterTuple<void(int, const P&), void(int, const P&, const std::string&)>, Pol>;
#define EV
#else
using Q = eventpp::HeterEventQueue<int, eventpp::HeterTuple<void(const P&), void(const P&, const std::string&)>, Pol>;
#define EV
#endif
struct Obj { std::unique_ptr<Q> q; std::deque<int> model; };
static std::vector<Obj> objs; static std::mt19937 rng; static int nextId=1; static int depth=0; static int cur=-1;
static std::vector<int> trace; static bool listenerThrows=false;
static void reent(){
	Q&q=*objs[cur].q; int op=rng()%8;
	if(op==0){ q.enqueue(1, EV P(nextId++ * 2)); }
	else if(op==1){ q.enqueue(1, EV P(nextId++ * 2 +1), std::string("x")); }
	else if(op==2){ q.clearEvents(); }
	else if(op==3 && depth<3){ depth++; q.process(); depth--; }
	else if(op==4 && depth<3){ depth++; q.processOne(); depth--; }
}
static void listener(const P&p){ if(!liveSet.count(&p)) FAILX("listener dead payload"); if(p.id<=0) FAILX("moved-from payload %d", p.id); trace.push_back(p.id); if(depth>0) reent(); if(listenerThrows && rng()%4==0) throw std::runtime_error("listener"); }
static void addListeners(Q&q){
#ifdef INCLUDE
	q.appendListener(1,[](int, const P&p){listener(p);}); q.appendListener(1,[](int, const P&p,const std::string&){listener(p);});
#else
	q.appendListener(1,[](const P&p){listener(p);}); q.appendListener(1,[](const P&p,const std::string&){listener(p);});
#endif
}
static void expectTrace(std::vector<int> exp){ if(trace!=exp){ FAILX("trace mismatch sizes %zu %zu", trace.size(), exp.size()); } }
// even ids: prototype 0; odd ids: prototype 1
int main(int argc,char**argv){
	unsigned seed = argc>1? atoi(argv[1]):1; int steps = argc>2? atoi(argv[2]):2000; rng.seed(seed);
	{
	objs.resize(2); for(auto&o:objs){ o.q.reset(new Q); addListeners(*o.q); }
	for(int s=0;s<steps&&!bad;++s){
		int oi=rng()%objs.size(); Obj&o=objs[oi]; Q&q=*o.q; int op=rng()%18; trace.clear();
		try{
		switch(op){
		case 0: case 1: { int id=2*nextId++; q.enqueue(1, EV P(id)); o.model.push_back(id); break; }
		case 2: case 3: { int id=2*nextId++ +1; P p(id); std::string s("yy"); q.enqueue(1, EV p, s); o.model.push_back(id); break; }
		case 4: { bool r=q.process(); if(r==o.model.empty()) FAILX("process ret"); expectTrace(std::vector<int>(o.model.begin(),o.model.end())); o.model.clear(); break; }
		case 5: { bool r=q.processOne(); if(r==o.model.empty()) FAILX("processOne ret"); if(!o.model.empty()){ expectTrace({o.model.front()}); o.model.pop_front(); } break; }
#ifdef INCLUDE
		case 6: { q.processIf([](int, const P&p){ return p.id%3==0; }); std::vector<int> exp; std::deque<int> rest; for(int id:o.model) ((id%2==0&&id%3==0)? (void)exp.push_back(id):(void)rest.push_back(id)); expectTrace(exp); o.model=rest; break; }
		case 7: { q.processIf([](int, const P&p, const std::string&){ return p.id%3==0; }); std::vector<int> exp; std::deque<int> rest; for(int id:o.model) ((id%2==1&&id%3==0)? (void)exp.push_back(id):(void)rest.push_back(id)); expectTrace(exp); o.model=rest; break; }
#else
		case 6: { q.processIf([](const P&p){ return p.id%3==0; }); std::vector<int> exp; std::deque<int> rest; for(int id:o.model) ((id%2==0&&id%3==0)? (void)exp.push_back(id):(void)rest.push_back(id)); expectTrace(exp); o.model=rest; break; }
		case 7: { q.processIf([](const P&p, const std::string&){ return p.id%3==0; }); std::vector<int> exp; std::deque<int> rest; for(int id:o.model) ((id%2==1&&id%3==0)? (void)exp.push_back(id):(void)rest.push_back(id)); expectTrace(exp); o.model=rest; break; }
#endif
		case 8: { q.clearEvents(); o.model.clear(); if(!q.emptyQueue()) FAILX("not empty after clear"); break; }
		case 9: if(objs.size()<5){ Obj n; n.q.reset(new Q(q)); if(!n.q->emptyQueue()) FAILX("copy not empty"); objs.push_back(std::move(n)); } break;
		case 10: if(objs.size()<5){ Obj n; n.q.reset(new Q); *n.q = q; objs.push_back(std::move(n)); } break;
		case 11: if(objs.size()>2){ objs.erase(objs.begin()+oi); } break;
		case 12: { int id=2*nextId++; throwCountdown=1+rng()%3; bool thrown=false; try{ q.enqueue(1, EV P(id)); }catch(std::runtime_error&){ thrown=true; } throwCountdown=-1; if(!thrown) o.model.push_back(id); break; }
		case 13: { listenerThrows=true; try{ q.process(); }catch(std::runtime_error&){ if(!q.emptyQueue()) FAILX("nonempty after throw"); } o.model.clear(); listenerThrows=false; break; }
		case 14: { throwCountdown=1+rng()%4; try{ q.processIf(PRED); }catch(std::runtime_error&){ } throwCountdown=-1; q.clearEvents(); o.model.clear(); break; }
		case 15: { cur=oi; depth=1; try{ q.process(); }catch(...){ depth=0; throw; } depth=0; q.clearEvents(); o.model.clear(); break; }
		case 16: { if(q.emptyQueue()!=o.model.empty()) FAILX("emptyQueue mismatch"); if(q.waitFor(std::chrono::milliseconds(0))!=!o.model.empty()) FAILX("waitFor mismatch"); long e=0; for(auto&x:objs) e+=x.model.size(); if((long)liveSet.size()!=e) FAILX("live %zu expected %ld step %d", liveSet.size(), e, s); break; }
		case 17: if(objs.size()<5){ Obj n; n.q.reset(new Q(std::move(q))); if(!n.q->emptyQueue()) FAILX("moved not empty"); objs.push_back(std::move(n)); addListeners(q); } break;
		}
		}catch(std::runtime_error&e){ FAILX("unexpected exception %s op %d", e.what(), op); }
		depth=0; listenerThrows=false; throwCountdown=-1;
	}
	objs.clear();
	}
	if(!liveSet.empty()) FAILX("leak %zu", liveSet.size());
	if(bad){ printf("seed %u\n", seed); return 1; }
	return 0;
}
