#include <eventpp/eventqueue.h>
#include <eventpp/utilities/orderedqueuelist.h>
#include <vector>
#include <deque>
#include <set>
#include <random>
#include <cstdio>
#include <cstdlib>
#include <memory>
#include <stdexcept>

static std::set<const void*> liveSet;
static bool bad=false;
static int throwCountdown=-1; // when reaches 0 a Payload copy/move throws
#define FAILX(...) do{ printf("FAIL: " __VA_ARGS__); printf("\n"); bad=true; }while(0)
static void maybeThrow(){ if(throwCountdown>0 && --throwCountdown==0){ throwCountdown=-1; throw std::runtime_error("payload"); } }
struct P {
	int id;
	explicit P(int id):id(id){ reg(); }
	P(const P&o):id(o.id){ if(!liveSet.count(&o)) FAILX("copy from dead"); maybeThrow(); reg(); }
	P(P&&o):id(o.id){ if(!liveSet.count(&o)) FAILX("move from dead"); maybeThrow(); reg(); o.id=-o.id; }
	P&operator=(const P&o){ if(!liveSet.count(&o)||!liveSet.count(this)) FAILX("assign dead"); id=o.id; return *this;}
	P&operator=(P&&o){ if(!liveSet.count(&o)||!liveSet.count(this)) FAILX("assign dead"); id=o.id; o.id=-o.id; return *this;}
	~P(){ if(!liveSet.erase(this)) FAILX("double destroy"); }
	void reg(){ if(!liveSet.insert(this).second) FAILX("ctor on live"); }
};
#ifdef SINGLE
struct Pol { using Threading = eventpp::SingleThreading; };
#elif defined(ORDERED)
struct Pol { template <typename Item> using QueueList = eventpp::OrderedQueueList<Item>; };
#else
struct Pol {};
#endif
#ifdef BYREF
using Q = eventpp::EventQueue<int, void(int, const P&), Pol>;
#else
using Q = eventpp::EventQueue<int, void(int, P), Pol>;
#endif
struct Obj { std::unique_ptr<Q> q; std::deque<int> model; };
static std::vector<Obj> objs; static std::mt19937 rng; static int nextId=1; static int depth=0; static int cur=-1;
static std::vector<int> trace; static bool listenerThrows=false;

static void reent(){
	Q&q=*objs[cur].q; int op=rng()%10;
	if(op==0){ q.enqueue(1, P(nextId++)); }
	else if(op==1){ q.clearEvents(); }
	else if(op==2 && depth<3){ depth++; q.process(); depth--; }
	else if(op==3 && depth<3){ depth++; q.processOne(); depth--; }
	else if(op==4){ Q::QueuedEvent e{0, std::make_tuple(0,P(0))}; q.takeEvent(&e); }
	else if(op==5 && depth<3){ depth++; q.processIf([](int, const P&p){ return p.id%2==0; }); depth--; }
	else if(op==6){ Q::QueuedEvent e{0, std::make_tuple(0,P(0))}; q.peekEvent(&e); }
}
static void listener(int, const P&p){ if(!liveSet.count(&p)) FAILX("listener dead payload"); if(p.id<=0) FAILX("listener moved-from payload %d", p.id); trace.push_back(p.id); if(depth>0) reent(); if(listenerThrows && rng()%4==0) throw std::runtime_error("listener"); }
static void addListeners(Q&q){ q.appendListener(1,[](int e,const P&p){listener(e,p);}); }
static void expectTrace(std::vector<int> exp){ if(trace!=exp){ FAILX("trace mismatch sizes %zu %zu", trace.size(), exp.size()); } }
int main(int argc,char**argv){
	unsigned seed = argc>1? atoi(argv[1]):1; int steps = argc>2? atoi(argv[2]):2000; rng.seed(seed);
	{
	objs.resize(2); for(auto&o:objs){ o.q.reset(new Q); addListeners(*o.q); }
	for(int s=0;s<steps&&!bad;++s){
		int oi=rng()%objs.size(); Obj&o=objs[oi]; Q&q=*o.q; int op=rng()%22; trace.clear();
		try{
		switch(op){
		case 0: case 1: case 2: { int id=nextId++; q.enqueue(1,P(id)); o.model.push_back(id); break; }
		case 3: { int id=nextId++; P p(id); q.enqueue(1,p); o.model.push_back(id); break; }
		case 4: { bool r=q.process(); if(r==o.model.empty()) FAILX("process ret"); expectTrace(std::vector<int>(o.model.begin(),o.model.end())); o.model.clear(); break; }
		case 5: { bool r=q.processOne(); if(r==o.model.empty()) FAILX("processOne ret"); if(!o.model.empty()){ expectTrace({o.model.front()}); o.model.pop_front(); } break; }
		case 6: { q.processIf([](int,const P&p){ return p.id%3==0; }); std::vector<int> exp; std::deque<int> rest; for(int id:o.model) (id%3==0? (void)exp.push_back(id):(void)rest.push_back(id)); expectTrace(exp); o.model=rest; break; }
		case 7: { int lim = rng()%5; int n=0; q.processUntil([&](int,const P&){ return n++>=lim; }); std::vector<int> exp; while(lim-->0 && !o.model.empty()){ exp.push_back(o.model.front()); o.model.pop_front(); } expectTrace(exp); break; }
		case 8: { Q::QueuedEvent e{0, std::make_tuple(0,P(0))}; bool r=q.takeEvent(&e); if(r==o.model.empty()) FAILX("take ret"); if(r){ if(std::get<1>(e.arguments).id!=o.model.front()) FAILX("take id"); o.model.pop_front(); if(rng()%2){ q.dispatch(e); expectTrace({std::get<1>(e.arguments).id}); } } break; }
		case 9: { Q::QueuedEvent e{0, std::make_tuple(0,P(0))}; bool r=q.peekEvent(&e); if(r==o.model.empty()) FAILX("peek ret"); if(r && std::get<1>(e.arguments).id!=o.model.front()) FAILX("peek id"); break; }
		case 10: { q.clearEvents(); o.model.clear(); if(!q.emptyQueue()) FAILX("not empty after clear"); break; }
		case 11: if(objs.size()<5){ Obj n; n.q.reset(new Q(q)); if(!n.q->emptyQueue()) FAILX("copy not empty"); objs.push_back(std::move(n)); } break;
		case 12: if(objs.size()<5){ Obj n; n.q.reset(new Q); addListeners(*n.q); *n.q = q; objs.push_back(std::move(n)); } break;
		case 13: if(objs.size()>2){ objs.erase(objs.begin()+oi); } break;
		case 14: { // payload throws during enqueue
			int id=nextId++; throwCountdown=1+rng()%3; bool thrown=false; try{ q.enqueue(1,P(id)); }catch(std::runtime_error&){ thrown=true; } throwCountdown=-1; if(!thrown) o.model.push_back(id); break; }
		case 15: { // listener throws during process
			listenerThrows=true; try{ q.process(); o.model.clear(); }catch(std::runtime_error&){ o.model.clear(); /* rest dropped */ if(!q.emptyQueue()) FAILX("nonempty after throw"); } listenerThrows=false; break; }
		case 16: { // payload copy throws during process (by-value arg copy)
			throwCountdown=1+rng()%4; try{ q.process(); }catch(std::runtime_error&){ } throwCountdown=-1; o.model.clear(); if(!q.emptyQueue()) FAILX("nonempty after throw2"); break; }
		case 17: { cur=oi; depth=1; try{ q.process(); }catch(...){ depth=0; throw; } depth=0; q.clearEvents(); o.model.clear(); break; }
		case 18: { cur=oi; depth=1; listenerThrows=true; try{ q.processIf([](int,const P&p){ return p.id%2==1; }); }catch(std::runtime_error&){ } listenerThrows=false; depth=0; q.clearEvents(); o.model.clear(); break; }
		case 19: { if(q.emptyQueue()!=o.model.empty()) FAILX("emptyQueue mismatch"); if(q.waitFor(std::chrono::milliseconds(0))!=!o.model.empty()) FAILX("waitFor mismatch"); break; }
		case 20: { long e=0; for(auto&x:objs) e+=x.model.size(); if((long)liveSet.size()!=e) FAILX("live %zu expected %ld step %d", liveSet.size(), e, s); break; }
		case 21: if(objs.size()<5){ Obj n; n.q.reset(new Q(std::move(q))); if(!n.q->emptyQueue()) FAILX("moved not empty"); objs.push_back(std::move(n)); addListeners(q); } break;
		}
		}catch(std::runtime_error&e){ FAILX("unexpected exception %s op %d", e.what(), op); }
		depth=0; listenerThrows=false; throwCountdown=-1;
	}
	objs.clear();
	}
	if(!liveSet.empty()) FAILX("leak %zu", liveSet.size());
	if(bad){ printf("seed %u\n", seed); return 1; }
	return 0;
}
