#include <eventpp/callbacklist.h>
#include <vector>
#include <set>
#include <random>
#include <cstdio>
#include <cstdlib>
#include <memory>

static std::set<const void*> liveSet;
static long ctorCount=0, dtorCount=0;
static bool bad=false;
#define FAILX(...) do{ printf("FAIL: " __VA_ARGS__); printf("\n"); bad=true; }while(0)

struct Ctx;
static Ctx * ctx;
static std::vector<int> trace;
struct CB {
	int id;
	CB(int id):id(id){ reg(); }
	CB(const CB&o):id(o.id){ if(!liveSet.count(&o)) FAILX("copy from dead"); reg(); }
	CB(CB&&o):id(o.id){ if(!liveSet.count(&o)) FAILX("move from dead"); reg(); }
	CB&operator=(const CB&o){ if(!liveSet.count(&o)||!liveSet.count(this)) FAILX("assign dead"); id=o.id; return *this;}
	~CB(){ if(!liveSet.erase(this)) FAILX("double destroy"); ++dtorCount; }
	void reg(){ if(!liveSet.insert(this).second) FAILX("ctor on live"); ++ctorCount; }
	void operator()(int) const;
};

#ifdef SINGLE
struct Pol { using Threading = eventpp::SingleThreading; };
#else
struct Pol {};
#endif
using CL = eventpp::CallbackList<void(int), Pol>;
struct Entry{ int id; CL::Handle h; };
struct Obj { std::unique_ptr<CL> cl; std::vector<Entry> model; std::vector<CL::Handle> stale; };
struct Ctx { std::vector<Obj> objs; std::mt19937 rng; int nextId=1; int depth=0; };

static void refreshHandles(Obj&o){
	std::vector<Entry> m; 
	o.cl->forEach([&](const CL::Handle&h, CL::Callback&cb){ const CB* p = cb.target<CB>(); m.push_back({p->id,h}); });
	if(m.size()!=o.model.size()) { FAILX("size mismatch %zu vs %zu", m.size(), o.model.size()); }
	else for(size_t i=0;i<m.size();++i) if(m[i].id!=o.model[i].id) FAILX("order mismatch");
	o.model=m;
}
static void check(Obj&o){
	std::vector<int> ids; o.cl->forEach([&](CL::Callback&cb){ ids.push_back(cb.target<CB>()->id); });
	if(ids.size()!=o.model.size()) { FAILX("check size mismatch %zu vs %zu", ids.size(), o.model.size()); return; }
	for(size_t i=0;i<ids.size();++i) if(ids[i]!=o.model[i].id) FAILX("check order mismatch");
	if(o.cl->empty()!=o.model.empty()) FAILX("empty mismatch");
	for(auto&e:o.model) if(!o.cl->ownsHandle(e.h)) FAILX("ownsHandle false");
}
static void reentrantOp(int selfId);
void CB::operator()(int) const { if(!liveSet.count(this)) FAILX("invoke dead"); trace.push_back(id); if(ctx->depth>0){ int n=1+ctx->rng()%3; for(int k=0;k<n;++k) reentrantOp(id);} }

static int curObj=-1;
static void reentrantOp(int selfId){
	auto & rng=ctx->rng; Obj & o = ctx->objs[curObj];
	int op = rng()%12;
	if(op==0 && !o.model.empty()){ // remove random
		size_t i=rng()%o.model.size(); if(!o.cl->remove(o.model[i].h)) FAILX("re remove false"); o.stale.push_back(o.model[i].h); o.model.erase(o.model.begin()+i);
	} else if(op==1){ // remove self
		for(size_t i=0;i<o.model.size();++i) if(o.model[i].id==selfId){ if(!o.cl->remove(o.model[i].h)) FAILX("re remove self false"); o.stale.push_back(o.model[i].h); o.model.erase(o.model.begin()+i); break; }
	} else if(op==2){ int id=ctx->nextId++; o.model.push_back({id,o.cl->append(CB(id))}); }
	else if(op==3){ int id=ctx->nextId++; o.model.insert(o.model.begin(),{id,o.cl->prepend(CB(id))}); }
	else if(op==4 && !o.model.empty()){ size_t i=rng()%o.model.size(); int id=ctx->nextId++; auto h=o.cl->insert(CB(id),o.model[i].h); o.model.insert(o.model.begin()+i,{id,h}); }
	else if(op==5 && ctx->objs.size()>1){ // swap with other
		int j=rng()%ctx->objs.size(); o.cl->swap(*ctx->objs[j].cl); std::swap(o.model, ctx->objs[j].model); std::swap(o.stale, ctx->objs[j].stale);
	} else if(op==6 && ctx->objs.size()>1){ int j=rng()%ctx->objs.size(); if(j!=curObj){ for(auto&e:o.model) o.stale.push_back(e.h); *o.cl = *ctx->objs[j].cl; o.model=ctx->objs[j].model; refreshHandles(o);} }
	else if(op==7 && ctx->objs.size()>1){ int j=rng()%ctx->objs.size(); if(j!=curObj){ for(auto&e:o.model) o.stale.push_back(e.h); *o.cl = std::move(*ctx->objs[j].cl); o.model=ctx->objs[j].model; ctx->objs[j].model.clear(); for(auto&h:ctx->objs[j].stale) o.stale.push_back(h); ctx->objs[j].stale.clear(); } }
	else if(op==9 && !o.stale.empty()){ size_t i=rng()%o.stale.size(); int id=ctx->nextId++; auto h=o.cl->insert(CB(id),o.stale[i]); o.model.push_back({id,h}); }
	else if(op==10 && !o.stale.empty()){ size_t i=rng()%o.stale.size(); if(o.cl->remove(o.stale[i])) FAILX("stale remove true"); if(o.cl->ownsHandle(o.stale[i])) FAILX("stale owns"); }
	else if(op==8 && ctx->depth<3){ ctx->depth++; (*o.cl)(1); ctx->depth--; }
}

int main(int argc,char**argv){
	unsigned seed = argc>1? atoi(argv[1]):1; int steps = argc>2? atoi(argv[2]):2000;
	{
	Ctx c; ctx=&c; c.rng.seed(seed);
	c.objs.resize(3); for(auto&o:c.objs) o.cl.reset(new CL);
	for(int s=0;s<steps && !bad;++s){
		auto&rng=c.rng; int oi=rng()%c.objs.size(); Obj&o=c.objs[oi];
		int op=rng()%16;
		switch(op){
		case 0: case 1: { int id=c.nextId++; o.model.push_back({id,o.cl->append(CB(id))}); break; }
		case 2: { int id=c.nextId++; o.model.insert(o.model.begin(),{id,o.cl->prepend(CB(id))}); break; }
		case 3: if(!o.model.empty()){ size_t i=rng()%o.model.size(); int id=c.nextId++; auto h=o.cl->insert(CB(id),o.model[i].h); o.model.insert(o.model.begin()+i,{id,h}); } break;
		case 4: case 5: if(!o.model.empty()){ size_t i=rng()%o.model.size(); if(!o.cl->remove(o.model[i].h)) FAILX("remove false"); if(o.cl->remove(o.model[i].h)) FAILX("remove twice true"); o.model.erase(o.model.begin()+i);} break;
		case 6: { trace.clear(); (*o.cl)(0); if(trace.size()!=o.model.size()) FAILX("invoke size"); else for(size_t i=0;i<trace.size();++i) if(trace[i]!=o.model[i].id) FAILX("invoke order"); break; }
		case 7: { int j=rng()%c.objs.size(); o.cl->swap(*c.objs[j].cl); std::swap(o.model,c.objs[j].model); std::swap(o.stale,c.objs[j].stale); break; }
		case 8: { int j=rng()%c.objs.size(); *o.cl = *c.objs[j].cl; if(j!=oi){ o.model=c.objs[j].model; refreshHandles(o);} break; }
		case 9: { int j=rng()%c.objs.size(); if(j!=oi){ *o.cl = std::move(*c.objs[j].cl); o.model=c.objs[j].model; c.objs[j].model.clear(); o.stale=c.objs[j].stale; c.objs[j].stale.clear(); } break; }
		case 10: if(c.objs.size()<6){ Obj n; n.cl.reset(new CL(*o.cl)); n.model=o.model; refreshHandles(n); c.objs.push_back(std::move(n)); } break;
		case 11: if(c.objs.size()<6){ Obj n; n.cl.reset(new CL(std::move(*o.cl))); n.model=o.model; o.model.clear(); n.stale=o.stale; o.stale.clear(); c.objs.push_back(std::move(n)); } break;
		case 12: if(c.objs.size()>2){ c.objs.erase(c.objs.begin()+oi); } break;
		case 13: case 14: { curObj=oi; c.depth=1; trace.clear(); (*c.objs[oi].cl)(0); c.depth=0; break; }
		case 15: { long expectLive=0; for(auto&x:c.objs) expectLive+=x.model.size(); if((long)liveSet.size()!=expectLive) FAILX("live %zu expected %ld at step %d", liveSet.size(), expectLive, s); break; }
		}
		for(auto&x:c.objs) check(x);
	}
	}
	if(!liveSet.empty()) FAILX("leak %zu", liveSet.size());
	if(bad){ printf("seed %u\n", seed); return 1; }
	return 0;
}
