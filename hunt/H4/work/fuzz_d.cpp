#include <eventpp/eventdispatcher.h>
#include <eventpp/hetereventdispatcher.h>
#include <eventpp/mixins/mixinfilter.h>
#include <eventpp/mixins/mixinheterfilter.h>
#include <vector>
#include <map>
#include <random>
#include <cstdio>
#include <cstdlib>
#include <memory>
static bool bad=false;
#define FAILX(...) do{ printf("FAIL: " __VA_ARGS__); printf("\n"); bad=true; }while(0)
static int live=0;
static std::vector<int> trace;
struct CB { int id; explicit CB(int i):id(i){++live;} CB(const CB&o):id(o.id){++live;} ~CB(){--live;}
  void operator()(int) const { trace.push_back(id);} void operator()(int, int) const { trace.push_back(id);} };
struct FL { int id; int block; explicit FL(int i,int b):id(i),block(b){++live;} FL(const FL&o):id(o.id),block(o.block){++live;} ~FL(){--live;}
  bool operator()(int& v) const { trace.push_back(-id); return v!=block; } bool operator()(int&v,int&) const { trace.push_back(-id); return v!=block; } };
#ifdef HETER
struct Pol { using Mixins = eventpp::MixinList<eventpp::MixinHeterFilter>; };
using D = eventpp::HeterEventDispatcher<int, eventpp::HeterTuple<void(int), void(int,int)>, Pol>;
#else
struct Pol { using Mixins = eventpp::MixinList<eventpp::MixinFilter>; };
using D = eventpp::EventDispatcher<int, void(int), Pol>;
#endif
struct L { int id; D::Handle h; };
struct F { int id; int block; D::FilterHandle h; };
struct Obj { std::unique_ptr<D> d; std::map<int,std::vector<int>> ls; std::vector<std::pair<int,int>> fs; };
int main(int argc,char**argv){
	unsigned seed=argc>1?atoi(argv[1]):1; std::mt19937 rng(seed); int nextId=1;
	{
	std::vector<Obj> objs(2); for(auto&o:objs) o.d.reset(new D);
	for(int s=0;s<3000&&!bad;++s){
		int oi=rng()%objs.size(); Obj&o=objs[oi]; int op=rng()%12;
		switch(op){
		case 0: case 1: { int ev=rng()%3; int id=nextId++; o.d->appendListener(ev, std::function<void(int)>(CB(id))); o.ls[ev].push_back(id); break; }
		case 2: { int ev=rng()%3; int id=nextId++; o.d->prependListener(ev, std::function<void(int)>(CB(id))); o.ls[ev].insert(o.ls[ev].begin(), id); break; }
		case 3: { int id=nextId++; int b=rng()%4; o.d->appendFilter(std::function<bool(int&)>(FL(id,b))); o.fs.push_back({id,b}); break; }
		case 4: if(objs.size()<5){ Obj n; n.d.reset(new D(*o.d)); n.ls=o.ls; n.fs=o.fs; objs.push_back(std::move(n)); } break;
		case 5: if(objs.size()<5){ Obj n; n.d.reset(new D(std::move(*o.d))); n.ls=o.ls; n.fs=o.fs; o.ls.clear(); o.fs.clear(); objs.push_back(std::move(n)); } break;
		case 6: { int j=rng()%objs.size(); *o.d = *objs[j].d; if(j!=oi){ o.ls=objs[j].ls; o.fs=objs[j].fs; } break; }
		case 7: { int j=rng()%objs.size(); if(j!=oi){ *o.d = std::move(*objs[j].d); o.ls=objs[j].ls; o.fs=objs[j].fs; objs[j].ls.clear(); objs[j].fs.clear(); } break; }
		case 8: { int j=rng()%objs.size(); if(j!=oi){ using std::swap; D tmp(std::move(*o.d)); *o.d=std::move(*objs[j].d); *objs[j].d=std::move(tmp); std::swap(o.ls,objs[j].ls); std::swap(o.fs,objs[j].fs);} break; }
		case 9: if(objs.size()>2) objs.erase(objs.begin()+oi); break;
		default: { int ev=rng()%3; trace.clear(); o.d->dispatch(ev, ev); std::vector<int> exp; bool pass=true; for(auto&f:o.fs){ exp.push_back(-f.first); if(f.second==ev){ pass=false; break; } } if(pass) for(int id:o.ls[ev]) exp.push_back(id); if(exp!=trace) FAILX("trace mismatch step %d", s); break; }
		}
		int e=0; for(auto&x:objs){ for(auto&kv:x.ls) e+=kv.second.size(); e+=x.fs.size(); } if(e!=live) FAILX("live %d expected %d step %d op %d", live, e, s, op);
	}
	}
	if(live) FAILX("leak %d", live);
	if(bad){ printf("seed %u\n", seed); return 1;} return 0;
}
