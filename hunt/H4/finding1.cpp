// Finding 1: callbacks discarded by CallbackList assignment (copy or move) are not marked as removed.
// While an invocation still references such a callback the list treats it as present:
//  (A) a discarded callback is still invoked after the assignment returned,
//  (B) insert(cb, handleOfDiscarded) links the new callback to the orphan: it is silently lost,
//  (C) remove(handleOfDiscarded) reports success.
#include <eventpp/callbacklist.h>
#include <cstdio>
#include <vector>
#include <string>

using CL = eventpp::CallbackList<void()>;
static int failures = 0;
static std::vector<std::string> trace;

static std::vector<std::string> names(const CL & list, std::vector<std::string> * out = nullptr)
{
	std::vector<std::string> saved = trace;
	trace.clear();
	// every callback pushes its name; call them through forEach to list the content
	list.forEach([](const CL::Callback & cb) { cb(); });
	std::vector<std::string> result = trace;
	trace = saved;
	if(out) *out = result;
	return result;
}
static std::string join(const std::vector<std::string> & v) { std::string s = "["; for(auto & x : v) { if(s.size() > 1) s += ","; s += x; } return s + "]"; }

struct Counted {
	static int live;
	std::string name;
	explicit Counted(const std::string & n) : name(n) { ++live; }
	Counted(const Counted & o) : name(o.name) { ++live; }
	~Counted() { --live; }
	void operator()() const { trace.push_back(name); }
};
int Counted::live = 0;

static void scenarioA(bool moveAssign)
{
	CL list, other;
	CL::Handle hN;
	bool assigned = false;
	std::vector<std::string> afterAssign;
	hN = list.append([&]() {
		if(assigned) return; // (listing helper calls it again)
		trace.push_back("N");
		list.remove(hN);           // N removes itself ...
		if(moveAssign) list = std::move(other); else list = other; // ... and replaces the content of the list
		assigned = true;
		trace.push_back("|assigned|");
	});
	list.append([&]() { trace.push_back("X"); });
	other.append([&]() { trace.push_back("O"); });

	trace.clear();
	list();
	std::string t = join(trace);
	bool xAfter = false, seen = false;
	for(auto & s : trace) { if(s == "|assigned|") seen = true; else if(seen && s == "X") xAfter = true; }
	printf("A(%s): trace of the running invocation = %s, list content afterwards = %s\n",
		moveAssign ? "move" : "copy", t.c_str(), join(names(list)).c_str());
	if(xAfter) {
		printf("FAIL A(%s): callback X, discarded by the assignment, was invoked after the assignment returned\n", moveAssign ? "move" : "copy");
		++failures;
	}
}

static void scenarioB(bool moveAssign)
{
	Counted::live = 0;
	CL::Handle hY;
	{
		CL list, other;
		CL::Handle hN;
		bool done = false;
		hN = list.append([&]() {
			if(done) return;
			done = true;
			if(moveAssign) list = std::move(other); else list = other;
			// hN was created by this list; its callback is not in the list any more => "not found" => append
			hY = list.insert(Counted("Y"), hN);
		});
		other.append(Counted("O"));
		list();
		std::vector<std::string> content = names(list);
		printf("B(%s): insert() returned a %s handle; content after the invocation = %s (expected [O,Y])\n",
			moveAssign ? "move" : "copy", hY ? "valid" : "empty", join(content).c_str());
		if(content.size() != 2) {
			printf("FAIL B(%s): the inserted callback Y is not in the list (it was linked to the discarded callback)\n",
				moveAssign ? "move" : "copy");
			++failures;
		}
	}
	// both lists are destroyed now
	printf("B(%s): after destroying both lists: live Counted callbacks = %d (expected 0), handle of Y %s (expected expired)\n",
		moveAssign ? "move" : "copy", Counted::live, hY ? "still valid" : "expired");
	if(Counted::live != 0 || hY) {
		printf("FAIL B(%s): callback Y is never destroyed: Y->next = N and N->previous = Y form a shared_ptr cycle (leak)\n",
			moveAssign ? "move" : "copy");
		++failures;
	}
}

static void scenarioC(bool moveAssign)
{
	CL list, other;
	CL::Handle hN;
	bool done = false;
	bool removed = false, owns = true;
	hN = list.append([&]() {
		if(done) return;
		done = true;
		if(moveAssign) list = std::move(other); else list = other;
		owns = list.ownsHandle(hN);
		removed = list.remove(hN);
	});
	other.append([]() {});
	list();
	printf("C(%s): ownsHandle = %d, remove = %d (expected 0, 0)\n", moveAssign ? "move" : "copy", (int)owns, (int)removed);
	if(removed) {
		printf("FAIL C(%s): remove() reports success for a callback that is not in the list\n", moveAssign ? "move" : "copy");
		++failures;
	}
}

int main()
{
	scenarioA(false); scenarioA(true);
	scenarioB(false); scenarioB(true);
	scenarioC(false); scenarioC(true);
	if(failures) { printf("FAIL: %d violations\n", failures); return 1; }
	printf("PASS\n");
	return 0;
}
