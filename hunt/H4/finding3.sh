#!/bin/sh
# usage: finding3.sh <include dir>
set -e
D=$(dirname "$0")
g++ -std=c++11 -O1 -g -I"$1" "$D/finding3.cpp" -o "$D/finding3.bin" -pthread
set +e
"$D/finding3.bin"
RC=$?
rm -f "$D/finding3.bin"
exit $RC
