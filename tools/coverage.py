#!/usr/bin/env python3
"""Reach measurement: which lines of /repo/include/eventpp do the engines execute, per property, and which lines that the
library's own unit tests execute do the engines never reach?

  python3 tools/coverage.py engines [runs-per-stage]   build build/cov (-O0 --coverage, no sanitizer), run every registered stage briefly,
                                                       write build/cov/engine_lines.json
  python3 tools/coverage.py unittests                  build the unit tests with --coverage in a scratch dir, run them, write
                                                       build/cov/unittest_lines.json, remove the scratch dir
  python3 tools/coverage.py gaps                       lines executed by the unit tests but by no engine stage (per header)

Not a check: nothing here decides a property. It is the "measure reach" probe of the guidance, used to find instantiations and
code paths the generators do not exercise.
"""
import glob
import gzip
import json
import os
import shutil
import subprocess
import sys

ROOT = os.path.dirname(os.path.dirname(os.path.abspath(__file__)))
sys.path.insert(0, os.path.join(ROOT, 'tools'))
REPO = os.environ.get('VERIF_REPO', '/repo')
COV = os.path.join(ROOT, 'build', 'cov')


def gcov_lines(objdir, pattern='*.gcda'):
    """-> {header: {line: count}} for headers under include/eventpp"""
    out = {}
    gcdas = glob.glob(os.path.join(objdir, '**', pattern), recursive=True)
    for g in gcdas:
        d = os.path.dirname(g)
        r = subprocess.run(['gcov', '--json-format', '--stdout', os.path.basename(g)], cwd=d, stdout=subprocess.PIPE, stderr=subprocess.DEVNULL)
        for doc in r.stdout.decode('utf-8', 'replace').splitlines():
            if not doc.strip():
                continue
            try:
                j = json.loads(doc)
            except ValueError:
                continue
            for f in j.get('files', []):
                name = f['file']
                if 'include/eventpp' not in name:
                    continue
                key = name.split('include/eventpp/', 1)[1]
                m = out.setdefault(key, {})
                for ln in f['lines']:
                    n = ln['line_number']
                    m[n] = m.get(n, 0) + ln['count']
    return out


def engines(runs):
    import props
    bins = set()
    for p in props.PROPS.values():
        for s in p['stages']:
            if 'custom' in s:
                continue
            if not s['bin'].endswith('_clang'):
                bins.add(s['bin'])
    targets = ['build/cov/' + b for b in sorted(bins)]
    subprocess.check_call(['make', '-s', '-C', ROOT, '-j16', 'REPO=' + REPO, 'OUT=build/cov', 'SAN=--coverage', 'OPT=-O0'] + targets,
                          stdout=subprocess.DEVNULL, stderr=subprocess.DEVNULL)
    per_prop = {}
    for pid, p in sorted(props.PROPS.items()):
        for g in glob.glob(os.path.join(COV, '*.gcda')):
            os.unlink(g)
        for s in p['stages']:
            if 'custom' in s or s['bin'].endswith('_clang'):
                continue
            subprocess.run([os.path.join(COV, s['bin']), '--mode', s['mode'], '--base', '12345', '--start', '0', '--count', str(runs), '--stride', '1',
                            '--max-viol', '1000000'], stdout=subprocess.DEVNULL, stderr=subprocess.DEVNULL, timeout=1800)
        per_prop[pid] = gcov_lines(COV)
        print(pid, {h: sum(1 for c in m.values() if c > 0) for h, m in per_prop[pid].items()}, flush=True)
    json.dump(per_prop, open(os.path.join(COV, 'engine_lines.json'), 'w'))


def unittests():
    b = '/var/tmp/verif-cov-unittests'
    shutil.rmtree(b, ignore_errors=True)
    try:
        subprocess.check_call('cmake -S %s/tests -B %s -G Ninja -DCMAKE_BUILD_TYPE=Debug -DCMAKE_CXX_FLAGS="-O0 --coverage" > /dev/null && '
                              'cmake --build %s --target unittest -j16 > /dev/null && %s/unittest/unittest | tail -2' % (REPO, b, b, b), shell=True)
        lines = gcov_lines(b)
        os.makedirs(COV, exist_ok=True)
        json.dump(lines, open(os.path.join(COV, 'unittest_lines.json'), 'w'))
        print({h: sum(1 for c in m.values() if c > 0) for h, m in lines.items()})
    finally:
        shutil.rmtree(b, ignore_errors=True)


def gaps():
    eng = json.load(open(os.path.join(COV, 'engine_lines.json')))
    ut = json.load(open(os.path.join(COV, 'unittest_lines.json')))
    union = {}
    for pid, hs in eng.items():
        for h, m in hs.items():
            u = union.setdefault(h, {})
            for ln, c in m.items():
                u[ln] = u.get(ln, 0) + c
    for h in sorted(set(ut) | set(union)):
        um = ut.get(h, {})
        em = union.get(h, {})
        ut_hit = {int(l) for l, c in um.items() if c > 0}
        en_hit = {int(l) for l, c in em.items() if c > 0}
        en_inst_not_hit = {int(l) for l, c in em.items() if c == 0} - en_hit
        missing = sorted(ut_hit - en_hit)
        print('%-28s unit tests hit %4d lines, engines hit %4d; hit by tests only: %s' % (h, len(ut_hit), len(en_hit), compact(missing)))
        if en_inst_not_hit:
            print('%-28s instantiated by the engines but never executed: %s' % ('', compact(sorted(en_inst_not_hit))))


def compact(nums):
    out, i = [], 0
    while i < len(nums):
        j = i
        while j + 1 < len(nums) and nums[j + 1] <= nums[j] + 1:
            j += 1
        out.append(str(nums[i]) if i == j else '%d-%d' % (nums[i], nums[j]))
        i = j + 1
    return ' '.join(out) if out else '-'


if __name__ == '__main__':
    cmd = sys.argv[1]
    if cmd == 'engines':
        engines(int(sys.argv[2]) if len(sys.argv) > 2 else 3000)
    elif cmd == 'unittests':
        unittests()
    elif cmd == 'gaps':
        gaps()
