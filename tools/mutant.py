#!/usr/bin/env python3
"""Confirm a seeded change (a patch that breaks a property while compiling and passing the unit tests) and run checks against it.

  python3 tools/mutant.py adopt <out-dir> <name> --property C11 [--needs "..."] [--skip-tests]
      out-dir holds patch.diff, demo.cpp, demo.sh (and meta.txt) as delivered by an independent sub-agent.
      Confirms in a scratch worktree of /repo: the patch applies to HEAD, the unit-test suite builds and passes with it,
      the demonstration passes without the patch and fails with it. Then stores /verif/seeded/<name>/.
  python3 tools/mutant.py run <name> [checks...]     apply the patch to /repo, run the quick checks, undo the patch
  python3 tools/mutant.py runall                      every seeded change against the checks listed in its meta.json
"""
import json
import os
import shutil
import subprocess
import sys
import time

ROOT = os.path.dirname(os.path.dirname(os.path.abspath(__file__)))
SEEDED = os.path.join(ROOT, 'seeded')


def sh(cmd, **kw):
    return subprocess.run(cmd, shell=isinstance(cmd, str), stdout=subprocess.PIPE, stderr=subprocess.STDOUT, text=True, **kw)


def adopt(out_dir, name, prop, needs, skip_tests):
    dst = os.path.join(SEEDED, name)
    os.makedirs(dst, exist_ok=True)
    for f in ('patch.diff', 'demo.cpp', 'demo.sh', 'meta.txt'):
        src = os.path.join(out_dir, f)
        if os.path.exists(src):
            shutil.copy(src, os.path.join(dst, f))
    patch = os.path.join(dst, 'patch.diff')
    wt = '/tmp/seeded-confirm-%s' % name
    sh('git -C /repo worktree remove --force %s' % wt)
    r = sh('git -C /repo worktree add -q --detach %s HEAD' % wt)
    ran = []
    result = {'applies': False, 'tests_pass_with_patch': None, 'demo_passes_without': None, 'demo_fails_with': None}
    try:
        # demo without the patch
        work = wt + '-demo'
        shutil.rmtree(work, ignore_errors=True)
        os.makedirs(work)
        shutil.copy(os.path.join(dst, 'demo.cpp'), work)
        shutil.copy(os.path.join(dst, 'demo.sh'), work)
        r0 = sh('bash demo.sh %s/include' % wt, cwd=work, timeout=600)
        ran.append('bash demo.sh <pristine>/include -> exit %d' % r0.returncode)
        result['demo_passes_without'] = r0.returncode == 0
        result['demo_output_without'] = r0.stdout[-600:]
        ra = sh('git -C %s apply %s' % (wt, patch))
        result['applies'] = ra.returncode == 0
        if ra.returncode != 0:
            result['apply_error'] = ra.stdout[-400:]
        else:
            r1 = sh('bash demo.sh %s/include' % wt, cwd=work, timeout=600)
            ran.append('bash demo.sh <patched>/include -> exit %d' % r1.returncode)
            result['demo_fails_with'] = r1.returncode != 0
            result['demo_output_with'] = r1.stdout[-600:]
            if not skip_tests:
                b = wt + '-build'
                shutil.rmtree(b, ignore_errors=True)
                rb = sh('(cmake -S %s/tests -B %s -G Ninja -DCMAKE_BUILD_TYPE=RelWithDebInfo && cmake --build %s --target unittest -j16) > %s.log 2>&1; %s/unittest/unittest 2>&1 | tail -3' % (wt, b, b, b, b), timeout=3000)
                ran.append('unit-test suite built from the patched worktree -> %s' % rb.stdout.strip()[-80:])
                result['tests_pass_with_patch'] = 'All tests passed' in rb.stdout
                result['tests_last_line'] = rb.stdout.strip()[-120:]
                if not result['tests_pass_with_patch']:
                    result['build_log_tail'] = open(b + '.log').read()[-1500:] if os.path.exists(b + '.log') else ''
                shutil.rmtree(b, ignore_errors=True)
                if os.path.exists(b + '.log'):
                    os.unlink(b + '.log')
        shutil.rmtree(work, ignore_errors=True)
    finally:
        sh('git -C /repo worktree remove --force %s' % wt)
        sh('git -C /repo worktree prune')
    meta_path = os.path.join(dst, 'meta.json')
    meta = json.load(open(meta_path)) if os.path.exists(meta_path) else {}
    meta.update({'name': name, 'breaks_property': prop, 'needs_to_manifest': needs or meta.get('needs_to_manifest', ''),
                 'origin': 'independent sub-agent given only the property text and a scratch worktree',
                 'base_commit': sh('git -C /repo rev-parse --short HEAD').stdout.strip(),
                 'confirmed': result, 'what_was_run': ran, 'confirmed_at': time.strftime('%Y-%m-%dT%H:%M:%SZ', time.gmtime())})
    meta.setdefault('checks', [prop])
    with open(meta_path, 'w') as f:
        json.dump(meta, f, indent=1)
        f.write('\n')
    ok = result['applies'] and result['demo_passes_without'] and result['demo_fails_with'] and (skip_tests or result['tests_pass_with_patch'])
    print(json.dumps(result, indent=1))
    print('CONFIRMED' if ok else 'NOT CONFIRMED')
    return 0 if ok else 1


def run(name, checks):
    dst = os.path.join(SEEDED, name)
    meta_path = os.path.join(dst, 'meta.json')
    meta = json.load(open(meta_path))
    checks = checks or meta.get('checks', [meta['breaks_property']])
    st = sh('git -C /repo status --porcelain --untracked-files=no').stdout.strip()
    if st:
        print('refusing: /repo has uncommitted changes to tracked files:\n' + st)
        return 2
    used = 'patch.diff'
    ra = sh('git -C /repo apply %s' % os.path.join(dst, 'patch.diff'))
    if ra.returncode != 0 and os.path.exists(os.path.join(dst, 'patch.rebased.diff')):
        # later repairs of /repo rewrote the code this change edits: the same change re-made by hand (or by a three-way merge) on the current tree
        used = 'patch.rebased.diff'
        ra = sh('git -C /repo apply %s' % os.path.join(dst, used))
    if ra.returncode != 0:
        print('%s: patch does not apply to the current /repo (base commit %s): %s' % (name, meta.get('base_commit'), ra.stdout.strip()[:200]))
        return 2
    results = {}
    # the evidence files must describe the unchanged tree: keep them aside while the patch is applied
    saved = {}
    for c in checks:
        ep = os.path.join(ROOT, 'evidence', c + '.json')
        if os.path.exists(ep):
            saved[ep] = open(ep).read()
    try:
        for c in checks:
            t0 = time.time()
            r = sh('python3 tools/verif.py check %s --tier quick' % c, cwd=ROOT, timeout=3600)
            viol = [l for l in r.stdout.splitlines() if l.startswith('VIOLATION')]
            cls = [l.strip() for l in r.stdout.splitlines() if l.strip().startswith('class=')]
            results[c] = {'exit': r.returncode, 'detected': r.returncode == 1 and bool(viol), 'wall_s': round(time.time() - t0, 1),
                          'violation_lines': viol[:3], 'classes': [x[:300] for x in cls[:3]]}
            print('%s vs %s: %s (exit %d, %.0fs) %s' % (name, c, 'DETECTED' if results[c]['detected'] else 'missed', r.returncode, time.time() - t0, cls[0][:160] if cls else ''))
    finally:
        sh('git -C /repo checkout -- .')
        for ep, text in saved.items():
            with open(ep, 'w') as f:
                f.write(text)
    if used != 'patch.diff':
        for r in results.values():
            r['patch'] = used
        meta.setdefault('check_results_rebased', {}).update(results)
        meta['rebased_onto'] = sh('git -C /repo rev-parse --short HEAD').stdout.strip()
    else:
        meta.setdefault('check_results', {}).update(results)
    meta['check_results_at'] = time.strftime('%Y-%m-%dT%H:%M:%SZ', time.gmtime())
    with open(meta_path, 'w') as f:
        json.dump(meta, f, indent=1)
        f.write('\n')
    return 0


def main(argv):
    if len(argv) < 2:
        print(__doc__)
        return 2
    if argv[1] == 'adopt':
        out_dir, name = argv[2], argv[3]
        prop = argv[argv.index('--property') + 1]
        needs = argv[argv.index('--needs') + 1] if '--needs' in argv else ''
        return adopt(out_dir, name, prop, needs, '--skip-tests' in argv)
    if argv[1] == 'run':
        return run(argv[2], argv[3:])
    if argv[1] == 'runall':
        for name in sorted(os.listdir(SEEDED)):
            if os.path.exists(os.path.join(SEEDED, name, 'meta.json')):
                run(name, [])
        return 0
    print(__doc__)
    return 2


if __name__ == '__main__':
    sys.exit(main(sys.argv))
