"""Registry: which engine stages decide which property, with what budgets and what the evidence says."""

REAL_STUB_CON = {
    'real': ['every eventpp header incl. eventpp::SpinLock (through its guarded hook)', 'std::function', 'std::shared_ptr / std::weak_ptr',
             'std::list / std::map / std::unordered_map internals (wrapped, not replaced)'],
    'stub': ['std::mutex -> sim::SimMutex', 'std::atomic -> sim::SimAtomic (sequentially consistent only)',
             'std::condition_variable -> sim::SimCondVar', 'wall clock -> simulated clock', 'OS threads -> ucontext fibers under a seeded scheduler'],
}

CON_ASSUMPTIONS = [
    'Between two scheduling points a task runs atomically; sound for sequentially consistent executions only: weaker-than-SC reorderings (a weakened memory_order) are not modelled.',
    'std::shared_ptr / std::weak_ptr / std::function internals are treated as atomic steps.',
    'A clean batch is evidence from seeded sampling of schedules, not a proof.',
]


def con_extra(names):
    def f(merged):
        tot = {'sched_points': 0, 'switches': 0, 'preempt_inside_op': 0, 'sim_ns': 0}
        probes = {}
        faults = {}
        for m in merged.values():
            for k in tot:
                tot[k] += m.get(k, 0)
            for k, v in m.get('probes', {}).items():
                probes[k] = probes.get(k, 0) + v
            for k, v in m.get('faults', {}).items():
                faults[k] = faults.get(k, 0) + v
        return {'scheduling_points_executed': tot['sched_points'], 'task_switches': tot['switches'],
                'preemptions_inside_an_operation': tot['preempt_inside_op'], 'simulated_time_ns': tot['sim_ns'],
                'probes': probes, 'faults_fired': faults}
    return f


REAL_STUB_SEQ = {
    'real': ['every eventpp header under test with its real policies (SingleThreading, MultipleThreading with std::mutex, GeneralThreading<SpinLock>)',
             'std::function', 'std::shared_ptr / std::weak_ptr', 'std::list / std::map / std::unordered_map'],
    'stub': ['operator new/delete -> counting / failing wrapper over malloc (only while a fault is armed)',
             'in the *-one-task variants: std::mutex -> sim::SimMutex inside a single simulated task (self-deadlock becomes a violation)'],
}

SEQ_ASSUMPTIONS = [
    'No schedule and no clock in this property: the simulator runs in its one-task configuration; what is searched is the space of operation histories (seeded), judged against a reference model after every step.',
    'A clean batch is evidence from seeded sampling of histories, not a proof.',
]


def seq_extra(merged):
    probes, faults = {}, {}
    for m in merged.values():
        for k, v in m.get('probes', {}).items():
            if isinstance(v, list):
                old = probes.get(k, [0] * len(v))
                probes[k] = [a + b for a, b in zip(old, v)]
            elif isinstance(v, dict):
                probes[k] = v
            else:
                probes[k] = max(probes.get(k, 0), v) if k.startswith('max_') else probes.get(k, 0) + v
        for k, v in m.get('faults', {}).items():
            faults[k] = faults.get(k, 0) + v
    sub = sum(m.get('sub_runs', 0) for m in merged.values())
    return {'probes': probes, 'faults_fired': faults, 'executions_including_fault_reruns': sub, 'simulated_time_ns': 0}


def seq_prop(engine, stages, technique, level_text, level_note, rule, level='exploration', assumptions=None):
    return {'engine': engine, 'level': level, 'technique': technique, 'level_text': level_text, 'level_note': level_note, 'stages': stages,
            'rule': rule, 'real_vs_stub': REAL_STUB_SEQ, 'assumptions': SEQ_ASSUMPTIONS + (assumptions or []), 'extra_coverage': seq_extra}


def st(name, binary, mode, quick, thorough, tq=90, tt=900):
    return {'name': name, 'bin': binary, 'mode': mode, 'runs': {'quick': quick, 'thorough': thorough}, 'time': {'quick': tq, 'thorough': tt}}


def _cfg_stage(prop, st, tier, base, od, tmpdir, repo):
    import cfg
    return cfg.stage(prop, st, tier, base, od, tmpdir, repo)


PROPS = {
    'C01': seq_prop('seq_list', [st('c01', 'seq_list', 'c01', 400000, 8000000), st('c01-clang++', 'seq_list_clang', 'c01', 150000, 3000000)],
        'seeded operation histories (simulator in its one-task, fault-free configuration) refined against a reference list model; same harness that C09 runs with faults',
        'Seeded search over histories of append/prepend/insert/remove/ownsHandle/empty/invoke/forEach/forEachIf and the eventutil helpers with live, stale, empty and repeated handles; every return value, every invocation trace with argument values and the full observable content are compared with a vector-based model after every step; lists are drained at the end.',
        'Trusted: the reference model (sim-independent, ~100 lines) and the ledger. This is the fault-free control configuration of the C09 harness; no scheduler or fault is involved because the property has none.',
        'Each evaluation is one seeded history of 8-40 operations on a CallbackList<void(int, Payload)> (SingleThreading, MultipleThreading, or a comparable custom Callback type for hasListener/removeListener). '
        'Non-trivial = the history contains at least one invocation; distinct = distinct plan hashes.'),
    'C02': seq_prop('seq_list', [st('c02', 'seq_list', 'c02', 600000, 6000000), st('c02-clang++', 'seq_list_clang', 'c02', 250000, 3000000)],
        'seeded re-entrant programs (callbacks carry scripts) executed in lockstep with a snapshot-semantics model; SimMutex / SpinLock one-task variants turn self-deadlock into a deterministic violation; ASan + ledger',
        'Seeded search over programs in which callbacks, to nesting depth 4, append/prepend/insert/remove (themselves and others)/enumerate/re-invoke the list being invoked and other lists of the same dispatcher. Every callback the real code runs is compared, at the moment it runs, with what snapshot semantics predicts; results of operations through removed handles are checked at every depth; content is compared after the outermost invocation; lists are drained.',
        'Trusted: the snapshot-semantics model, the ledger, the watchdog for real hangs. Policies: SingleThreading, MultipleThreading, real SpinLock, and SimMutex/SpinLock inside one simulated task.',
        'Each evaluation is one seeded program: a history of 8-40 top-level operations whose added callbacks carry scripts (1-3 operations each, nested scripts allowed, global fuel 6-30) on CallbackList or EventDispatcher under one of 9 policy variants. '
        'Non-trivial = at least one added callback carries a script; distinct = distinct plan hashes.'),
    'C12': seq_prop('seq_filter', [st('c12', 'seq_filter', 'c12', 1000000, 8000000), st('c12-heter-conversion', 'seq_filter', 'c12k', 3000, 30000), st('c12-plain-mixin', 'seq_filter', 'c12p', 3000, 30000)],
        'seeded filter / listener / dispatch histories (direct and queued) in lockstep with a dispatcher-with-filters model; harness mixins before and after MixinFilter record their position; canContinueInvoking, conditionalFunctor and argumentAdapter variants',
        'Seeded search over histories of appendFilter / removeFilter (also from inside a filter), listener changes and dispatches - direct, and performed by EventQueue::process - with by-value and by-reference prototype parameters, arguments as lvalues and temporaries. Every filter call is checked when it happens: it must be the next filter in order of addition that is still attached, see the arguments as modified by the earlier filters, and no filter or listener may run after a filter returned false; listeners must see the modified values. Variants: MixinFilter alone, between two recording mixins, on EventQueue, MixinHeterFilter on HeterEventDispatcher (exact argument types; a second, small stage dispatches int arguments to prototypes <void(long, Payload), void(int, Payload)> and reproduces the recorded, unrepaired defect listed in known_findings.txt: the filters run belong to another prototype than the listeners that run; a third small stage lists a mixin without an interceptor before MixinFilter and reproduces the second recorded defect: the filters run twice); canContinueInvoking reading a flag in a by-reference argument while a second, tracked argument is taken by value by the prototype, the listeners and the policy itself (CallbackList and EventDispatcher; a moved-from value is visible to the next listener); conditionalFunctor and argumentAdapter (value and shared_ptr flavours).',
        'Trusted: the filter model. With lvalue arguments a heterogeneous dispatcher forwards references to the caller\'s own objects, so that variant dispatches temporaries only.',
        'Each evaluation is one seeded history of 8-38 operations on one of seven configurations of the main stage. Non-trivial = contains a dispatch; distinct = distinct plan hashes.'),
    'C14': seq_prop('seq_heter', [st('c14-g++', 'seq_heter', 'c14', 300000, 6000000), st('c14-clang++', 'seq_heter_clang', 'c14', 300000, 6000000)],
        'seeded histories over HeterCallbackList / HeterEventDispatcher / HeterEventQueue with five prototypes whose argument types differ in size and triviality (ledger-tracked), recycled queue slots, and every predicate prototype; per-prototype list models and a FIFO queue model; ledger turns a slot read as the wrong type into a deterministic error',
        'Seeded search over histories that mix nine callback shapes (callable with exactly one prototype, with several, variadic), eight argument shapes (exact, convertible to one or several prototypes) and seven predicate shapes. The expected prototype of every shape is tabulated by hand ("first listed prototype it can be called with"). Checked: which callbacks run, in which order, with which (converted) argument values; queue FIFO across prototypes for process/processOne; processIf asks its predicate about exactly the queued events of its prototype and leaves every other event untouched and in place; payload integrity (pattern-filled 180-byte payload, tracked small payload, strings).',
        'Trusted: the hand-made prototype tables. For a predicate callable with several prototypes the oracle requires only exactly-once consumption with intact arguments (the statement leaves the rest open; a declining predicate legitimately lets later events overtake earlier ones). Harness types have explicit constructors so that no accidental conversion changes prototype selection.',
        'Each evaluation is one seeded history of 10-45 operations on one of the three heterogeneous classes (default and SingleThreading policies; one variant uses ArgumentPassingIncludeEvent with a std::string event supplied as lvalue, temporary and moved local), executed by a g++ build and a clang++ build (their evaluation order and implicit-move rules differ). Non-trivial = contains an invocation / dispatch / processing call; distinct = distinct plan hashes.'),
    'C15': seq_prop('seq_remover', [st('c15', 'seq_remover', 'c15', 1000000, 8000000), st('c15-exceptions', 'seq_remover', 'c15f', 10000, 250000, 120, 1200)],
        'seeded ScopedRemover lifecycle histories (add/remove through removers, reset, re-target, move construction, move assignment into empty and non-empty removers, swap, destruction in any order) against a responsibility model; attached set observed by enumeration after every step',
        'Seeded search over histories with up to 3 removers and 2 targets (CallbackList, EventDispatcher, EventQueue). The model tracks which remover is responsible for which listener; what a move assignment displaces from its destination enters a limbo set (accepted attached or detached, once seen detached it must stay so, and must be detached when the last remover involved is destroyed) - exactly the window the statement gives.',
        'Trusted: the responsibility model. Self-move-assignment is not generated; adding through a remover without a target (a null dereference by contract) is not generated.',
        'Each evaluation is one seeded history of 10-40 operations; removers are built in storage pre-filled with a plan-chosen pattern, one target variant is a CallbackList whose mutexes (the remover\'s own too) are real SpinLocks run inside one simulated task. The second stage runs 4-12 operation histories under fault enumeration, including throwing event hash / == inside reset() and re-targeting (an interrupted reset leaves the remover responsible). Non-trivial = a listener is added through a remover; distinct = distinct plan hashes.'),
    'C16': seq_prop('seq_remover', [st('c16', 'seq_remover', 'c16', 1000000, 8000000)],
        'seeded trigger histories for CounterRemover / ConditionalRemover incl. re-entrant triggers from the wrapped listener, queued triggers and direct removals, in lockstep with a counting model (snapshot semantics for the listener lists)',
        'Seeded search over histories with counts n in [-3,5], condition outcome sequences as bit patterns, conditions with and without the trigger argument (returning int 4/0 resp. long 2/0, not bool: the library must convert, not compare with true) that keep their own evaluation count inside the callable (the stored condition object itself must be the one evaluated on every trigger), plain listeners before/after, direct and queued triggers, re-entrant triggers of the same key from inside the wrapped listener, and direct removals, on CallbackList, EventDispatcher, EventQueue and HeterEventDispatcher. The helper objects are temporaries destroyed before the first trigger. Every listener call and every condition evaluation is checked when it happens.',
        'Trusted: the counting model. Wrapped listeners cannot be identified by enumeration, so attachment is observed through triggers (two closing trigger rounds per list).',
        'Each evaluation is one seeded history of 10-40 operations on CallbackList, EventDispatcher, EventQueue or one of two HeterEventDispatcher targets (<void(int), void()>; <void(Derived), void(Base&)> with listeners taking Base&, every trigger preceded by one of the other prototype). Non-trivial = a listener is added through CounterRemover or ConditionalRemover; distinct = distinct plan hashes.'),
    'C17': seq_prop('seq_anydata', [st('c17', 'seq_anydata', 'c17', 2000000, 20000000), st('c17-faults', 'seq_anydata', 'c09', 60000, 600000)],
        'seeded move-chain / read / EventQueue round-trip histories over a compile-time sweep of AnyData capacities and stored types, ledger-tracked; the second stage re-runs the histories with the k-th allocation / copy / move throwing',
        'Compile-time sweep: AnyData<N> for N in {1, 8, 16, 24, 64} (capacities 16, 16, 16, 24, 64) x 56 stored types: trivial byte arrays of 22 sizes from 1 to 200 bytes (every capacity, capacity + 1 and capacity + 2 among them), tracked non-trivial, move-only and shared-ownership types of 6-10 sizes each, and a trivially destructible but self-referential type (it stores its own address and its move constructor marks the source) in 8 sizes around the capacities, so that a byte-wise relocation instead of a move is visible. Per history: construction from lvalue and rvalue, chains of move constructions over 4 slots, reads through get / reference / pointer / getAddress (must agree and be stable), isType for the stored type and for a different type of the same size and kind, queue round trips (enqueue, process / processOne) with the listener reading the value, destruction in any order; inline-vs-heap placement is checked against the capacity; no copy construction of the held object may happen while an AnyData is moved or enqueued as an rvalue; the ledger demands exactly one destruction per instance and nothing alive at the end.',
        'Trusted: the ledger. Bound: stored types with alignment <= alignof(void*). takeEvent cannot be instantiated for AnyData arguments (AnyData deletes move assignment), so queue round trips use process / processOne.',
        'Each evaluation is one seeded history of 6-25 operations on one (N, stored type) pair. Non-trivial = contains a move construction or a queue round trip; distinct = distinct plan hashes.'),
    'C19': seq_prop('seq_list', [st('c19', 'seq_list', 'c19', 600000, 6000000), st('c19-clang++', 'seq_list_clang', 'c19', 250000, 3000000)],
        'seeded histories with a generation-clock jump fault (guarded accessor) placed anywhere, including inside nested invocations; lockstep snapshot model with the statement\'s own relaxation for invocations in progress at the wrap',
        'The wrap of the 32-bit generation counter is injected as a forward clock jump on the list\'s logical clock (k = 0..6 additions before the maximum) at seeded points of re-entrant copy/move/swap histories. The harness learns the wrap moment by observation; only invocations in progress at that moment get the statement\'s relaxation, every later invocation is held to the strict model.',
        'Trusted: the accessor added under EVENTPP_VERIF sets the counter consistently (forward only, every existing generation stays <= the counter).',
        'Each evaluation is one seeded program as in C02/C10 on CallbackList with warp(k) operations at top level and inside callback scripts. Non-trivial = the plan contains a warp; distinct = distinct plan hashes.'),

    'C04': seq_prop('seq_disp', [st('c04-g++', 'seq_disp', 'c04', 300000, 6000000), st('c04-clang++', 'seq_disp_clang', 'c04', 300000, 6000000), st('c04-event-vs-argument-rewriting-filters', 'seq_filter', 'c04k', 100000, 2000000)],
        'seeded dispatcher histories over a key-type / map / prototype / ArgumentPassingMode / listener-parameter / value-category matrix against a per-event list model, the same seeds executed by a g++ build and a clang++ build (the two compilers evaluate dispatch()\'s argument expressions in opposite orders)',
        'Seeded search over histories of per-event listener management and dispatches for fifteen instantiations (int, enum class, std::string taken by value, user key with < only, user key with colliding hash and ==, getEvent policy on a field, explicit std::map policy, and two exclude-event instantiations whose getEvent policy is not the identity on the leading argument: bit-masking int ids, suffix-stripping std::string names, leading argument of the Event type and of another type; an exclude-event instantiation whose getEvent policy reads a trailing by-value std::string argument; and an EventQueue keyed by a by-value std::string in the include-event form, where a dispatch is enqueue + process; a getEvent policy that returns a reference; and a non-owning key type that refers to the std::string it was made from), with listeners whose parameter types differ from the prototype or that move from a by-value parameter, and arguments supplied as lvalues, temporaries and moved locals, in both argument-passing forms. Every listener call is compared with the model when it happens (which listener, in which order, with which argument values).',
        'No schedule or fault in this property; the only non-input dimension is the unspecified evaluation order, which the simulator cannot control and therefore samples with the two compilers present. Trusted: the per-event list model.',
        'Each evaluation is one seeded history of 8-35 operations on one of fifteen EventDispatcher / EventQueue instantiations (the stage on the filter engine adds a getEvent policy that returns a reference to an argument which MixinFilter filters rewrite), run in a g++ build and in a clang++ build. Non-trivial = contains a dispatch; distinct = distinct plan hashes.',
        assumptions=['rvalue-reference prototypes do not compile with the library and are not generated', 'only the compilers and the standard library installed here (g++ 12, clang++ 14, libstdc++) can be sampled']),
    'C05': seq_prop('seq_queue', [st('c05', 'seq_queue', 'c05', 300000, 6000000), st('c05-getevent-policies-g++', 'seq_disp', 'c05q', 60000, 1200000), st('c05-getevent-policies-clang++', 'seq_disp_clang', 'c05q', 60000, 1200000)],
        'seeded queue histories incl. operations issued from listeners and predicates, executed in lockstep with a FIFO queue model (exactly-once, order, argument values, every boolean result)',
        'Seeded search over single-threaded histories of enqueue (three argument forms, caller lvalues mutated afterwards), process, processOne, processIf, processUntil (mask predicates, predicates without arguments, predicates and listeners carrying scripts), peekEvent, takeEvent (+dispatch), clearEvents, emptyQueue and listener changes. Every listener and predicate call the real code makes is compared, when it happens, with the reference queue model; contents and the front event are compared after every step.',
        'Trusted: the reference queue model and the ledger. Instantiations: const-reference and by-value prototypes, a move-only payload, SingleThreading / MultipleThreading / SimMutex in one task.',
        'Each evaluation is one seeded history of 10-40 top-level operations (plus up to 19 operations from scripts) on an EventQueue. Non-trivial = the history contains a processing call; distinct = distinct plan hashes.'),
    'C13': seq_prop('seq_queue', [st('c13', 'seq_queue', 'c13', 600000, 6000000)],
        'the C05 histories with QueueList = OrderedQueueList (ascending, descending and payload-field comparators) against a stably sorted queue model',
        'Same generator and lockstep oracle as C05 with three comparators and keys drawn from three values so that ties are the norm; the model keeps the pending list stably sorted and merges put-back and newly enqueued events with a stable sort.',
        'Trusted: the ordered reference model (std::stable_sort).',
        'Each evaluation is one seeded history as in C05 on EventQueue with OrderedQueueList. Non-trivial = contains a processing call; distinct = distinct plan hashes.'),
    'C10': seq_prop('seq_list', [st('c10-list', 'seq_list', 'c10', 300000, 6000000), st('c10-queue', 'seq_queue', 'c10', 200000, 4000000), st('c10-heter', 'seq_heter', 'c10', 200000, 4000000), st('c10-filters', 'seq_filter', 'c10', 150000, 3000000)],
        'seeded histories of copy/move/assign/swap over a pool of objects constructed in PRNG-dirtied storage (the injected fault), against a pool of independent models',
        'Seeded search over histories that interleave copy construction, copy assignment (incl. self), move construction, move assignment, swap (member / ADL / self), destruction and re-creation with the full operation sets of C01/C02/C05 on every pool member, for CallbackList, EventDispatcher and EventQueue; every object is placement-constructed into storage filled with random bytes, 0xFF, 0x00 or the previous occupant\'s bytes. Lists with widely different generation counters come from the C19 accessor.',
        'Trusted: the models; the moved-from std::map is assumed empty (true for libstdc++). Self-move-assignment is not generated. The heterogeneous classes run in the third stage (same pool operations on HeterCallbackList, HeterEventDispatcher, HeterEventQueue); the fourth stage copies dispatchers/queues that carry MixinFilter / MixinHeterFilter filters and checks that the copy runs the same filters in the same order.',
        'Each evaluation is one seeded history over a pool of up to 4 (lists/dispatchers) or 3 (queues) objects. Non-trivial = the history contains a copy/move/assign/swap; distinct = distinct plan hashes.'),
    'C08': seq_prop('seq_list', [st('c08-list', 'seq_list', 'c08', 250000, 5000000), st('c08-queue', 'seq_queue', 'c08', 200000, 4000000),
         st('c08-exceptions-list', 'seq_list', 'c09', 6000, 200000, 120, 1200), st('c08-exceptions-queue', 'seq_queue', 'c09', 4000, 120000, 120, 1200), st('c08-exceptions-anydata', 'seq_anydata', 'c09', 30000, 300000, 120, 1200), st('c08-exceptions-heter', 'seq_heter', 'c09', 4000, 120000, 120, 1200)],
        'live-instance ledger enforced as an invariant at every quiescent point of seeded ownership-stress programs (removal during invocation, recycled slots, copy/move/swap chains, clearEvents, destruction with pending events, generation-counter jumps), under ASan; the same ledger is also an invariant of every C03/C06/C07/C11 simulated schedule and of every C09 fault run',
        'Every construction and destruction of every harness callback, listener and argument object is recorded by address. Immediately flagged: double destruction, copy/move/invoke of a non-live or wrong-type instance. At every quiescent point: a callback that is in no container has no live instance, a stored one has at least one per holder; arguments of cleared events are gone when clearEvents returns; after destroying every container nothing is alive.',
        'Trusted: the ledger (sim/ledger.h). The number of transient copies std::function makes is never counted, only liveness at quiescence. The documentation lets queue slots keep arguments until reuse; the check asks no more than the statement.',
        'Each evaluation is one seeded re-entrant program over a pool of lists/dispatchers (stage c08-list) or queues (stage c08-queue) with scripts, pool operations and counter jumps enabled together; the two c08-exceptions stages run the C09 fault enumeration (every k-th fault point of every operation) because the statement includes histories with exceptions. Non-trivial = contains an invocation / processing call; distinct = distinct plan hashes.'),
    'C09': seq_prop('seq_list', [st('c09-list', 'seq_list', 'c09', 12000, 400000, 120, 1200), st('c09-queue', 'seq_queue', 'c09', 8000, 250000, 120, 1200),
         st('c09-dispatcher', 'seq_disp', 'c09', 8000, 250000, 120, 1200), st('c09-heter', 'seq_heter', 'c09', 8000, 250000, 120, 1200), st('c09-removers', 'seq_remover', 'c09', 8000, 250000, 120, 1200), st('c09-anydata', 'seq_anydata', 'c09', 8000, 250000, 120, 1200), st('c09-filters', 'seq_filter', 'c09', 8000, 250000, 120, 1200)],
        'systematic fault injection: for every operation of every seeded history, a throw at the k-th fault point for every k (allocation through a replaced operator new; copy, move, comparison and invocation of user types), singly and with a seeded second fault later in the same execution',
        'For each seeded plan the harness first runs fault-free and records, per top-level operation i, the number N_i of fault points it passes; it then re-executes the plan once for every (i, k <= N_i) with the k-th point of operation i throwing (std::bad_alloc for allocations, InjectedFault otherwise). Checked: the exception reaches the caller (no terminate, no swallowed fault); strong-guarantee operations leave the complete observable state equal to the model\'s pre-call state; failed container copies leave the source intact and the destination valid; an exception out of an invocation / processing call leaves the lists as the callbacks left them and discards exactly the events that call had taken out; the rest of the plan conforms fault-free; nothing leaks.',
        'Enumeration is exhaustive per generated history (every k), histories are sampled by seed. Trusted: the replaced operator new covers every allocation of the binary; faults are armed only for the duration of library calls.',
        'Each evaluation is one seeded plan of 4-12 operations together with ALL its single-fault re-executions (evaluations counts plans; executions_including_fault_reruns counts every execution). Non-trivial = contains an invocation / processing call; distinct = distinct plan hashes.',
        level='fault_enumeration'),
    'C20': seq_prop('cfg', [
            st('c20-policies-list', 'seq_list', 'c20', 20000, 400000), st('c20-policies-queue', 'seq_queue', 'c20', 20000, 400000), st('c20-remover-storage', 'seq_remover', 'c20', 100000, 2000000),
            {'name': 'c20-build-matrix', 'bin': 'seq_list', 'bins': ['seq_queue', 'seq_disp'], 'mode': 'c20', 'custom': _cfg_stage, 'runs': {'quick': 1500, 'thorough': 20000}}],
        'differential replay: the same seeded plans executed under the Threading x Map x Callback policy variants and three object-storage fill patterns inside one binary, and under a compiler x language-standard x optimisation build matrix; the event-log hashes (every result, trace and argument value) must agree with each other and with the model',
        'Stage 1-2: every plan (C01/C10-style list and dispatcher histories with copy/move/swap; C05/C10-style queue histories) is executed under 9 list/dispatcher policy variants (Single / Multiple / SpinLock / SimMutex threading, std::map / std::unordered_map, std::function / custom callback storage) resp. 3 queue variants, each with three storage fill patterns (random, 0xFF, 0x00): 27 resp. 9 executions per plan whose event logs must be identical. Stage 3: the plans (plus the C04 dispatcher matrix, which covers ArgumentPassingMode and key kinds) are written to a file and replayed by builds made with g++ 12 and clang++ 14 at -std=c++11/14/17/20 and -O0/-O2 (4 builds for quick, all 16 for thorough) plus the sanitizer reference build; the per-plan log hashes of all builds must be equal.',
        'This is differential replay, not schedule search: the simulator\'s own determinism gate ("one seed, one execution") turned into the oracle across configurations; the only injected fault is the dirty storage. Only the two compilers and the one standard library installed here can be sampled.',
        'Each evaluation is one plan; executions_including_fault_reruns counts every (plan, policy variant, fill pattern, build) execution. Non-trivial = the plan contains an invocation / processing call / dispatch; distinct = distinct plans.'),
    'C03': {
        'engine': 'con_list',
        'level': 'exploration',
        'technique': 'deterministic simulation: seeded controlled scheduler over the real CallbackList/EventDispatcher code, linearizability check against a sequential list model, in-simulator happens-before check, drain check',
        'level_text': 'Seeded search over thread interleavings at every synchronisation point and every annotated unlocked read; each history is checked for linearizability against a sequential list model (with the final order and the traversal order constraints), for the traversal conditions, for unsynchronised structural accesses (vector clocks) and by draining the list. Sampling, not enumeration: a clean batch is evidence, not proof.',
        'level_note': 'Trusted: the simulator (sim/), the hook placement in callbacklist.h, sequential consistency. Not modelled: weak memory orderings, preemption inside shared_ptr/std::function internals, heterogeneous listener lists.',
        'stages': [
            {'name': 'c03', 'bin': 'con_list', 'mode': 'c03', 'runs': {'quick': 240000, 'thorough': 6000000}, 'time': {'quick': 100, 'thorough': 900}},
            {'name': 'c03-heterogeneous', 'bin': 'con_list', 'mode': 'c03h', 'runs': {'quick': 80000, 'thorough': 2000000}, 'time': {'quick': 60, 'thorough': 600}},
        ],
        'rule': 'Each evaluation is one simulated execution of a seeded plan (2-4 tasks x 2-5 operations on one CallbackList or EventDispatcher, '
                'std::map or std::unordered_map, SimMutex or the real SpinLock) under one seeded schedule (random walk / PCT / bounded preemption). '
                'Non-trivial = at least one preemption landed inside another task\'s library operation; distinct = distinct hashes of the '
                '(task, scheduling-point tag) sequence at task switches. The second stage runs the same plans and oracles on HeterCallbackList / HeterEventDispatcher with two prototypes '
                '(a model "event" is a (key, prototype) pair): their own mutexes and map are simulated, the per-prototype lists inside are hard-wired to std::mutex and count as atomic steps.',
        'real_vs_stub': REAL_STUB_CON,
        'assumptions': CON_ASSUMPTIONS + ['Inside the heterogeneous classes and MixinFilter the per-prototype / filter CallbackLists are hard-wired to default policies (std::mutex): their critical sections are atomic steps of the simulation, so only the heterogeneous layer itself (lazy creation of a prototype\'s list, the event map, handles crossing prototypes) is explored under the scheduler; concurrent mutation of MixinFilter filter lists is not simulated.'],
        'extra_coverage': con_extra(['c03']),
    },
    'C06': {
        'engine': 'con_queue',
        'level': 'exploration',
        'technique': 'deterministic simulation: seeded controlled scheduler over the real EventQueue/HeterEventQueue code (QueueList seam / guarded hook points), per-event conservation ledger, per-pair FIFO, happens-before check, injected listener exceptions',
        'level_text': 'Seeded search over interleavings of producers and consumers at every lock, atomic, list operation and unlocked emptiness check; each run is judged by a per-event ledger (exactly one of dispatched / taken / cleared / discarded-by-exception, payload intact), FIFO per producer-consumer pair where the statement promises it, absence of deadlock and of unsynchronised list accesses. Sampling, not enumeration.',
        'level_note': 'Trusted: the simulator, SimList as a faithful std::list wrapper, sequential consistency. HeterEventQueue uses hook points instead of the list seam (its std::list is hard-coded), so its interleavings are coarser.',
        'stages': [
            {'name': 'c06', 'bin': 'con_queue', 'mode': 'c06', 'runs': {'quick': 200000, 'thorough': 5000000}, 'time': {'quick': 90, 'thorough': 900}},
        ],
        'rule': 'Each evaluation is one simulated execution of a seeded plan (1-3 producers x 1-4 enqueues, some inside DisableQueueNotify scopes; 1-3 consumers x 1-4 calls of '
                'process/processOne/processIf/processUntil/takeEvent/peekEvent/clearEvents/emptyQueue; low-rate listener exception) on EventQueue (SimList seam) or HeterEventQueue (hook points) '
                'under one seeded schedule. Non-trivial = a preemption landed inside another task\'s library call; distinct = distinct (task, tag) switch-sequence hashes.',
        'real_vs_stub': REAL_STUB_CON,
        'assumptions': CON_ASSUMPTIONS,
        'extra_coverage': con_extra(['c06']),
    },
    'C07': {
        'engine': 'con_queue',
        'level': 'exploration',
        'technique': 'deterministic simulation: seeded controlled scheduler with simulated condition variable and clock; terminal-state (lost wake-up) check, early-return and timeout oracles; injected spurious wake-ups, late timers, stalled tasks',
        'level_text': 'Seeded search over interleavings of draining waiters, enqueuers (with nested DisableQueueNotify scopes) and processors (process, processOne, takeEvent, and processIf / processUntil whose predicates leave events in the queue without any notification), including preemption between a waiter\'s predicate evaluation and its blocking. Because plans are finite, "blocked forever" is decided as "blocked at the terminal state". Spurious wake-ups and late timers are injected. Sampling, not enumeration.',
        'level_note': 'Trusted: SimCondVar models std::condition_variable (atomic unlock-and-wait, notify_one wakes one arbitrary waiter, spurious wake-ups, timers never early). Sequential consistency.',
        'stages': [
            {'name': 'c07', 'bin': 'con_queue', 'mode': 'c07', 'runs': {'quick': 200000, 'thorough': 5000000}, 'time': {'quick': 90, 'thorough': 900}},
        ],
        'rule': 'Each evaluation is one simulated execution of a seeded plan (1-3 draining waiters using wait or waitFor, 1-2 enqueuers with and without nested DisableQueueNotify scopes, '
                'optionally one processor) on EventQueue or HeterEventQueue under one seeded schedule, with spurious wake-ups in a third of the runs and a per-run clock quantum. '
                'Non-trivial = a preemption landed inside another task\'s library call; distinct = distinct (task, tag) switch-sequence hashes.',
        'real_vs_stub': REAL_STUB_CON,
        'assumptions': CON_ASSUMPTIONS + ['A polling waiter that gives up after 120 fruitless rounds (wait() returns at once, nothing to consume) makes the terminal-state oracle inconclusive for that run; counted as terminal_inconclusive_polling_waiter_gave_up.'],
        'extra_coverage': con_extra(['c07']),
    },
    'C11': {
        'engine': 'con_queue',
        'level': 'exploration',
        'technique': 'deterministic simulation: seeded controlled scheduler; interval oracle over the per-event ledger for every emptyQueue()==true / waitFor()==false observation',
        'level_text': 'Seeded search over interleavings of observers (emptyQueue, waitFor) with enqueuers and tasks running process/processOne/takeEvent/clearEvents; every "empty" observation is checked against the event ledger using simulator event sequence numbers. Sampling, not enumeration.',
        'level_note': 'Trusted: the simulator; the two reads of emptyQueue() are separate scheduling points (list seam + atomic). processIf/processUntil are outside this property\'s quantifier and are not generated.',
        'stages': [
            {'name': 'c11', 'bin': 'con_queue', 'mode': 'c11', 'runs': {'quick': 200000, 'thorough': 5000000}, 'time': {'quick': 90, 'thorough': 900}},
            {'name': 'c11-listener-as-observer', 'bin': 'seq_queue', 'mode': 'c11', 'runs': {'quick': 150000, 'thorough': 3000000}, 'time': {'quick': 60, 'thorough': 600}},
        ],
        'rule': 'Each evaluation is one simulated execution of a seeded plan (1-2 enqueuers, 1-2 tasks running process/processOne/takeEvent/clearEvents, 1-2 observers calling emptyQueue / waitFor) '
                'under one seeded schedule. Non-trivial = a preemption landed inside another task\'s library call; distinct = distinct (task, tag) switch-sequence hashes.',
        'real_vs_stub': REAL_STUB_CON,
        'assumptions': CON_ASSUMPTIONS,
        'extra_coverage': con_extra(['c11']),
    },
}
