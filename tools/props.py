"""Registry: which engine stages decide which property, with what budgets and what the evidence says."""

REAL_STUB_CON = {
    'real': ['every eventpp header incl. eventpp::SpinLock (through its guarded hook)', 'std::function', 'std::shared_ptr / std::weak_ptr',
             'std::list / std::map / std::unordered_map internals (wrapped, not replaced)'],
    'stub': ['std::mutex -> sim::SimMutex', 'std::atomic -> sim::SimAtomic (sequentially consistent only)',
             'std::condition_variable -> sim::SimCondVar', 'wall clock -> simulated clock', 'OS threads -> ucontext fibers under a seeded scheduler'],
}

CON_ASSUMPTIONS = [
    'Between two scheduling points a task runs atomically; sound for sequentially consistent executions only: weaker-than-SC reorderings (a weakened memory_order) are not modelled.',
    'std::shared_ptr / std::weak_ptr / std::function internals are treated as atomic steps.',
    'A clean batch is evidence from seeded sampling of schedules, not a proof.',
]


def con_extra(names):
    def f(merged):
        tot = {'sched_points': 0, 'switches': 0, 'preempt_inside_op': 0, 'sim_ns': 0}
        probes = {}
        faults = {}
        for m in merged.values():
            for k in tot:
                tot[k] += m.get(k, 0)
            for k, v in m.get('probes', {}).items():
                probes[k] = probes.get(k, 0) + v
            for k, v in m.get('faults', {}).items():
                faults[k] = faults.get(k, 0) + v
        return {'scheduling_points_executed': tot['sched_points'], 'task_switches': tot['switches'],
                'preemptions_inside_an_operation': tot['preempt_inside_op'], 'simulated_time_ns': tot['sim_ns'],
                'probes': probes, 'faults_fired': faults}
    return f


PROPS = {
    'C03': {
        'engine': 'con_list',
        'level': 'exploration',
        'technique': 'deterministic simulation: seeded controlled scheduler over the real CallbackList/EventDispatcher code, linearizability check against a sequential list model, in-simulator happens-before check, drain check',
        'level_text': 'Seeded search over thread interleavings at every synchronisation point and every annotated unlocked read; each history is checked for linearizability against a sequential list model (with the final order and the traversal order constraints), for the traversal conditions, for unsynchronised structural accesses (vector clocks) and by draining the list. Sampling, not enumeration: a clean batch is evidence, not proof.',
        'level_note': 'Trusted: the simulator (sim/), the hook placement in callbacklist.h, sequential consistency. Not modelled: weak memory orderings, preemption inside shared_ptr/std::function internals, heterogeneous listener lists.',
        'stages': [
            {'name': 'c03', 'bin': 'con_list', 'mode': 'c03', 'runs': {'quick': 240000, 'thorough': 6000000}, 'time': {'quick': 100, 'thorough': 900}},
        ],
        'rule': 'Each evaluation is one simulated execution of a seeded plan (2-4 tasks x 2-5 operations on one CallbackList or EventDispatcher, '
                'std::map or std::unordered_map, SimMutex or the real SpinLock) under one seeded schedule (random walk / PCT / bounded preemption). '
                'Non-trivial = at least one preemption landed inside another task\'s library operation; distinct = distinct hashes of the '
                '(task, scheduling-point tag) sequence at task switches.',
        'real_vs_stub': REAL_STUB_CON,
        'assumptions': CON_ASSUMPTIONS + ['Concurrent mutation of heterogeneous listener lists and of MixinFilter filter lists is not simulated (their mutex is hard-wired to std::mutex).'],
        'extra_coverage': con_extra(['c03']),
    },
}
