"""Registry: which engine stages decide which property, with what budgets and what the evidence says."""

REAL_STUB_CON = {
    'real': ['every eventpp header incl. eventpp::SpinLock (through its guarded hook)', 'std::function', 'std::shared_ptr / std::weak_ptr',
             'std::list / std::map / std::unordered_map internals (wrapped, not replaced)'],
    'stub': ['std::mutex -> sim::SimMutex', 'std::atomic -> sim::SimAtomic (sequentially consistent only)',
             'std::condition_variable -> sim::SimCondVar', 'wall clock -> simulated clock', 'OS threads -> ucontext fibers under a seeded scheduler'],
}

CON_ASSUMPTIONS = [
    'Between two scheduling points a task runs atomically; sound for sequentially consistent executions only: weaker-than-SC reorderings (a weakened memory_order) are not modelled.',
    'std::shared_ptr / std::weak_ptr / std::function internals are treated as atomic steps.',
    'A clean batch is evidence from seeded sampling of schedules, not a proof.',
]


def con_extra(names):
    def f(merged):
        tot = {'sched_points': 0, 'switches': 0, 'preempt_inside_op': 0, 'sim_ns': 0}
        probes = {}
        faults = {}
        for m in merged.values():
            for k in tot:
                tot[k] += m.get(k, 0)
            for k, v in m.get('probes', {}).items():
                probes[k] = probes.get(k, 0) + v
            for k, v in m.get('faults', {}).items():
                faults[k] = faults.get(k, 0) + v
        return {'scheduling_points_executed': tot['sched_points'], 'task_switches': tot['switches'],
                'preemptions_inside_an_operation': tot['preempt_inside_op'], 'simulated_time_ns': tot['sim_ns'],
                'probes': probes, 'faults_fired': faults}
    return f


REAL_STUB_SEQ = {
    'real': ['every eventpp header under test with its real policies (SingleThreading, MultipleThreading with std::mutex, GeneralThreading<SpinLock>)',
             'std::function', 'std::shared_ptr / std::weak_ptr', 'std::list / std::map / std::unordered_map'],
    'stub': ['operator new/delete -> counting / failing wrapper over malloc (only while a fault is armed)',
             'in the *-one-task variants: std::mutex -> sim::SimMutex inside a single simulated task (self-deadlock becomes a violation)'],
}

SEQ_ASSUMPTIONS = [
    'No schedule and no clock in this property: the simulator runs in its one-task configuration; what is searched is the space of operation histories (seeded), judged against a reference model after every step.',
    'A clean batch is evidence from seeded sampling of histories, not a proof.',
]


def seq_extra(merged):
    probes, faults = {}, {}
    for m in merged.values():
        for k, v in m.get('probes', {}).items():
            probes[k] = max(probes.get(k, 0), v) if k.startswith('max_') else probes.get(k, 0) + v
        for k, v in m.get('faults', {}).items():
            faults[k] = faults.get(k, 0) + v
    sub = sum(m.get('sub_runs', 0) for m in merged.values())
    return {'probes': probes, 'faults_fired': faults, 'executions_including_fault_reruns': sub, 'simulated_time_ns': 0}


def seq_prop(engine, stages, technique, level_text, level_note, rule, level='exploration', assumptions=None):
    return {'engine': engine, 'level': level, 'technique': technique, 'level_text': level_text, 'level_note': level_note, 'stages': stages,
            'rule': rule, 'real_vs_stub': REAL_STUB_SEQ, 'assumptions': SEQ_ASSUMPTIONS + (assumptions or []), 'extra_coverage': seq_extra}


def st(name, binary, mode, quick, thorough, tq=90, tt=900):
    return {'name': name, 'bin': binary, 'mode': mode, 'runs': {'quick': quick, 'thorough': thorough}, 'time': {'quick': tq, 'thorough': tt}}


PROPS = {
    'C01': seq_prop('seq_list', [st('c01', 'seq_list', 'c01', 400000, 8000000)],
        'seeded operation histories (simulator in its one-task, fault-free configuration) refined against a reference list model; same harness that C09 runs with faults',
        'Seeded search over histories of append/prepend/insert/remove/ownsHandle/empty/invoke/forEach/forEachIf and the eventutil helpers with live, stale, empty and repeated handles; every return value, every invocation trace with argument values and the full observable content are compared with a vector-based model after every step; lists are drained at the end.',
        'Trusted: the reference model (sim-independent, ~100 lines) and the ledger. This is the fault-free control configuration of the C09 harness; no scheduler or fault is involved because the property has none.',
        'Each evaluation is one seeded history of 8-40 operations on a CallbackList<void(int, Payload)> (SingleThreading, MultipleThreading, or a comparable custom Callback type for hasListener/removeListener). '
        'Non-trivial = the history contains at least one invocation; distinct = distinct plan hashes.'),
    'C02': seq_prop('seq_list', [st('c02', 'seq_list', 'c02', 300000, 6000000)],
        'seeded re-entrant programs (callbacks carry scripts) executed in lockstep with a snapshot-semantics model; SimMutex / SpinLock one-task variants turn self-deadlock into a deterministic violation; ASan + ledger',
        'Seeded search over programs in which callbacks, to nesting depth 4, append/prepend/insert/remove (themselves and others)/enumerate/re-invoke the list being invoked and other lists of the same dispatcher. Every callback the real code runs is compared, at the moment it runs, with what snapshot semantics predicts; results of operations through removed handles are checked at every depth; content is compared after the outermost invocation; lists are drained.',
        'Trusted: the snapshot-semantics model, the ledger, the watchdog for real hangs. Policies: SingleThreading, MultipleThreading, real SpinLock, and SimMutex/SpinLock inside one simulated task.',
        'Each evaluation is one seeded program: a history of 8-40 top-level operations whose added callbacks carry scripts (1-3 operations each, nested scripts allowed, global fuel 6-30) on CallbackList or EventDispatcher under one of 9 policy variants. '
        'Non-trivial = at least one added callback carries a script; distinct = distinct plan hashes.'),
    'C19': seq_prop('seq_list', [st('c19', 'seq_list', 'c19', 300000, 6000000)],
        'seeded histories with a generation-clock jump fault (guarded accessor) placed anywhere, including inside nested invocations; lockstep snapshot model with the statement\'s own relaxation for invocations in progress at the wrap',
        'The wrap of the 32-bit generation counter is injected as a forward clock jump on the list\'s logical clock (k = 0..6 additions before the maximum) at seeded points of re-entrant copy/move/swap histories. The harness learns the wrap moment by observation; only invocations in progress at that moment get the statement\'s relaxation, every later invocation is held to the strict model.',
        'Trusted: the accessor added under EVENTPP_VERIF sets the counter consistently (forward only, every existing generation stays <= the counter).',
        'Each evaluation is one seeded program as in C02/C10 on CallbackList with warp(k) operations at top level and inside callback scripts. Non-trivial = the plan contains a warp; distinct = distinct plan hashes.'),

    'C03': {
        'engine': 'con_list',
        'level': 'exploration',
        'technique': 'deterministic simulation: seeded controlled scheduler over the real CallbackList/EventDispatcher code, linearizability check against a sequential list model, in-simulator happens-before check, drain check',
        'level_text': 'Seeded search over thread interleavings at every synchronisation point and every annotated unlocked read; each history is checked for linearizability against a sequential list model (with the final order and the traversal order constraints), for the traversal conditions, for unsynchronised structural accesses (vector clocks) and by draining the list. Sampling, not enumeration: a clean batch is evidence, not proof.',
        'level_note': 'Trusted: the simulator (sim/), the hook placement in callbacklist.h, sequential consistency. Not modelled: weak memory orderings, preemption inside shared_ptr/std::function internals, heterogeneous listener lists.',
        'stages': [
            {'name': 'c03', 'bin': 'con_list', 'mode': 'c03', 'runs': {'quick': 240000, 'thorough': 6000000}, 'time': {'quick': 100, 'thorough': 900}},
        ],
        'rule': 'Each evaluation is one simulated execution of a seeded plan (2-4 tasks x 2-5 operations on one CallbackList or EventDispatcher, '
                'std::map or std::unordered_map, SimMutex or the real SpinLock) under one seeded schedule (random walk / PCT / bounded preemption). '
                'Non-trivial = at least one preemption landed inside another task\'s library operation; distinct = distinct hashes of the '
                '(task, scheduling-point tag) sequence at task switches.',
        'real_vs_stub': REAL_STUB_CON,
        'assumptions': CON_ASSUMPTIONS + ['Concurrent mutation of heterogeneous listener lists and of MixinFilter filter lists is not simulated (their mutex is hard-wired to std::mutex).'],
        'extra_coverage': con_extra(['c03']),
    },
    'C06': {
        'engine': 'con_queue',
        'level': 'exploration',
        'technique': 'deterministic simulation: seeded controlled scheduler over the real EventQueue/HeterEventQueue code (QueueList seam / guarded hook points), per-event conservation ledger, per-pair FIFO, happens-before check, injected listener exceptions',
        'level_text': 'Seeded search over interleavings of producers and consumers at every lock, atomic, list operation and unlocked emptiness check; each run is judged by a per-event ledger (exactly one of dispatched / taken / cleared / discarded-by-exception, payload intact), FIFO per producer-consumer pair where the statement promises it, absence of deadlock and of unsynchronised list accesses. Sampling, not enumeration.',
        'level_note': 'Trusted: the simulator, SimList as a faithful std::list wrapper, sequential consistency. HeterEventQueue uses hook points instead of the list seam (its std::list is hard-coded), so its interleavings are coarser.',
        'stages': [
            {'name': 'c06', 'bin': 'con_queue', 'mode': 'c06', 'runs': {'quick': 200000, 'thorough': 5000000}, 'time': {'quick': 90, 'thorough': 900}},
        ],
        'rule': 'Each evaluation is one simulated execution of a seeded plan (1-3 producers x 1-4 enqueues, some inside DisableQueueNotify scopes; 1-3 consumers x 1-4 calls of '
                'process/processOne/processIf/processUntil/takeEvent/peekEvent/clearEvents/emptyQueue; low-rate listener exception) on EventQueue (SimList seam) or HeterEventQueue (hook points) '
                'under one seeded schedule. Non-trivial = a preemption landed inside another task\'s library call; distinct = distinct (task, tag) switch-sequence hashes.',
        'real_vs_stub': REAL_STUB_CON,
        'assumptions': CON_ASSUMPTIONS,
        'extra_coverage': con_extra(['c06']),
    },
    'C07': {
        'engine': 'con_queue',
        'level': 'exploration',
        'technique': 'deterministic simulation: seeded controlled scheduler with simulated condition variable and clock; terminal-state (lost wake-up) check, early-return and timeout oracles; injected spurious wake-ups, late timers, stalled tasks',
        'level_text': 'Seeded search over interleavings of draining waiters, enqueuers (with nested DisableQueueNotify scopes) and processors, including preemption between a waiter\'s predicate evaluation and its blocking. Because plans are finite, "blocked forever" is decided as "blocked at the terminal state". Spurious wake-ups and late timers are injected. Sampling, not enumeration.',
        'level_note': 'Trusted: SimCondVar models std::condition_variable (atomic unlock-and-wait, notify_one wakes one arbitrary waiter, spurious wake-ups, timers never early). Sequential consistency.',
        'stages': [
            {'name': 'c07', 'bin': 'con_queue', 'mode': 'c07', 'runs': {'quick': 200000, 'thorough': 5000000}, 'time': {'quick': 90, 'thorough': 900}},
        ],
        'rule': 'Each evaluation is one simulated execution of a seeded plan (1-3 draining waiters using wait or waitFor, 1-2 enqueuers with and without nested DisableQueueNotify scopes, '
                'optionally one processor) on EventQueue or HeterEventQueue under one seeded schedule, with spurious wake-ups in a third of the runs and a per-run clock quantum. '
                'Non-trivial = a preemption landed inside another task\'s library call; distinct = distinct (task, tag) switch-sequence hashes.',
        'real_vs_stub': REAL_STUB_CON,
        'assumptions': CON_ASSUMPTIONS + ['processIf/processUntil are not used by the processing tasks of these plans (DESIGN.md C07 traps).'],
        'extra_coverage': con_extra(['c07']),
    },
    'C11': {
        'engine': 'con_queue',
        'level': 'exploration',
        'technique': 'deterministic simulation: seeded controlled scheduler; interval oracle over the per-event ledger for every emptyQueue()==true / waitFor()==false observation',
        'level_text': 'Seeded search over interleavings of observers (emptyQueue, waitFor) with enqueuers and tasks running process/processOne/takeEvent/clearEvents; every "empty" observation is checked against the event ledger using simulator event sequence numbers. Sampling, not enumeration.',
        'level_note': 'Trusted: the simulator; the two reads of emptyQueue() are separate scheduling points (list seam + atomic). processIf/processUntil are outside this property\'s quantifier and are not generated.',
        'stages': [
            {'name': 'c11', 'bin': 'con_queue', 'mode': 'c11', 'runs': {'quick': 200000, 'thorough': 5000000}, 'time': {'quick': 90, 'thorough': 900}},
        ],
        'rule': 'Each evaluation is one simulated execution of a seeded plan (1-2 enqueuers, 1-2 tasks running process/processOne/takeEvent/clearEvents, 1-2 observers calling emptyQueue / waitFor) '
                'under one seeded schedule. Non-trivial = a preemption landed inside another task\'s library call; distinct = distinct (task, tag) switch-sequence hashes.',
        'real_vs_stub': REAL_STUB_CON,
        'assumptions': CON_ASSUMPTIONS,
        'extra_coverage': con_extra(['c11']),
    },
}
