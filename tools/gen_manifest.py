#!/usr/bin/env python3
"""Regenerates /verif/MANIFEST.json from tools/props.py (claimed checks) and tools/not_applicable.json."""
import json
import os
import subprocess
import sys

ROOT = os.path.dirname(os.path.dirname(os.path.abspath(__file__)))
sys.path.insert(0, os.path.join(ROOT, 'tools'))
from props import PROPS  # noqa: E402


def main():
    all_ids = [json.loads(l)['id'] for l in open(os.path.join(ROOT, 'properties.jsonl'))]
    na_path = os.path.join(ROOT, 'tools', 'not_applicable.json')
    na = json.load(open(na_path)) if os.path.exists(na_path) else {}
    hook_commits = []
    try:
        out = subprocess.run(['git', '-C', '/repo', 'log', '--format=%H %s'], stdout=subprocess.PIPE, text=True).stdout
        for line in out.splitlines():
            h, subj = line.split(' ', 1)
            if 'EVENTPP_VERIF' in subj or subj.lower().startswith('verif hook'):
                hook_commits.append(h)
    except Exception:
        pass
    checks = []
    for pid in all_ids:
        if pid not in PROPS:
            continue
        p = PROPS[pid]
        checks.append({
            'property_id': pid,
            'quick_cmd': 'python3 tools/verif.py check %s --tier quick' % pid,
            'thorough_cmd': 'python3 tools/verif.py check %s --tier thorough' % pid,
            'evidence_file': 'evidence/%s.json' % pid,
            'replay_cmd_template': 'python3 tools/verif.py replay {path}',
            'engine': p['engine'],
            'level_claimed': {'category': p['level'], 'text': p.get('level_text', ''), 'design_ref': p.get('design_ref', 'DESIGN.md section 3, ' + pid)},
            'level_note': p.get('level_note', ''),
            'technique': p.get('technique', 'deterministic simulation with fault injection'),
        })
    not_app = []
    for pid in all_ids:
        if pid in PROPS:
            continue
        not_app.append({'property_id': pid, 'reason': na.get(pid, 'check not built yet in this round; see DESIGN.md section 3 for the planned design')})
    engines = {}
    for pid, p in PROPS.items():
        for st in p['stages']:
            e = engines.setdefault(st['bin'], {'name': st['bin'], 'path': 'engines/%s.cpp' % st['bin'], 'serves_properties': [], 'kind_free_text': ''})
            if pid not in e['serves_properties']:
                e['serves_properties'].append(pid)
    kinds = {'con': 'controlled scheduler (fibers) over simulated mutex/atomic/condition variable/containers; seeded schedules and faults',
             'seq': 'seeded operation histories against a reference model (simulator in its one-task, fault-free configuration)',
             'flt': 'systematic k-th fault point injection over seeded histories',
             'cfg': 'the same seeds replayed across a compiler/standard/policy matrix'}
    for e in engines.values():
        e['kind_free_text'] = kinds.get(e['name'].split('_')[0], '')
        e['serves_properties'].sort()
    man = {
        'version': 1,
        'setup_cmd': 'python3 tools/verif.py build',
        'hooks': {
            'guard': 'EVENTPP_VERIF',
            'enable': 'the Makefile compiles every engine with -DEVENTPP_VERIF -I$VERIF_REPO/include (default /repo/include)',
            'baseline_off_cmd': 'cmake --install /repo/_build --prefix /repo/_prefix && cmake --build /repo/_build_tests -j16 && ctest --test-dir /repo/_build_tests -j8 --timeout 900',
            'source_commits': hook_commits,
            'add_only': True,
        },
        'engines': sorted(engines.values(), key=lambda e: e['name']),
        'checks': checks,
        'not_applicable': not_app,
        'notes': 'All checks are driven by tools/verif.py; engines are rebuilt from the current working tree of /repo (or $VERIF_REPO) on every invocation '
                 '(make with header dependency tracking). Violations are written to replays/ and reproduced with "python3 tools/verif.py replay <file>". '
                 'Repaired defects are listed in known_findings.txt.',
    }
    with open(os.path.join(ROOT, 'MANIFEST.json'), 'w') as f:
        json.dump(man, f, indent=1)
        f.write('\n')
    print('MANIFEST.json: %d checks, %d not_applicable' % (len(checks), len(not_app)))


if __name__ == '__main__':
    main()
