#!/usr/bin/env python3
"""The false-alarm side of the sensitivity experiment: behaviour-preserving changes to wqking/eventpp must not raise an alarm.

  python3 tools/benign.py adopt <out-dir> <name> [--skip-tests]
      out-dir holds patch.diff and meta.txt as delivered by an independent sub-agent asked for a refactoring that keeps every
      listed property. Confirms in a scratch worktree of /repo that the patch applies to HEAD and that the unit-test suite
      builds and passes with it, then stores /verif/benign/<name>/.
  python3 tools/benign.py run <name> [checks...]    apply the patch to /repo, run the quick checks (default: all), undo the patch.
      Every check must exit 0 without a VIOLATION line; anything else is a false alarm to be investigated.
"""
import json
import os
import shutil
import subprocess
import sys
import time

ROOT = os.path.dirname(os.path.dirname(os.path.abspath(__file__)))
BENIGN = os.path.join(ROOT, 'benign')
ALL = ['C01', 'C02', 'C03', 'C04', 'C05', 'C06', 'C07', 'C08', 'C09', 'C10', 'C11', 'C12', 'C13', 'C14', 'C15', 'C16', 'C17', 'C19', 'C20']


def sh(cmd, **kw):
    return subprocess.run(cmd, shell=isinstance(cmd, str), stdout=subprocess.PIPE, stderr=subprocess.STDOUT, text=True, **kw)


def adopt(out_dir, name, skip_tests):
    dst = os.path.join(BENIGN, name)
    os.makedirs(dst, exist_ok=True)
    for f in ('patch.diff', 'meta.txt'):
        src = os.path.join(out_dir, f)
        if os.path.exists(src):
            shutil.copy(src, os.path.join(dst, f))
    patch = os.path.join(dst, 'patch.diff')
    wt = '/tmp/benign-confirm-%s' % name
    sh('git -C /repo worktree remove --force %s' % wt)
    sh('git -C /repo worktree add -q --detach %s HEAD' % wt)
    result = {'applies': False, 'tests_pass_with_patch': None}
    try:
        ra = sh('git -C %s apply %s' % (wt, patch))
        result['applies'] = ra.returncode == 0
        if ra.returncode != 0:
            result['apply_error'] = ra.stdout[-400:]
        elif not skip_tests:
            b = wt + '-build'
            shutil.rmtree(b, ignore_errors=True)
            rb = sh('(cmake -S %s/tests -B %s -G Ninja -DCMAKE_BUILD_TYPE=RelWithDebInfo && cmake --build %s --target unittest -j16) > %s.log 2>&1; %s/unittest/unittest 2>&1 | tail -3' % (wt, b, b, b, b), timeout=3000)
            result['tests_pass_with_patch'] = 'All tests passed' in rb.stdout
            result['tests_last_line'] = rb.stdout.strip()[-120:]
            if not result['tests_pass_with_patch']:
                result['build_log_tail'] = open(b + '.log').read()[-1500:] if os.path.exists(b + '.log') else ''
            shutil.rmtree(b, ignore_errors=True)
            if os.path.exists(b + '.log'):
                os.unlink(b + '.log')
    finally:
        sh('git -C /repo worktree remove --force %s' % wt)
        sh('git -C /repo worktree prune')
    meta = {'name': name, 'kind': 'behaviour-preserving change (must NOT be reported)',
            'origin': 'independent sub-agent given the property texts and a scratch worktree',
            'base_commit': sh('git -C /repo rev-parse --short HEAD').stdout.strip(), 'confirmed': result,
            'confirmed_at': time.strftime('%Y-%m-%dT%H:%M:%SZ', time.gmtime())}
    with open(os.path.join(dst, 'meta.json'), 'w') as f:
        json.dump(meta, f, indent=1)
        f.write('\n')
    ok = result['applies'] and (skip_tests or result['tests_pass_with_patch'])
    print(json.dumps(result, indent=1))
    print('CONFIRMED' if ok else 'NOT CONFIRMED')
    return 0 if ok else 1


def run(name, checks):
    dst = os.path.join(BENIGN, name)
    meta_path = os.path.join(dst, 'meta.json')
    meta = json.load(open(meta_path))
    checks = checks or ALL
    st = sh('git -C /repo status --porcelain --untracked-files=no').stdout.strip()
    if st:
        print('refusing: /repo has uncommitted changes to tracked files:\n' + st)
        return 2
    ra = sh('git -C /repo apply %s' % os.path.join(dst, 'patch.diff'))
    if ra.returncode != 0:
        print('patch does not apply: ' + ra.stdout)
        return 2
    results = {}
    saved = {}
    for c in checks:
        ep = os.path.join(ROOT, 'evidence', c + '.json')
        if os.path.exists(ep):
            saved[ep] = open(ep).read()
    alarms = 0
    try:
        for c in checks:
            t0 = time.time()
            r = sh('python3 tools/verif.py check %s --tier quick' % c, cwd=ROOT, timeout=3600)
            viol = [l for l in r.stdout.splitlines() if l.startswith('VIOLATION')]
            cls = [l.strip() for l in r.stdout.splitlines() if l.strip().startswith('class=') or 'MACHINERY ERROR' in l]
            quiet = r.returncode == 0 and not viol
            alarms += 0 if quiet else 1
            results[c] = {'exit': r.returncode, 'quiet': quiet, 'wall_s': round(time.time() - t0, 1), 'violation_lines': viol[:3], 'classes': [x[:300] for x in cls[:3]]}
            print('%s vs %s: %s (exit %d, %.0fs) %s' % (name, c, 'quiet' if quiet else 'ALARM', r.returncode, time.time() - t0, cls[0][:200] if cls else ''))
            sys.stdout.flush()
    finally:
        sh('git -C /repo checkout -- .')
        for ep, text in saved.items():
            with open(ep, 'w') as f:
                f.write(text)
    meta.setdefault('check_results', {}).update(results)
    meta['check_results_at'] = time.strftime('%Y-%m-%dT%H:%M:%SZ', time.gmtime())
    with open(meta_path, 'w') as f:
        json.dump(meta, f, indent=1)
        f.write('\n')
    print('%s: %d alarm(s) over %d checks' % (name, alarms, len(checks)))
    return 0 if alarms == 0 else 1


def main(argv):
    if len(argv) < 3:
        print(__doc__)
        return 2
    if argv[1] == 'adopt':
        return adopt(argv[2], argv[3], '--skip-tests' in argv)
    if argv[1] == 'run':
        return run(argv[2], argv[3:])
    print(__doc__)
    return 2


if __name__ == '__main__':
    sys.exit(main(sys.argv))
