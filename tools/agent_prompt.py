#!/usr/bin/env python3
"""Prints the (low-hint) prompt handed to an independent sub-agent that is to seed a property-breaking change.

  python3 tools/agent_prompt.py <property-id> <worktree> <out-dir>

The prompt carries only the property (as in properties.jsonl), the one-line names of the changes already kept for that
property ("find something different in kind"), and the form of the deliverable. Nothing about /verif's machinery.
"""
import json
import os
import sys

ROOT = os.path.dirname(os.path.dirname(os.path.abspath(__file__)))


def main():
    pid, wt, out = sys.argv[1:4]
    prop = None
    for line in open(os.path.join(ROOT, 'properties.jsonl')):
        p = json.loads(line)
        if p['id'] == pid:
            prop = p
    covered = []
    for name in sorted(os.listdir(os.path.join(ROOT, 'seeded'))):
        mp = os.path.join(ROOT, 'seeded', name, 'meta.json')
        if not os.path.exists(mp):
            continue
        m = json.load(open(mp))
        if m.get('breaks_property') == pid:
            covered.append('- %s (needs: %s)' % (name.split('-', 1)[1].replace('-', ' '), m.get('needs_to_manifest', '')[:160]))
    text = """You are helping to evaluate how well a verification effort for the C++11 header-only library wqking/eventpp detects regressions.
Your job: write ONE realistic change to the library that BREAKS the semantic property given below, while the library still compiles and
its existing unit-test suite still passes, and demonstrate the breakage with a small deterministic program.

Your private scratch git worktree of the library is at {wt} (headers under {wt}/include/eventpp, docs under {wt}/doc, tests under
{wt}/tests). Work ONLY inside {wt} and {out}; do not read or touch /repo, /verif or any other directory outside them.

THE PROPERTY (id {pid})
title: {title}
statement: {statement}
quantifier: {quant}
anchors (where the property lives in the code): {anchors}

Requirements for the change
* It must be the kind of edit a maintainer could plausibly commit (a refactoring gone subtly wrong, an "optimisation", a tidy-up, a
  misplaced line, a changed condition) - not sabotage that ordinary use exposes at once. Keep it small (a few lines to ~30 lines), in the
  headers under include/eventpp only.
* It must need something SPECIFIC to manifest: a particular thread interleaving, a fault (exception, allocation failure) at a particular
  point, a multi-step sequence of operations, an unusual-but-legal input or template configuration, or two cooperating sites that each
  look fine alone.
* The library's unit tests must still build and pass with it. Build and run them:
    cmake -S {wt}/tests -B {wt}-build -G Ninja -DCMAKE_BUILD_TYPE=RelWithDebInfo > /dev/null && cmake --build {wt}-build --target unittest -j8 2>&1 | tail -3 && {wt}-build/unittest/unittest | tail -3
  (expect "All tests passed (1919 assertions in 209 test cases)"; the build takes a few minutes). Remove {wt}-build when done.
* Changes of the following kinds are ALREADY covered for this property - find something DIFFERENT IN KIND (a different mechanism,
  code path, class, template configuration or kind of trigger), and prefer the less obvious corners of the code the property touches:
{covered}

Deliverable, in {out}/ (create it):
* patch.diff   - `git -C {wt} diff` of your change (must apply with `git apply` to the unmodified worktree HEAD).
* demo.cpp + demo.sh - demo.sh takes the include directory as $1 (e.g. `bash demo.sh {wt}/include`), compiles demo.cpp against it
  (g++ or clang++, any -std from c++11 to c++20, -pthread allowed, no other dependencies) and runs it; exit status 0 and a line PASS when
  the property holds, non-zero and a line FAIL when it is violated. It must be DETERMINISTIC: force interleavings with custom Threading
  policy types (Policies::Threading with your own Mutex/Atomic/ConditionVariable that hand control between threads at chosen points),
  semaphores/handshakes inside callbacks, or a single thread - never sleeps-and-hope. It must PASS on the unmodified headers and FAIL with
  your patch. Hangs must be turned into FAIL by a timeout inside demo.sh (e.g. `timeout 20`).
* meta.txt - 5-15 lines: what the change is, why it is plausible, exactly what is needed for it to manifest, why the unit tests miss it.

Before finishing: revert your change in the worktree (`git -C {wt} checkout -- .`), verify demo.sh PASSes on it, re-apply patch.diff with
`git -C {wt} apply`, verify demo.sh FAILs and the unit tests pass, then revert again and delete {wt}-build. Report in your final message:
the one-line name of the change, what it needs to manifest, and the outputs of those verification steps.
""".format(wt=wt, out=out, pid=pid, title=prop['title'], statement=prop['statement'], quant=json.dumps(prop['quantifier']),
           anchors=json.dumps(prop['anchors']), covered='\n'.join(covered) if covered else '  (none yet)')
    print(text)


if __name__ == '__main__':
    main()
