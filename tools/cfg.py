"""C20: the same plans replayed under a compiler x standard x optimisation matrix (each build additionally runs every plan under
its in-binary Threading x Map x Callback x fill-pattern matrix). Event-log hashes must agree across all builds."""
import json
import os
import subprocess
import time

ROOT = os.path.dirname(os.path.dirname(os.path.abspath(__file__)))

QUICK = [('g++', 'c++11', '-O0'), ('g++', 'c++20', '-O2'), ('clang++', 'c++14', '-O2'), ('clang++', 'c++17', '-O0')]
THOROUGH = [(c, s, o) for c in ('g++', 'clang++') for s in ('c++11', 'c++14', 'c++17', 'c++20') for o in ('-O0', '-O2')]
ENGINES = [('seq_list', 'c20'), ('seq_queue', 'c20'), ('seq_disp', 'c04')]


def tag(cfg):
    return 'cfg-%s-%s-%s' % (cfg[0].replace('+', 'p'), cfg[1].replace('+', 'p'), cfg[2].strip('-'))


def build_matrix(cfgs, repo, suffix=''):
    """builds every configuration (no sanitizers); returns {tag: dir} or raises"""
    procs = []
    dirs = {}
    jobs = max(2, 16 // max(1, len(cfgs)))
    for cfg in cfgs:
        t = tag(cfg) + suffix
        out = os.path.join('build', t)
        dirs[t] = os.path.join(ROOT, out)
        targets = [os.path.join(out, e) for e, _ in ENGINES]
        cmd = ['make', '-s', '-C', ROOT, '-j', str(jobs), 'REPO=' + repo, 'OUT=' + out, 'CXX=' + cfg[0], 'STD=' + cfg[1], 'OPT=' + cfg[2], 'SAN='] + targets
        procs.append((t, subprocess.Popen(cmd, stdout=subprocess.PIPE, stderr=subprocess.STDOUT, text=True)))
    for t, p in procs:
        so, _ = p.communicate()
        if p.returncode != 0:
            raise RuntimeError('matrix build %s failed:\n%s' % (t, so[-3000:]))
    return dirs


def run_plans(binary, mode, plans_path, timeout=3600):
    r = subprocess.run([binary, '--mode', mode, '--plans', plans_path, '--loghashes', '--max-viol', '5'], stdout=subprocess.PIPE, stderr=subprocess.PIPE, text=True, errors='replace', timeout=timeout)
    hashes, viol, stats = {}, [], None
    for ln in r.stdout.splitlines():
        if ln.startswith('H '):
            _, i, h = ln.split()
            hashes[int(i)] = h
        elif ln.startswith('V '):
            try:
                viol.append(json.loads(ln[2:]))
            except ValueError:
                pass
        elif ln.startswith('S '):
            try:
                stats = json.loads(ln[2:])
            except ValueError:
                pass
    return hashes, viol, stats, r.returncode, r.stderr[-1500:]


def stage(prop, st, tier, base, od, tmpdir, repo):
    t0 = time.time()
    cfgs = QUICK if tier == 'quick' else THOROUGH
    nplans = st['runs'][tier]
    suffix = '' if os.path.realpath(repo) == '/repo' else '-' + os.path.basename(od)
    res = {'viol': [], 'stats': [], 'crashes': [], 'stderr': [], 'distinct': 0, 'custom_reports': []}
    try:
        dirs = build_matrix(cfgs, repo, suffix)
    except RuntimeError as e:
        res['stderr'].append(str(e))
        return res
    dirs = dict(dirs)
    dirs['reference-g++-c++11-O1-asan-ubsan'] = od
    executions = 0
    distinct = 0
    samples = []
    per_build = {}
    for engine, mode in ENGINES:
        ref = os.path.join(od, engine)
        plans_path = os.path.join(tmpdir, 'c20-%s-%s.plans' % (engine, os.getpid()))
        n = nplans if engine != 'seq_disp' else nplans * 2
        with open(plans_path, 'w') as f:
            r = subprocess.run([ref, '--mode', mode, '--base', str(base), '--dump', '0', '--count', str(n)], stdout=f, stderr=subprocess.PIPE, text=True)
        plans = open(plans_path).read().splitlines()
        distinct += len(set(plans))
        allh = {}
        for t, d in sorted(dirs.items()):
            hashes, viol, stats, rc, err = run_plans(os.path.join(d, engine), mode, plans_path)
            executions += (stats or {}).get('sub_runs', 0) or len(hashes)
            per_build.setdefault(t, 0)
            per_build[t] += len(hashes)
            if rc not in (0, 1) or len(hashes) < len(plans) and not viol:
                res['stderr'].append('%s/%s exited with %d after %d of %d plans: %s' % (t, engine, rc, len(hashes), len(plans), err))
            for v in viol:
                v['detail'] = '[build %s] %s' % (t, v.get('detail', ''))
                v['_build'] = t
                if t.startswith('reference'):
                    res['viol'].append(v)        # reproducible with the reference binary: the generic gate / minimiser applies
                else:
                    write_cfg_report(res, prop, engine, mode, v['plan'], v['class'], v['detail'], [t], repo)
            allh[t] = hashes
        # cross-build comparison
        names = sorted(allh)
        for i in range(len(plans)):
            hs = {t: allh[t].get(i) for t in names if i in allh[t]}
            if len(set(hs.values())) > 1:
                groups = {}
                for t, h in hs.items():
                    groups.setdefault(h, []).append(t)
                detail = 'plan %d of %s/%s produced different event logs in different builds: %s' % (i, engine, mode, '; '.join('%s -> %s' % (h, ','.join(ts)) for h, ts in sorted(groups.items())))
                write_cfg_report(res, prop, engine, mode, json.loads(plans[i]), 'configuration-dependent-behaviour', detail, names, repo)
                if len(res['custom_reports']) >= 3:
                    break
        if len(samples) < 3 and plans:
            samples.append('%s/%s plan 0: %s' % (engine, mode, plans[0][:300]))
        os.unlink(plans_path)
    res['distinct'] = distinct
    res['stats'] = [{'runs': distinct, 'sub_runs': executions, 'nontrivial': distinct, 'samples': samples, 'wall': time.time() - t0,
                     'probes': {'builds': len(dirs), 'plans_per_build': per_build},
                     'matrix': ['%s -std=%s %s' % c for c in cfgs] + ['reference: g++ -std=c++11 -O1 -fsanitize=address,undefined']}]
    return res


def write_cfg_report(res, prop, engine, mode, plan, cls, detail, builds, repo):
    if len(res['custom_reports']) >= 3:
        return
    os.makedirs(os.path.join(ROOT, 'replays'), exist_ok=True)
    path = os.path.join(ROOT, 'replays', 'C20-matrix-%s-%d.json' % (engine, len(res['custom_reports'])))
    with open(path, 'w') as f:
        json.dump({'property': 'C20', 'engine': 'cfg', 'cfg_engine': engine, 'mode': mode, 'violation': cls, 'detail': detail, 'builds': builds, 'plan': plan}, f, indent=1)
        f.write('\n')
    res['custom_reports'].append({'class': cls, 'replay': path, 'detail': detail})


def replay(rep, repo):
    """re-runs the plan in every build of the quick matrix plus the reference; reports whether the logs differ / a build reports a violation"""
    from verif import build, out_dir
    od = build([rep['cfg_engine']])
    dirs = build_matrix(QUICK if len(rep.get('builds', [])) <= len(QUICK) + 1 else THOROUGH, repo)
    dirs['reference'] = od
    tmp = os.path.join(ROOT, 'build', 'tmp')
    os.makedirs(tmp, exist_ok=True)
    pp = os.path.join(tmp, 'c20-replay.plans')
    with open(pp, 'w') as f:
        f.write(json.dumps(rep['plan']) + '\n')
    seen = {}
    bad = False
    for t, d in sorted(dirs.items()):
        hashes, viol, _, rc, _ = run_plans(os.path.join(d, rep['cfg_engine']), rep['mode'], pp)
        seen[t] = hashes.get(0)
        if viol:
            bad = True
            print('build %s: %s %s' % (t, viol[0]['class'], viol[0]['detail'][:300]))
    if len(set(seen.values())) > 1:
        bad = True
        print('event logs differ: %s' % seen)
    return bad
