#!/usr/bin/env python3
"""Driver for the eventpp deterministic-simulation checks (DESIGN 2.9).

  python3 tools/verif.py check <ID> [--tier quick|thorough]
  python3 tools/verif.py replay <file>
  python3 tools/verif.py build [bins...]
  python3 tools/verif.py determinism <ID> [--seeds N]

Environment: VERIF_SEED (base seed), VERIF_TIER, VERIF_REPO (repository to build against, default /repo),
VERIF_WORKERS (default 16).
Exit codes of `check`: 0 property held on everything explored; 1 violation (a VIOLATION line is printed);
2 machinery error (a violation that does not reproduce is never reported as one).
"""
import array
import fcntl
import hashlib
import json
import os
import subprocess
import sys
import time

ROOT = os.path.dirname(os.path.dirname(os.path.abspath(__file__)))
sys.path.insert(0, os.path.join(ROOT, 'tools'))
from props import PROPS  # noqa: E402

REPO = os.environ.get('VERIF_REPO', '/repo')
WORKERS = int(os.environ.get('VERIF_WORKERS', '16'))


def out_dir():
    if os.path.realpath(REPO) == '/repo':
        return os.path.join(ROOT, 'build', 'main')
    tag = hashlib.sha1(os.path.realpath(REPO).encode()).hexdigest()[:10]
    return os.path.join(ROOT, 'build', 'alt-' + tag)


def log(msg):
    sys.stderr.write(msg + '\n')
    sys.stderr.flush()


# --------------------------------------------------------------------------------------------- build
def build(bins):
    od = out_dir()
    os.makedirs(od, exist_ok=True)
    lock_path = os.path.join(ROOT, 'build', '.lock')
    with open(lock_path, 'w') as lk:
        fcntl.flock(lk, fcntl.LOCK_EX)
        targets = [os.path.join(os.path.relpath(od, ROOT), b) for b in bins]
        cmd = ['make', '-s', '-C', ROOT, '-j', str(WORKERS), 'REPO=' + REPO, 'OUT=' + os.path.relpath(od, ROOT)] + targets
        t0 = time.time()
        r = subprocess.run(cmd, stdout=subprocess.PIPE, stderr=subprocess.STDOUT, text=True)
        if r.returncode != 0:
            sys.stdout.write(r.stdout)
            log('BUILD FAILED: ' + ' '.join(cmd))
            return None
        dt = time.time() - t0
        if dt > 1:
            log('build of %s took %.1fs' % (','.join(bins), dt))
    return od


# --------------------------------------------------------------------------------------------- workers
def parse_lines(text):
    viol, stats, crashes, hashes = [], [], [], []
    for line in text.splitlines():
        if line.startswith('V '):
            try:
                viol.append(json.loads(line[2:]))
            except ValueError:
                pass
        elif line.startswith('S '):
            try:
                stats.append(json.loads(line[2:]))
            except ValueError:
                pass
        elif line.startswith('C '):
            try:
                crashes.append(json.loads(line[2:]))
            except ValueError:
                pass
        elif line.startswith('H '):
            hashes.append(line)
    return viol, stats, crashes, hashes


def run_workers(binary, mode, base, total_runs, time_limit, tmpdir, tag, extra=None, max_viol=3):
    """Start WORKERS processes over interleaved index ranges; restart a worker that died after its crash index."""
    nw = WORKERS
    per = (total_runs + nw - 1) // nw
    procs = []
    results = {'viol': [], 'stats': [], 'crashes': [], 'stderr': []}

    def start(w, first_n):
        hf = os.path.join(tmpdir, '%s-w%d-%d.bin' % (tag, w, first_n))
        cmd = [binary, '--mode', mode, '--base', str(base), '--start', str(w + first_n * nw), '--count', str(per - first_n),
               '--stride', str(nw), '--hashfile', hf, '--max-viol', str(max_viol)]
        if time_limit:
            cmd += ['--time', str(time_limit)]
        if extra:
            cmd += extra
        p = subprocess.Popen(cmd, stdout=subprocess.PIPE, stderr=subprocess.PIPE, text=True, errors='replace')
        return {'p': p, 'w': w, 'hf': hf, 'first_n': first_n}

    for w in range(nw):
        procs.append(start(w, 0))
    hashfiles = []
    while procs:
        pr = procs.pop(0)
        so, se = pr['p'].communicate()
        rc = pr['p'].returncode
        viol, stats, crashes, _ = parse_lines(so)
        results['viol'] += viol
        results['stats'] += stats
        hashfiles.append(pr['hf'])
        if rc in (0, 1) and not stats:
            # a worker never ends without its statistics line: whatever killed it must not pass for a clean exit
            results['stderr'].append('worker %d ended with exit code %d but without a statistics line: %s' % (pr['w'], rc, se[-2000:]))
        if rc not in (0, 1):
            if crashes:
                c = crashes[-1]
                c['stderr'] = se[-6000:]
                c['rc'] = rc
                results['crashes'].append(c)
                idx = int(c.get('i', -1))
                # resume after the crashed index (bounded number of restarts per worker)
                if idx >= 0 and len(results['crashes']) < 6:
                    n_done = (idx - pr['w']) // nw + 1
                    if n_done < per:
                        procs.append(start(pr['w'], n_done))
            else:
                results['stderr'].append('worker %d exited with %d: %s' % (pr['w'], rc, se[-2000:]))
    distinct = set()
    for hf in hashfiles:
        try:
            a = array.array('Q')
            with open(hf, 'rb') as f:
                data = f.read()
            a.frombytes(data[:len(data) // 8 * 8])
            distinct.update(a)
            os.unlink(hf)
        except OSError:
            pass
    results['distinct'] = len(distinct)
    return results


def merge_stats(stats):
    tot = {}

    def add(dst, src):
        for k, v in src.items():
            if isinstance(v, bool):
                dst[k] = dst.get(k, False) or v
            elif isinstance(v, (int, float)):
                dst[k] = max(dst.get(k, 0), v) if k.startswith('max_') else dst.get(k, 0) + v
            elif isinstance(v, dict):
                dst.setdefault(k, {})
                add(dst[k], v)
            elif isinstance(v, list) and v and all(isinstance(x, (int, float)) for x in v):
                old = dst.get(k, [0] * len(v))
                dst[k] = [a + b for a, b in zip(old, v)]
            elif isinstance(v, list):
                dst.setdefault(k, [])
                if len(dst[k]) < 4:
                    dst[k] += v[:4 - len(dst[k])]
            elif isinstance(v, str):
                dst.setdefault(k, v)
    for s in stats:
        add(tot, s)
    return tot


# --------------------------------------------------------------------------------------------- replay + minimise
WATCHDOG_S = int(os.environ.get('VERIF_WATCHDOG_S', '20') or 20)


def run_replay(binary, mode, plan_obj, tmpdir, resched=None, timeout=None):
    if timeout is None:
        timeout = WATCHDOG_S + 10
    path = os.path.join(tmpdir, 'cand-%d.json' % os.getpid())
    with open(path, 'w') as f:
        json.dump({'mode': mode, 'plan': plan_obj}, f)
    cmd = [binary, '--mode', mode, '--replay', path]
    if resched is not None:
        cmd += ['--resched', str(resched)]
    try:
        r = subprocess.run(cmd, stdout=subprocess.PIPE, stderr=subprocess.PIPE, text=True, errors='replace', timeout=timeout)
    except subprocess.TimeoutExpired:
        return {'class': 'hang', 'hash': 'hang', 'detail': 'replay did not finish within %ds' % timeout, 'plan': plan_obj}
    viol, _, crashes, _ = parse_lines(r.stdout)
    if viol:
        return viol[0]
    if r.returncode not in (0, 1):
        kind = crashes[-1].get('kind', 'crash') if crashes else 'crash'
        sig = crashes[-1].get('sig', 0) if crashes else 0
        cls = 'crash-%s%s' % (kind, ('-%d' % sig) if sig else '')
        first = ''
        for ln in r.stderr.splitlines():
            if 'ERROR: AddressSanitizer' in ln or 'runtime error' in ln or 'Assertion' in ln:
                first = ln.strip()[:300]
                break
        # the crash summary (not addresses) identifies the violation
        import re
        summ = re.sub(r'0x[0-9a-f]+', 'ADDR', first)
        summ = re.sub(r'==\d+==', '', summ)
        summ = re.sub(r'\bT\d+\b', 'T', summ)
        return {'class': cls, 'hash': hashlib.sha1((cls + summ.split(' on address')[0]).encode()).hexdigest()[:16],
                'detail': summ, 'plan': plan_obj, 'stderr': r.stderr[-4000:]}
    return None


def plan_size(plan):
    return sum(len(t) for t in plan.get('tasks', [])) + sum(len(t) for t in plan.get('scripts', [])) + len(plan.get('faults', []))


def minimise(binary, mode, plan, cls, tmpdir, budget_s=40, resched_tries=24):
    """Greedy ddmin over operations (whole tasks, then ops, then script ops), keeping the violation class."""
    t_end = time.time() + budget_s
    tested = [0]

    def fails(p):
        if time.time() > t_end:
            return None
        tested[0] += 1
        v = run_replay(binary, mode, p, tmpdir)
        if v and v['class'] == cls:
            return v
        if 'choices' in p:
            for k in range(resched_tries):
                if time.time() > t_end:
                    return None
                tested[0] += 1
                q = dict(p)
                v = run_replay(binary, mode, q, tmpdir, resched=k + 1)
                if v and v['class'] == cls:
                    return v
        return None

    best = json.loads(json.dumps(plan))
    changed = True
    while changed and time.time() < t_end:
        changed = False
        # whole tasks
        for ti in range(len(best.get('tasks', []))):
            if not best['tasks'][ti]:
                continue
            cand = json.loads(json.dumps(best))
            cand['tasks'][ti] = []
            v = fails(cand)
            if v:
                best = v['plan'] if 'plan' in v and v['plan'].get('tasks') is not None else cand
                changed = True
        # chunks of ops, then single ops
        for key in ('tasks', 'scripts'):
            for ti in range(len(best.get(key, []))):
                n = len(best[key][ti])
                chunk = max(1, n // 2)
                while chunk >= 1:
                    i = 0
                    while i < len(best[key][ti]):
                        cand = json.loads(json.dumps(best))
                        del cand[key][ti][i:i + chunk]
                        v = fails(cand)
                        if v:
                            best = v['plan'] if 'plan' in v and v['plan'].get('tasks') is not None else cand
                            changed = True
                        else:
                            i += chunk
                    chunk //= 2
        # faults list (pairs / triples are engine-defined; try dropping from the end)
        fl = best.get('faults', [])
        if fl:
            for cut in (len(fl) // 2, 1):
                while cut and len(best.get('faults', [])) >= cut:
                    cand = json.loads(json.dumps(best))
                    del cand['faults'][-cut:]
                    v = fails(cand)
                    if v:
                        best = v['plan'] if 'plan' in v and v['plan'].get('tasks') is not None else cand
                        changed = True
                    else:
                        break
    # schedule: prefer "keep running the current task" wherever the violation survives
    if 'choices' in best and time.time() < t_end:
        ch = best['choices']
        i = 1
        while i < len(ch) and time.time() < t_end:
            if ch[i] != ch[i - 1]:
                cand = json.loads(json.dumps(best))
                cand['choices'][i] = ch[i - 1]
                tested[0] += 1
                v = run_replay(binary, mode, cand, tmpdir)
                if v and v['class'] == cls and 'plan' in v:
                    best = v['plan']
                    ch = best.get('choices', ch)
            i += 1
    return best, tested[0]


# --------------------------------------------------------------------------------------------- known findings
def load_known():
    known = []
    path = os.path.join(ROOT, 'known_findings.txt')
    if not os.path.exists(path):
        return known
    for line in open(path):
        line = line.strip()
        if not line.startswith('known:'):
            continue
        fields = {}
        rest = []
        for tok in line[len('known:'):].split():
            if '=' in tok and not rest and tok.split('=', 1)[0] in ('property', 'class', 'signature'):
                k, v = tok.split('=', 1)
                fields[k] = v
            else:
                rest.append(tok)
        fields['what'] = ' '.join(rest)
        known.append(fields)
    return known


def signature(prop, plan):
    kinds = sorted(set(op[0] for key in ('tasks', 'scripts') for t in plan.get(key, []) for op in t))
    return prop['engine'] + ':' + '.'.join(str(k) for k in kinds)


# --------------------------------------------------------------------------------------------- check
def write_evidence(pid, ev):
    os.makedirs(os.path.join(ROOT, 'evidence'), exist_ok=True)
    with open(os.path.join(ROOT, 'evidence', pid + '.json'), 'w') as f:
        json.dump(ev, f, indent=1, sort_keys=True)
        f.write('\n')


def check(pid, tier):
    prop = PROPS[pid]
    t0 = time.time()
    base = int(os.environ.get('VERIF_SEED', '20260929'))
    od = build(sorted(set(b for st in prop['stages'] for b in [st['bin']] + st.get('bins', []))))
    if od is None:
        return 2
    tmpdir = os.path.join(ROOT, 'build', 'tmp')
    os.makedirs(tmpdir, exist_ok=True)

    all_viol, all_crashes, stage_ev, errors = [], [], [], []
    custom_reports = []
    total_runs = 0
    total_distinct = 0
    total_nontrivial = 0
    samples = []
    merged_all = {}
    for si, st in enumerate(prop['stages']):
        runs = st['runs'][tier]
        binary = os.path.join(od, st['bin'])
        if st.get('custom'):
            # a stage implemented by a python function (e.g. the configuration matrix)
            res = st['custom'](prop, st, tier, base, od, tmpdir, REPO)
        else:
            res = run_workers(binary, st['mode'], base + 7919 * si, runs, st.get('time', {}).get(tier), tmpdir, '%s-%d' % (pid, si))
        merged = merge_stats(res['stats'])
        errors += res['stderr']
        for cr in res.get('custom_reports', []):
            custom_reports.append(cr)
        for v in res['viol']:
            v['_stage'] = si
        for c in res['crashes']:
            c['_stage'] = si
        all_viol += res['viol']
        all_crashes += res['crashes']
        total_runs += merged.get('runs', 0)
        total_nontrivial += merged.get('nontrivial', 0)
        total_distinct += res['distinct']
        samples += merged.get('samples', [])[:2]
        stage_ev.append({'stage': st.get('name', st['mode']), 'binary': st['bin'], 'mode': st['mode'], 'runs': merged.get('runs', 0),
                         'distinct_nontrivial': res['distinct'], 'stats': {k: v for k, v in merged.items() if k not in ('samples', 'engine')}})
        merged_all[st.get('name', st['mode'])] = merged

    wall = time.time() - t0
    rc = 0
    out_lines = []
    reported = []

    # crashes become violations once replayed in a fresh process
    crash_replays = {}
    for c in all_crashes:
        st = prop['stages'][c['_stage']]
        binary = os.path.join(od, st['bin'])
        idx = int(c.get('i', -1))
        # a hang costs a watchdog period per replay: two confirmed representatives per stage and crash kind are enough
        ck = (c['_stage'], c.get('kind', 'crash'), c.get('sig', 0))
        crash_replays[ck] = crash_replays.get(ck, 0) + 1
        if c.get('kind') == 'hang' and crash_replays[ck] > 2 and idx >= 0:
            continue
        if idx < 0:
            errors.append('crash outside a run: ' + c.get('stderr', '')[-500:])
            continue
        r = subprocess.run([binary, '--mode', st['mode'], '--base', str(base + 7919 * c['_stage']), '--dump', str(idx)], stdout=subprocess.PIPE, text=True)
        try:
            plan = json.loads(r.stdout)
        except ValueError:
            errors.append('cannot dump plan %d' % idx)
            continue
        v = run_replay(binary, st['mode'], plan, tmpdir)
        if v is None:
            errors.append('crash at index %d did not reproduce in a fresh process; stderr tail: %s' % (idx, c.get('stderr', '')[-800:]))
            continue
        v['i'] = idx
        v['_stage'] = c['_stage']
        v.setdefault('plan', plan)
        all_viol.append(v)

    known = load_known()
    for cr in custom_reports:
        out_lines.append('VIOLATION property=%s replay=%s' % (pid, cr['replay']))
        log('  class=%s detail=%s' % (cr['class'], cr['detail'][:600]))
        reported.append({'class': cr['class'], 'replay': os.path.relpath(cr['replay'], ROOT), 'known': False})
        rc = 1
    if all_viol:
        # one report per violation class (lowest index first)
        all_viol.sort(key=lambda v: (v['_stage'], v.get('i', 0)))
        seen_cls = set()
        for v in all_viol:
            key = (v['_stage'], v['class'])
            if key in seen_cls or len(seen_cls) >= 4:
                continue
            seen_cls.add(key)
            st = prop['stages'][v['_stage']]
            binary = os.path.join(od, st['bin'])
            # gate 1: the recorded plan reproduces twice in fresh processes with the same hash
            a = run_replay(binary, st['mode'], v['plan'], tmpdir)
            b = run_replay(binary, st['mode'], v['plan'], tmpdir)
            if not a or not b or a['class'] != v['class'] or a['hash'] != b['hash']:
                errors.append('violation %s at index %s does not reproduce deterministically (a=%s b=%s)' % (
                    v['class'], v.get('i'), a and a['class'], b and b['class']))
                continue
            mini, tested = minimise(binary, st['mode'], a.get('plan', v['plan']), v['class'], tmpdir,
                                    budget_s=25 if tier == 'quick' else 60)
            final = run_replay(binary, st['mode'], mini, tmpdir)
            if not final or final['class'] != v['class']:
                mini = a.get('plan', v['plan'])
                final = a
            os.makedirs(os.path.join(ROOT, 'replays'), exist_ok=True)
            rpath = os.path.join(ROOT, 'replays', '%s-%s-%s.json' % (pid, st.get('name', st['mode']), v.get('i', 'x')))
            sig = signature(prop, mini)
            with open(rpath, 'w') as f:
                json.dump({'property': pid, 'engine': st['bin'], 'mode': st['mode'], 'base_seed': base, 'index': v.get('i'),
                           'violation': final['class'], 'detail': final.get('detail', ''), 'hash': final['hash'], 'signature': sig,
                           'ops_before_minimisation': plan_size(v['plan']), 'ops_after_minimisation': plan_size(mini),
                           'candidates_tested': tested, 'describe': final.get('describe', ''), 'plan': mini}, f, indent=1)
                f.write('\n')
            kf = [k for k in known if k.get('property') == pid and k.get('class') == final['class'] and k.get('signature') in (sig, '*')]
            if kf:
                out_lines.append('KNOWN-FINDING: property=%s %s' % (pid, kf[0]['what']))
            else:
                out_lines.append('VIOLATION property=%s replay=%s' % (pid, rpath))
                log('  class=%s detail=%s' % (final['class'], final.get('detail', '')[:600]))
                rc = 1
            reported.append({'class': final['class'], 'replay': os.path.relpath(rpath, ROOT), 'signature': sig, 'known': bool(kf)})
    if errors and rc == 0:
        for e in errors:
            log('MACHINERY ERROR: ' + e)
        rc = 2

    cov = {
        'evaluations': int(total_runs),
        'distinct_nontrivial': int(total_distinct),
        'rule': prop['rule'],
        'samples': samples[:6] if samples else ['(no sample recorded)'],
        'nontrivial_runs': int(total_nontrivial),
        'stages': stage_ev,
        'runs_per_hour': int(total_runs / max(wall, 1e-3) * 3600),
        'real_vs_stub': prop.get('real_vs_stub', {}),
        'reported': reported,
        'workers': WORKERS,
    }
    if 'extra_coverage' in prop:
        cov.update(prop['extra_coverage'](merged_all))
    ev = {'property_id': pid, 'tier': tier, 'seed': base, 'level': prop['level'], 'coverage': cov,
          'assumptions': prop.get('assumptions', []), 'wall_s': round(wall, 2), 'violations': sum(1 for r in reported if not r['known']),
          'repo': REPO}
    write_evidence(pid, ev)
    for ln in out_lines:
        print(ln)
    print('%s %s tier=%s runs=%d distinct_nontrivial=%d wall=%.1fs' % (pid, 'OK' if rc == 0 else ('VIOLATION' if rc == 1 else 'ERROR'), tier, total_runs, total_distinct, wall))
    return rc


def replay_file(path):
    with open(path) as f:
        rep = json.load(f)
    if rep.get('engine') == 'cfg':
        import cfg
        bad = cfg.replay(rep, REPO)
        if bad:
            print('VIOLATION property=%s replay=%s' % (rep.get('property', '?'), path))
            return 1
        print('replay of %s: no violation' % path)
        return 0
    od = build([rep['engine']])
    if od is None:
        return 2
    tmpdir = os.path.join(ROOT, 'build', 'tmp')
    os.makedirs(tmpdir, exist_ok=True)
    v = run_replay(os.path.join(od, rep['engine']), rep['mode'], rep['plan'], tmpdir)
    if v:
        print('VIOLATION property=%s replay=%s' % (rep.get('property', '?'), path))
        print('class=%s hash=%s expected_class=%s expected_hash=%s' % (v['class'], v['hash'], rep.get('violation'), rep.get('hash')))
        print(v.get('detail', ''))
        return 1
    print('replay of %s: no violation' % path)
    return 0


def determinism(pid, nseeds):
    """Every seed twice in separate processes at two worker counts; event-log hashes must agree."""
    prop = PROPS[pid]
    od = build(sorted(set(st['bin'] for st in prop['stages'] if not st.get('custom'))))
    if od is None:
        return 2
    bad = 0
    for si, st in enumerate(prop['stages']):
        if st.get('custom'):
            continue
        binary = os.path.join(od, st['bin'])
        base = int(os.environ.get('VERIF_SEED', '20260929')) + 7919 * si

        def collect(nw):
            got = {}
            procs = []
            per = (nseeds + nw - 1) // nw
            for w in range(nw):
                cmd = [binary, '--mode', st['mode'], '--base', str(base), '--start', str(w), '--count', str(per), '--stride', str(nw), '--loghashes', '--max-viol', '1000000']
                procs.append(subprocess.Popen(cmd, stdout=subprocess.PIPE, stderr=subprocess.DEVNULL, text=True))
            for p in procs:
                so, _ = p.communicate()
                for ln in so.splitlines():
                    if ln.startswith('H '):
                        _, i, h = ln.split()
                        got[int(i)] = h
            return got
        a = collect(16)
        b = collect(5)
        common = sorted(set(a) & set(b))
        diff = [i for i in common if a[i] != b[i]]
        print('%s stage %s: %d seeds compared across 16 and 5 workers, %d differ' % (pid, st['mode'], len(common), len(diff)))
        if diff:
            print('  first differing indices: %s' % diff[:10])
            bad += 1
    return 1 if bad else 0


def main(argv):
    if len(argv) < 2:
        print(__doc__)
        return 2
    cmd = argv[1]
    if cmd == 'check':
        pid = argv[2]
        tier = os.environ.get('VERIF_TIER', 'quick')
        if '--tier' in argv:
            tier = argv[argv.index('--tier') + 1]
        return check(pid, tier)
    if cmd == 'replay':
        return replay_file(argv[2])
    if cmd == 'build':
        bins = argv[2:] or sorted(set(st['bin'] for p in PROPS.values() for st in p['stages'] if not st.get('custom')))
        if not build(bins):
            return 2
        if not argv[2:]:
            import cfg
            try:
                cfg.build_matrix(cfg.QUICK, REPO)
            except RuntimeError as e:
                log(str(e))
                return 2
        return 0
    if cmd == 'determinism':
        n = 2000
        if '--seeds' in argv:
            n = int(argv[argv.index('--seeds') + 1])
        return determinism(argv[2], n)
    print(__doc__)
    return 2


if __name__ == '__main__':
    sys.exit(main(sys.argv))
