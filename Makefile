# Builds the simulation engines from the CURRENT headers of $(REPO) (default /repo) with the hooks enabled.
# Objects depend on every header they include (-MMD), so an edit under $(REPO)/include triggers a rebuild.
REPO ?= /repo
OUT ?= build/main
CXX ?= g++
SAN ?= -fsanitize=address,undefined -fno-sanitize-recover=undefined
OPT ?= -O1
COMMON = $(OPT) -g $(SAN) -fno-omit-frame-pointer -DEVENTPP_VERIF -I$(REPO)/include -MMD -MP -Wall -Wextra -Wno-unused-parameter

CON_BINS = con_list con_queue
SEQ_BINS =
ALL_BINS = $(CON_BINS) $(SEQ_BINS)

.PHONY: all clean
all: $(addprefix $(OUT)/,$(ALL_BINS))

$(OUT)/con_%: engines/con_%.cpp
	@mkdir -p $(OUT)
	$(CXX) -std=c++17 $(COMMON) -o $@ $<

$(OUT)/seq_%: engines/seq_%.cpp
	@mkdir -p $(OUT)
	$(CXX) -std=c++11 $(COMMON) -o $@ $<

$(OUT)/flt_%: engines/flt_%.cpp
	@mkdir -p $(OUT)
	$(CXX) -std=c++11 $(COMMON) -o $@ $<

clean:
	rm -rf build

-include $(wildcard $(OUT)/*.d)
