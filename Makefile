# Builds the simulation engines from the CURRENT headers of $(REPO) (default /repo) with the hooks enabled.
# Objects depend on every header they include (-MMD), so an edit under $(REPO)/include triggers a rebuild.
REPO ?= /repo
OUT ?= build/main
CXX ?= g++
SAN ?= -fsanitize=address,undefined -fno-sanitize-recover=undefined
OPT ?= -O1
STD ?= c++11
COMMON = $(OPT) -g $(SAN) -fno-omit-frame-pointer -DEVENTPP_VERIF -I$(REPO)/include -MMD -MP -Wall -Wextra -Wno-unused-parameter -Wno-mismatched-new-delete

CON_BINS = con_list con_queue
SEQ_BINS =
ALL_BINS = $(CON_BINS) $(SEQ_BINS)

.PHONY: all clean
all: $(addprefix $(OUT)/,$(ALL_BINS))

$(OUT)/con_%: engines/con_%.cpp
	@mkdir -p $(OUT)
	$(CXX) -std=c++17 $(COMMON) -o $@ $<

$(OUT)/seq_%: engines/seq_%.cpp
	@mkdir -p $(OUT)
	$(CXX) -std=c++11 $(COMMON) -o $@ $<

$(OUT)/flt_%: engines/flt_%.cpp
	@mkdir -p $(OUT)
	$(CXX) -std=c++11 $(COMMON) -o $@ $<

clean:
	rm -rf build

-include $(wildcard $(OUT)/*.d)

# ---- multi-variant SEQ engines: one object per policy variant (parallel compilation), one binary per engine
# $(1) = binary name, $(2) = variant numbers, $(3) = source base name, $(4) = compiler
define MULTI
$$(OUT)/$(1).v%.o: engines/$(3).cpp
	@mkdir -p $$(OUT)
	$(4) -std=$$(STD) $$(COMMON) -DSEQ_VARIANT=$$* -DVERIF_SECONDARY_TU -c -o $$@ $$<
$$(OUT)/$(1).main.o: engines/$(3).cpp
	@mkdir -p $$(OUT)
	$(4) -std=$$(STD) $$(COMMON) -DSEQ_MAIN -c -o $$@ $$<
$$(OUT)/$(1): $$(OUT)/$(1).main.o $$(addprefix $$(OUT)/$(1).v,$$(addsuffix .o,$(2)))
	$(4) $$(SAN) -o $$@ $$^
endef
CLANGXX ?= clang++
$(eval $(call MULTI,seq_list,0 1 2 3 4 5 6 7 8,seq_list,$(CXX)))
$(eval $(call MULTI,seq_queue,0 1 2 3 4 5 6,seq_queue,$(CXX)))
$(eval $(call MULTI,seq_disp,0 1 2 3 4 5 6 7 8 9 10 11 12 13 14,seq_disp,$(CXX)))
$(eval $(call MULTI,seq_disp_clang,0 1 2 3 4 5 6 7 8 9 10 11 12 13 14,seq_disp,$(CLANGXX)))
$(eval $(call MULTI,seq_heter,0 1 2 3 4 5 6 7,seq_heter,$(CXX)))
$(eval $(call MULTI,seq_remover,0 1 2 3 4 5,seq_remover,$(CXX)))
$(eval $(call MULTI,seq_anydata,0 1 2 3 4,seq_anydata,$(CXX)))
$(eval $(call MULTI,seq_filter,0 1 2 3 4 5 6 7 8,seq_filter,$(CXX)))
$(eval $(call MULTI,seq_heter_clang,0 1 2 3 4 5 6 7,seq_heter,$(CLANGXX)))
$(eval $(call MULTI,seq_list_clang,0 1 2 3 4 5 6 7 8,seq_list,$(CLANGXX)))
